"""The repository's test corpus: file -> format module (explicit), with the documented overrides."""

from __future__ import annotations

import os

from .core import REPO

DATA = os.path.join(REPO, "iodata", "test", "data")


def corpus():
    """List of (path, module name, pattern_selects: bool)."""
    from iodata.api import FORMAT_MODULES, _select_format_module
    out = []
    for fn in sorted(os.listdir(DATA)):
        p = os.path.join(DATA, fn)
        if os.path.isdir(p) or fn.endswith((".py", ".npy", ".txt")):
            continue
        name = None
        try:
            m = _select_format_module(fn, "load_one")
            name = [k for k, v in FORMAT_MODULES.items() if v is m][0]
        except Exception:
            pass
        explicit = name
        if "qchem" in fn and fn.endswith(".out"):
            explicit = "qchemlog"
        elif "extended" in fn and fn.endswith(".xyz"):
            explicit = "extxyz"
        elif fn.endswith(".json"):
            explicit = "json_qcschema"
        if explicit is None:
            continue
        out.append((p, explicit, explicit == name))
        if fn.endswith(".xyz") and explicit == "xyz":
            # an extended XYZ file under the plain extension (its comment line carries key=value pairs): also a file of that format
            try:
                with open(p) as fh:
                    fh.readline()
                    second = fh.readline()
            except OSError:
                second = ""
            if "Properties=" in second or "Lattice=" in second:
                out.append((p, "extxyz", False))
    return out


def consistent(obj):
    """Mutually consistent shapes, judged from the data model only. Returns list of complaints."""
    import numpy as np
    bad = []
    n = obj.natom
    for a in ("atcoords", "atgradient"):
        v = getattr(obj, a)
        if v is not None and (v.ndim != 2 or v.shape[1] != 3 or (n is not None and v.shape[0] != n)):
            bad.append(f"{a}.shape={v.shape} natom={n}")
    for a in ("atnums", "atmasses", "atfrozen", "atcorenums"):
        v = getattr(obj, a)
        if v is not None and (v.ndim != 1 or (n is not None and v.shape[0] != n)):
            bad.append(f"{a}.shape={v.shape} natom={n}")
    if n is not None:
        for k, v in (obj.atcharges or {}).items():
            if np.shape(v) != (n,):
                bad.append(f"atcharges[{k}].shape={np.shape(v)} natom={n}")
        # force-field parameters are per-atom arrays by the data model; the per-atom arrays the readers document under `extra`
        for k, v in (obj.atffparams or {}).items():
            if hasattr(v, "shape") and (len(np.shape(v)) < 1 or np.shape(v)[0] != n):
                bad.append(f"atffparams[{k}].shape={np.shape(v)} natom={n}")
        for k in ("occupancies", "bfactors", "chainids", "velocities", "segid", "resid"):
            v = (obj.extra or {}).get(k)
            if v is not None and hasattr(v, "shape") and (len(np.shape(v)) < 1 or np.shape(v)[0] != n):
                bad.append(f"extra[{k}].shape={np.shape(v)} natom={n}")
        if obj.athessian is not None and obj.athessian.shape != (3 * n, 3 * n):
            bad.append(f"athessian.shape={obj.athessian.shape} natom={n}")
    mo = obj.mo
    nbasis = None
    if obj.obasis is not None:
        try:
            nbasis = obj.obasis.nbasis
        except Exception as exc:
            bad.append(f"obasis.nbasis raises {type(exc).__name__}")
    if mo is not None:
        norb = mo.norb
        for a in ("occs", "energies", "irreps", "occs_aminusb"):
            v = getattr(mo, a)
            if v is not None and norb is not None and len(v) != norb:
                bad.append(f"mo.{a} len={len(v)} norb={norb}")
        if mo.coeffs is not None:
            if norb is not None and mo.coeffs.shape[1] != norb:
                bad.append(f"mo.coeffs.shape={mo.coeffs.shape} norb={norb}")
            if nbasis is not None and mo.nbasis != nbasis:
                bad.append(f"mo.coeffs rows={mo.coeffs.shape[0]} nbasis={nbasis}")
    if nbasis is not None:
        for k, v in (obj.one_rdms or {}).items():
            if not str(k).endswith("_mo") and np.shape(v) != (nbasis, nbasis):
                bad.append(f"one_rdms[{k}].shape={np.shape(v)} nbasis={nbasis}")
    if obj.cellvecs is not None and (obj.cellvecs.ndim != 2 or obj.cellvecs.shape[1] != 3):
        bad.append(f"cellvecs.shape={obj.cellvecs.shape}")
    return bad
