"""Independent writers: files rendered from a random molecular model following the published layouts.

Fixed-width records are produced by a generic renderer that interprets the column tables exported from
spec/Layouts.tla; units come from the same export and from the harness' own CODATA constants
(vf.project.UNIT).  No iodata code is involved in producing the files.
"""

from __future__ import annotations

import json
import os

import numpy as np

from .project import UNIT

SYMBOLS = ("H He Li Be B C N O F Ne Na Mg Al Si P S Cl Ar K Ca Sc Ti V Cr Mn Fe Co Ni Cu Zn Ga Ge As Se Br Kr Rb Sr Y Zr "
           "Nb Mo Tc Ru Rh Pd Ag Cd In Sn Sb Te I Xe Cs Ba La Ce Pr Nd Pm Sm Eu Gd Tb Dy Ho Er Tm Yb Lu Hf Ta W Re Os Ir Pt "
           "Au Hg Tl Pb Bi Po At Rn Fr Ra Ac Th Pa U Np Pu Am Cm Bk Cf Es Fm Md No Lr Rf Db Sg Bh Hs Mt Ds Rg Cn Nh Fl Mc Lv "
           "Ts Og").split()
FACTOR = dict(UNIT)
FACTOR["nanometer/picosecond"] = UNIT["nanometer"] / UNIT["picosecond"]


def render_record(layout, values):
    """One fixed-width line from a column table and a dict of field values."""
    out = ""
    for f in layout:
        w = f["to"] - f["from"] + 1
        kind = f["kind"]
        if kind.startswith("lit:"):
            s = kind[4:]
        else:
            v = values[f["name"]]
            if kind == "int":
                s = f"{int(v):>{w}d}" if v is not None else " " * w
            elif kind[0] == "f":
                s = f"{float(v):>{w}.{int(kind[1:])}f}"
            elif kind == "sl":
                s = f"{str(v):<{w}s}"
            else:
                s = f"{str(v):>{w}s}"
        if len(s) != w:
            raise ValueError(f"value {values.get(f['name'])!r} does not fit field {f['name']} of width {w}")
        out += s
    return out


def fv(m, rec, field, row, default):
    """The value of a numeric field of record `rec` in row `row`: the model's own, unless this field is the one that is to fill
    its columns in this file (m.fill = {(rec, field): (row, value)}, from the fill table exported by TLC)."""
    hit = getattr(m, "fill", {}).get((rec, field))
    if hit is not None and hit[0] == row:
        return hit[1]
    return default


class Model:
    """A random molecular model with tagged values (all reals in the units and digits of the target file)."""

    def __init__(self, rng, natom, digits=3, mag="small", elements=None):
        self.natom = natom
        pool = elements or list(range(1, 87))
        self.z = [pool[(3 * i + rng.randint(0, 4)) % len(pool)] for i in range(natom)]
        self.sym = [SYMBOLS[z - 1] for z in self.z]
        step = 7 * 10.0 ** (-digits)
        base = {"small": 1.0, "neg": -12.0, "negwide": -900.0, "negwider": -9000.0, "neghundred": -120.0, "wide": 9000.0,
                "hundred": 120.0, "mixed": None}[mag]
        self.xyz = np.zeros((natom, 3))
        for i in range(natom):
            for k in range(3):
                b = base if base is not None else (-1) ** (i + k) * (3.0 + 11.0 * ((i + k) % 3))
                self.xyz[i, k] = round(b + (1 if b >= 0 else -1) * (3 * i + k) * step, digits)
        self.title = f"model {natom} atoms tag{rng.randint(100, 999)}"
        if rng.random() < 0.3:       # free text: runs of blanks inside a title are part of it
            self.title = f"model {natom}  atoms   tag{rng.randint(100, 999)}"
        self.charges = [round((-1) ** i * (0.1 + 0.0013 * (i % 700)), 4) for i in range(natom)]
        self.masses = [round(1.008 + 1.731 * (i % 200), 5) for i in range(natom)]
        types = [1, 2, 3, 4]
        self.bonds = [(i, i + 1, types[i % 4]) for i in range(natom - 1)]
        if natom > 110:
            self.bonds += [(0, 100, 1), (99, natom - 1, 2), (101, 110, 3)]
        self.cell = np.array([[31.5, 0.0, 0.0], [1.25, 33.0, 0.0], [0.5, -0.75, 37.25]])


# ------------------------------------------------------------------ per-format writers
# each returns (file name, text, expected: key -> (value in file units or exact value))
def w_xyz(m, lay, rng, variant):
    lines = [str(m.natom), m.title]
    for s, r in zip(m.sym, m.xyz):
        name = s if variant != "numbers" else str(SYMBOLS.index(s) + 1)
        lines.append(f"{name:<3s} {r[0]:16.8f} {r[1]:16.8f} {r[2]:16.8f}")
    return "m.xyz", "\n".join(lines) + "\n", {"atnums": m.z, "atcoords": m.xyz, "title": m.title}


def w_extxyz(m, lay, rng, variant):
    lat = " ".join(f"{x:.8f}" for x in m.cell.ravel())
    lines = [str(m.natom), f'Lattice="{lat}" Properties=species:S:1:pos:R:3:masses:R:1 charge=-1.0 pbc="T T T"']
    for s, r, ms in zip(m.sym, m.xyz, m.masses):
        lines.append(f"{s:<3s} {r[0]:16.8f} {r[1]:16.8f} {r[2]:16.8f} {ms:14.8f}")
    exp = {"atnums": m.z, "atcoords": m.xyz, "cellvecs": m.cell, "atmasses": m.masses, "charge": -1.0}
    if variant == "noprops":
        # without a Properties key the atom lines have the plain XYZ columns (species and position)
        lines = [str(m.natom), f'Lattice="{lat}" charge=-1.0 pbc="T T T"'] + [f"{s:<3s} {r[0]:16.8f} {r[1]:16.8f} {r[2]:16.8f}" for s, r in zip(m.sym, m.xyz)]
        del exp["atmasses"]
    return "m.extxyz", "\n".join(lines) + "\n", exp


def w_sdf(m, lay, rng, variant):
    bonds = m.bonds[-999:]
    lines = [m.title, "  independent writer", "", render_record(lay["sdf_counts"], {"natom": m.natom, "nbond": len(bonds)})]
    for s, r in zip(m.sym, m.xyz):
        lines.append(render_record(lay["sdf_atom"], {"x": r[0], "y": r[1], "z": r[2], "sym": s}))
    for i, j, t in bonds:
        lines.append(render_record(lay["sdf_bond"], {"i": i + 1, "j": j + 1, "type": t}))
    lines += ["M  END", "$$$$"]
    return "m.sdf", "\n".join(lines) + "\n", {"atnums": m.z, "atcoords": m.xyz, "bonds": [list(b) for b in bonds], "title": m.title}


def w_pdb(m, lay, rng, variant):
    lines = [f"TITLE     {m.title}"]
    names, resn, resq, occ, bf, chain = [], [], [], [], [], []
    for i, (s, r) in enumerate(zip(m.sym, m.xyz)):
        nm = (s.upper() + str(i % 100))[:4]
        names.append(nm)
        resn.append(["ALA", "GLY", "HOH"][i % 3])
        resq.append(fv(m, "pdb_atom", "resseq", i, 1 + (i // 3) % 9999))
        occ.append(fv(m, "pdb_atom", "occ", i, round(0.01 * (1 + i % 99), 2)))
        bf.append(fv(m, "pdb_atom", "b", i, round(1.0 + 0.07 * (i % 1300), 2)))
        chain.append("ABC"[i % 3])
        lines.append(render_record(lay["pdb_atom"], {"rec": "ATOM" if i % 5 else "HETATM", "serial": (i + 1) % 100000, "name": nm,
                                                      "resname": resn[-1], "chain": chain[-1], "resseq": resq[-1], "x": r[0], "y": r[1],
                                                      "z": r[2], "occ": occ[-1], "b": bf[-1], "element": s.upper()}))
    nb = {}
    for i, j, _t in m.bonds:
        nb.setdefault(i, []).append(j)
        nb.setdefault(j, []).append(i)
    pairs = []
    for i in sorted(nb):
        js = nb[i]
        for c in range(0, len(js), 4):
            chunk = js[c:c + 4]
            vals = {"serial": i + 1, "b1": None, "b2": None, "b3": None, "b4": None}
            for k, j in enumerate(chunk):
                vals[f"b{k + 1}"] = j + 1
                pairs.append((i, j))
            lines.append(render_record(lay["pdb_conect"], vals).rstrip())
    lines.append("END")
    exp = {"atnums": m.z, "atcoords": m.xyz, "title": m.title, "extra.occupancies": occ, "extra.bfactors": bf, "extra.chainids": chain,
           "atffparams.attypes": names, "atffparams.restypes": resn, "atffparams.resnums": resq,
           "bonds": sorted({tuple(sorted(p)) for p in pairs})}
    return "m.pdb", "\n".join(lines) + "\n", exp


def w_gro(m, lay, rng, variant):
    vel = np.array([[round(0.1 * (-1) ** (i + k) + 0.0007 * (3 * i + k), 4) for k in range(3)] for i in range(m.natom)])
    if variant == "widevel":
        # every velocity fills its eight columns: together with wide positions no blank is left on the atom line
        vel = np.array([[round(-10.1 - 0.0731 * ((3 * i + k) % 90), 4) for k in range(3)] for i in range(m.natom)])
    for k, name in enumerate(("vx", "vy", "vz")):
        hit = getattr(m, "fill", {}).get(("gro_atom", name))
        if hit is not None:
            vel[hit[0] % m.natom, k] = hit[1]
    lines = [f"{m.title}, t= 12.500", f"{m.natom:5d}"]
    names, resn, resq = [], [], []
    for i, (s, r) in enumerate(zip(m.sym, m.xyz)):
        names.append((s.upper() + str(i % 1000))[:5] if i % 4 != 2 else ["CMAB1", "HEME2", "OXT12"][i % 3])   # also names filling the five columns
        resn.append(["SOL", "WAT", "LIG", "HEMEA", "POPC1"][i % 5])
        resq.append(fv(m, "gro_atom", "resnum", i, 1 + (i // 3) % 99999))
        rec = render_record(lay["gro_atom"], {"resnum": resq[-1], "resname": resn[-1], "atname": names[-1], "atnum": (i + 1) % 100000,
                                              "x": r[0], "y": r[1], "z": r[2], "vx": vel[i, 0], "vy": vel[i, 1], "vz": vel[i, 2]})
        lines.append(rec[:44] if variant.startswith("novel") else rec)      # the velocity columns are optional
    box = [3.15, 3.3, 3.725]
    if variant in ("triclinic", "novel_triclinic"):
        full = [3.15, 3.3, 3.725, 0.0, 0.0, 0.125, 0.0, 0.05, -0.075]
        lines.append("".join(f"{v:10.5f}" for v in full))
        cell = np.array([[full[0], full[3], full[4]], [full[5], full[1], full[6]], [full[7], full[8], full[2]]])
    else:
        lines.append("".join(f"{v:10.5f}" for v in box))
        cell = np.diag(box)
    exp = {"atcoords": m.xyz, "cellvecs": cell, "atffparams.attypes": names, "atffparams.resnames": resn, "atffparams.resnums": resq,
           "extra.time": 12.5, "extra.velocities": vel, "title": m.title}
    if variant.startswith("novel"):
        del exp["extra.velocities"]
    return "m.gro", "\n".join(lines) + "\n", exp


def w_crd(m, lay, rng, variant):
    lines = [f"* {m.title}", "* second title line", "*", f"{m.natom:5d}"]
    names, resn, resq, seg, rid = [], [], [], [], []
    # the weighting array is free-form: now and then a value that fills all ten columns of its field
    weights = [round(1234.56789 + 0.731 * (i % 9000), 5) if i % 7 == 3 else (round(-100.5 - 0.37 * (i % 2000), 5) if i % 11 == 5 else w)
               for i, w in enumerate(m.masses)]
    if getattr(m, "weights_are_masses", False):      # the cross-format comparison of C04 writes the masses of the model
        weights = list(m.masses)
    weights = [fv(m, "crd_atom", "weight", i, w) for i, w in enumerate(weights)]
    for i, (s, r) in enumerate(zip(m.sym, m.xyz)):
        names.append((s.upper() + str(i % 100))[:4] if i % 4 else ("CG2R", "OT12", "H123")[i % 3])     # also names filling the column
        resn.append(["ALA", "GLY", "TIP3"][i % 3])
        resq.append(fv(m, "crd_atom", "resno", i, 1 + (i // 3) % 9999))
        seg.append(["PROT", "SOLV"][i % 2])
        rid.append(997 + (i // 3) % 9000)                                                             # three and four digits
        lines.append(render_record(lay["crd_atom"], {"atomno": (i + 1) % 100000, "resno": resq[-1], "resname": resn[-1], "type": names[-1],
                                                      "x": r[0], "y": r[1], "z": r[2], "segid": seg[-1], "resid": rid[-1], "weight": weights[i]}))
    exp = {"atcoords": m.xyz, "atmasses": weights, "atffparams.attypes": names, "atffparams.resnames": resn, "atffparams.resnums": resq,
           "extra.segid": seg, "extra.resid": rid}
    return "m.crd", "\n".join(lines) + "\n", exp


def w_mol2(m, lay, rng, variant):
    # blank lines are ignored by the format, also when they hold blanks or tabs
    blank = "   \t" if variant == "blanks" else ""
    lines = ["# independent writer", blank, "@<TRIPOS>MOLECULE", m.title, f"{m.natom:5d} {len(m.bonds):5d} 1 0 0", "SMALL", "USER_CHARGES", blank,
             "@<TRIPOS>ATOM"]
    types = []
    for i, (s, r) in enumerate(zip(m.sym, m.xyz)):
        types.append(s + [".3", ".2", ".ar", ""][i % 4] if i % 5 != 3 else ["CG2R61", "CG2R64", "HGR61x", "OG311"][i % 4])   # force-field types of six characters
        # the optional status bits close the atom line (and the bond line) in files written by SYBYL and many converters
        status = "" if variant != "statusbits" else ["", " WATER", " BACKBONE|DICT|DIRECT", " DSPMOD"][i % 4]
        lines.append(f"{i + 1:7d} {s + str(i + 1):<8s} {r[0]:10.4f} {r[1]:10.4f} {r[2]:10.4f} {types[-1]:<6s} {1:3d} LIG {m.charges[i]:10.4f}{status}")
    lines.append("@<TRIPOS>BOND")
    code = {1: "1", 2: "2", 3: "3", 4: "ar"}
    for k, (i, j, t) in enumerate(m.bonds):
        lines.append(f"{k + 1:6d} {i + 1:5d} {j + 1:5d} {code[t]:>4s}" + (" BACKBONE|DICT" if variant == "statusbits" and k % 2 else ""))
    exp = {"atnums": m.z, "atcoords": m.xyz, "bonds": [list(b) for b in m.bonds], "title": m.title,
           "atcharges.mol2charges": m.charges, "atffparams.attypes": types}
    return "m.mol2", "\n".join(lines) + "\n", exp


def _vasp_header(m, rng, variant):
    order = []
    seen = []
    for z in m.z:
        if z not in seen:
            seen.append(z)
    for z in seen:
        order += [i for i in range(m.natom) if m.z[i] == z]
    groups = [(z, sum(1 for x in m.z if x == z)) for z in seen]
    if variant == "repeated":
        # the same element may head several groups (O H O / 1 2 1): atoms stay in file order
        order = list(range(m.natom))
        groups = []
        for z in m.z:
            if groups and groups[-1][0] == z:
                groups[-1] = (z, groups[-1][1] + 1)
            else:
                groups.append((z, 1))
    scale = 1.0 if variant not in ("scaled", "volume", "volume_cartesian") else 1.25
    lines = [m.title, f"   {scale:.14f}"]
    if variant in ("volume", "volume_cartesian"):
        # a negative scaling factor is the volume of the cell in cubic angstrom (the lattice vectors only give its shape)
        lines[1] = f"   {-abs(float(np.linalg.det(m.cell))):.10f}"
    for v in m.cell / scale:
        lines.append(f" {v[0]:21.16f} {v[1]:21.16f} {v[2]:21.16f}")
    lines.append(" ".join(f"{SYMBOLS[z - 1]:>4s}" for z, _n in groups))
    lines.append(" ".join(f"{n_:4d}" for _z, n_ in groups))
    xyz = m.xyz[order]
    if variant in ("cartesian", "scaled", "volume_cartesian"):
        # only the first letter counts, and VASP takes c, C, k and K for Cartesian
        lines.append(rng.choice(["Cartesian", "cartesian", "Kartesian", "k", "C", "Cart"]))
        for r in xyz / scale:
            lines.append(f" {r[0]:19.12f} {r[1]:19.12f} {r[2]:19.12f}")
    else:
        if variant == "selective":
            lines.append("Selective dynamics")
        lines.append("Direct")
        frac = xyz @ np.linalg.inv(m.cell)
        for r in frac:
            lines.append(f" {r[0]:19.16f} {r[1]:19.16f} {r[2]:19.16f}" + ("   T   F   T" if variant == "selective" else ""))
    exp = {"atnums": [m.z[i] for i in order], "atcoords": xyz, "cellvecs": m.cell, "title": m.title}
    return lines, exp


def w_poscar(m, lay, rng, variant):
    lines, exp = _vasp_header(m, rng, variant)
    return "POSCAR_m", "\n".join(lines) + "\n", exp


def _vasp_grid(m, rng, variant, fname, perline, unit_key):
    if variant == "lefthanded":
        m.cell = m.cell[[1, 0, 2]]      # a left-handed set of cell vectors is as valid as a right-handed one: the volume is positive
    lines, exp = _vasp_header(m, rng, "direct")
    shape = (2 + m.natom % 3, 3, 2 + m.natom % 2)
    n = shape[0] * shape[1] * shape[2]
    vals = [float(f"{(-1) ** i * (0.5 + 0.013 * i):.10E}") for i in range(n)]
    data = np.zeros(shape)
    it = iter(vals)
    for i2 in range(shape[2]):          # x runs fastest in VASP grids
        for i1 in range(shape[1]):
            for i0 in range(shape[0]):
                data[i0, i1, i2] = next(it)
    lines.append("")
    lines.append(f" {shape[0]:4d} {shape[1]:4d} {shape[2]:4d}")
    for c in range(0, n, perline):
        lines.append(" ".join(f"{v:17.10E}" for v in vals[c:c + perline]))
    exp["cube.data"] = data
    exp["cube.axes"] = m.cell / np.array(shape).reshape(-1, 1)
    exp["cube.origin"] = np.zeros(3)
    return fname, "\n".join(lines) + "\n", exp


def w_chgcar(m, lay, rng, variant):
    return _vasp_grid(m, rng, variant, "CHGCAR_m", 5, "electron/cellvolume")


def w_locpot(m, lay, rng, variant):
    return _vasp_grid(m, rng, variant, "LOCPOT_m", 5, "electronvolt")


def w_cube(m, lay, rng, variant):
    shape = (2, 3, {"ragged": 7, "six": 6, "one": 1}.get(variant, 5))
    origin = [-1.25, 0.5, 2.125]
    axes = np.array([[0.5, 0.0, 0.01], [0.0, 0.625, 0.0], [0.02, 0.0, 0.75]])
    lines = [m.title, "OUTER LOOP: X, MIDDLE LOOP: Y, INNER LOOP: Z",
             f"{m.natom:5d}" + "".join(f"{v:12.6f}" for v in origin) + (f"{1:5d}" if variant == "nval" else "")]   # optional NVal field
    for k in range(3):
        for a, name in enumerate(("x", "y", "z")):
            axes[k, a] = fv(m, "cube_axis", name, k, axes[k, a])
        lines.append(render_record(lay["cube_axis"], {"n": shape[k], "x": axes[k, 0], "y": axes[k, 1], "z": axes[k, 2]}))
    q = [fv(m, "cube_atom", "q", i, round(float(z) - 0.5 * (i % 2), 6)) for i, z in enumerate(m.z)]
    for i, (z, r) in enumerate(zip(m.z, m.xyz)):
        lines.append(render_record(lay["cube_atom"], {"z": z, "q": q[i], "x": r[0], "y": r[1], "zz": r[2]}))
    data = np.zeros(shape)
    c = 0
    for i0 in range(shape[0]):
        for i1 in range(shape[1]):
            row = []
            for i2 in range(shape[2]):      # z runs fastest, a new line after each z-run
                c += 1
                data[i0, i1, i2] = float(f"{(-1) ** c * (1.0 + 0.001 * c) * 10.0 ** (c % 5 - 2):.5E}")
                row.append(data[i0, i1, i2])
            for s in range(0, len(row), 6):
                lines.append("".join(f"{v:13.5E}" for v in row[s:s + 6]))
    exp = {"atnums": m.z, "atcoords": m.xyz, "atcorenums": q, "title": m.title, "cube.origin": origin, "cube.axes": axes, "cube.data": data,
           "cellvecs": axes * np.array(shape).reshape(-1, 1)}
    return "m.cube", "\n".join(lines) + "\n", exp


def w_fcidump(m, lay, rng, variant):
    n = max(1, min(m.natom, 4))
    one = np.zeros((n, n))
    two = np.zeros((n, n, n, n))
    lines = [f" &FCI NORB={n:3d},NELEC={2 * n - 1:3d},MS2= 1,", "  ORBSYM=" + ",".join("1" for _ in range(n)) + ",", "  ISYM=1,", " &END"]
    c = 0
    for i in range(n):
        for j in range(i + 1):
            for k in range(n):
                for ll in range(k + 1):
                    if i * (i + 1) // 2 + j >= k * (k + 1) // 2 + ll:
                        c += 1
                        v = round(0.25 + 0.0137 * c, 10)
                        idx = (i, j, k, ll)
                        if variant == "upper":      # any of the eight equivalent index orders denotes the same integral
                            idx = [(j, i, ll, k), (k, ll, i, j), (ll, k, j, i), (j, i, k, ll)][c % 4]
                        lines.append(f"{v:23.16E} {idx[0] + 1:4d} {idx[1] + 1:4d} {idx[2] + 1:4d} {idx[3] + 1:4d}")
                        # (ij|kl) chemists' -> <ik|jl> physicists', with the eight-fold symmetry
                        for a, b, cc, d in ((i, j, k, ll), (j, i, k, ll), (i, j, ll, k), (j, i, ll, k), (k, ll, i, j), (ll, k, i, j), (k, ll, j, i), (ll, k, j, i)):
                            two[a, cc, b, d] = v
    for i in range(n):
        for j in range(i + 1):
            c += 1
            v = round(-1.5 + 0.0173 * c, 10)
            one[i, j] = one[j, i] = v
            lines.append(f"{v:23.16E} {i + 1:4d} {j + 1:4d} {0:4d} {0:4d}" if variant != "upper" else f"{v:23.16E} {j + 1:4d} {i + 1:4d} {0:4d} {0:4d}")
    core = 7.0123456789
    lines.append(f"{core:23.16E} {0:4d} {0:4d} {0:4d} {0:4d}")
    exp = {"one_ints.core_mo": one, "two_ints.two_mo": two, "core_energy": core, "nelec": 2 * n - 1, "spinpol": 1}
    return "m.FCIDUMP", "\n".join(lines) + "\n", exp


def w_gaussianinput(m, lay, rng, variant):
    route = {"plain": "#p HF/6-31G(d) SP",
             # coordinates stay in angstrom whatever else the route says (explicit angstrom units, basis-set names, ...)
             "route_units": "#p Units=(Ang,Deg) mp2/aug-cc-pvdz sp",
             "route_long": "#p b3lyp/gen pseudo=read scf=(tight,maxcycle=300) guess=read nosymm gfinput iop(6/7=3)"}.get(variant, "#p HF/6-31G(d) SP")
    lines = ["%chk=model.chk", "%nprocshared=4", route, "", m.title, "", "0 1"] if variant != "plain" else ["%chk=model.chk", route, "", m.title, "", "0 1"]
    for s, r in zip(m.sym, m.xyz):
        lines.append(f" {s:<3s} {r[0]:16.8f} {r[1]:16.8f} {r[2]:16.8f}")
    lines += ["", ""]
    return "m.com", "\n".join(lines), {"atnums": m.z, "atcoords": m.xyz, "title": m.title}


def w_json(m, lay, rng, variant):
    d = {"schema_name": "qcschema_molecule", "schema_version": 2, "symbols": m.sym, "geometry": [float(x) for x in m.xyz.ravel()],
         "molecular_charge": 1.0, "molecular_multiplicity": 2, "masses": m.masses,
         "name": m.title,
         "provenance": {"creator": "independent writer", "version": "1", "routine": "render"}}
    exp = {"atnums": m.z, "atcoords": m.xyz, "atmasses": m.masses, "charge": 1.0}
    if variant == "massnumbers":
        # a molecule document that gives the isotopes by mass number only: the mass of an atom is its mass number in u
        del d["masses"]
        d["mass_numbers"] = [1 + (3 * i) % 230 for i in range(m.natom)]
        exp["atmasses"] = [float(a) for a in d["mass_numbers"]]
    if m.bonds:
        d["connectivity"] = [[i, j, t] for i, j, t in m.bonds[:50]]
        exp["bonds"] = [[i, j, t] for i, j, t in m.bonds[:50]]
    return "m.json", json.dumps(d, indent=1), exp


def fortran_d(v, width=14, dec=6):
    """Fortran D edit descriptor with a leading zero: 0.dddddd D+ee."""
    if v == 0:
        s = "0." + "0" * dec + "D+00"
    else:
        import math
        e = int(math.floor(math.log10(abs(v)))) + 1
        mant = round(abs(v) / 10.0 ** e, dec)
        if mant >= 1.0:
            mant /= 10.0
            e += 1
        s = f"{mant:.{dec}f}D{'+' if e >= 0 else '-'}{abs(e):02d}"
        if v < 0:
            s = "-" + s
    return s.rjust(width)


def w_gaussianlog(m, lay, rng, variant):
    """Gaussian log with the matrices printed by IOp(3/33=5): lower triangle in blocks of five columns, D14.6 values."""
    n = m.natom                                   # number of basis functions
    mats = {}
    lines = [" Entering Gaussian System, Link 0=g09", f"    NBasis ={n:4d}  MinDer = 0  MaxDer = 0", f"    NBasis ={n:4d}"]
    for key, head, off in (("olp", " *** Overlap ***", 0.0), ("kin_ao", " *** Kinetic Energy ***", 0.2), ("na_ao", " ***** Potential Energy *****", 0.4)):
        a = np.zeros((n, n))
        for i in range(n):
            for j in range(i + 1):
                v = round((0.11 + off + 0.000731 * (i * (i + 1) // 2 + j)) % 0.9 + 0.1, 6) * (-1) ** (i + j + (key == "na_ao"))
                a[i, j] = a[j, i] = v
        mats["one_ints." + key] = a
        lines.append(head)
        for b0 in range(0, n, 5):
            cols = range(b0, min(b0 + 5, n))
            lines.append("".join(f"{c + 1:>{17 if k == 0 else 14}d}" for k, c in enumerate(cols)))
            for i in range(b0, n):
                lines.append(render_record(lay["glog_rowlabel"], {"row": i + 1}) + "".join(fortran_d(a[i, j]) for j in cols if j <= i))
    exp = dict(mats)
    if variant == "twoel" and n <= 5:
        two = np.zeros((n, n, n, n))
        lines += [" *** Dumping Two-Electron integrals ***", "", "", "", " ISMode= 1 Mode= 2 IBase=         1 IBasD=         1    131073",
                  " DBase=     65537 DBasD=     65537    196609 IReset=         1         1",
                  " IntCnt=         0 ITotal=       206 NWIIB=    131072 ISym2E=0"]
        c = 0
        for i in range(n):
            for j in range(i + 1):
                for k in range(n):
                    for ll in range(k + 1):
                        if i * (i + 1) // 2 + j >= k * (k + 1) // 2 + ll:
                            c += 1
                            v = round(0.1 + 0.00137 * c, 12)
                            lines.append(render_record(lay["glog_twoel"], {"i": i + 1, "j": j + 1, "k": k + 1, "l": ll + 1}) + fortran_d(v, 20, 12))
                            for a_, b_, c_, d_ in ((i, j, k, ll), (j, i, k, ll), (i, j, ll, k), (j, i, ll, k), (k, ll, i, j), (ll, k, i, j), (k, ll, j, i), (ll, k, j, i)):
                                two[a_, c_, b_, d_] = v
        lines.append(" Leave Link  302")
        exp["two_ints.er_ao"] = two
    lines.append(" Normal termination of Gaussian 09")
    return "m.log", "\n".join(lines) + "\n", exp


def w_orcalog(m, lay, rng, variant):
    """The blocks of an ORCA output file iodata reads (shapes as printed by ORCA 4/5); the geometry of the last cycle counts."""
    n = m.natom
    masses = [round(1.008 + 0.731 * (i % 150), 3) for i in range(n)]
    lines = ["                                 *****************", "                                 * O   R   C   A *", ""]
    ncycle = 2 if variant == "opt" else 1
    e_scf = []
    for cyc in range(ncycle):
        xyz = m.xyz + (0.0 if cyc == ncycle - 1 else 0.37)      # coordinates in bohr; earlier cycles differ
        ang = xyz * 0.52917721
        lines += ["---------------------------------", "CARTESIAN COORDINATES (ANGSTROEM)", "---------------------------------"]
        lines += [f"  {sy:<2s}  {a[0]:12.6f}{a[1]:12.6f}{a[2]:12.6f}" for sy, a in zip(m.sym, ang)]
        lines += ["", "----------------------------", "CARTESIAN COORDINATES (A.U.)", "----------------------------",
                  "  NO LB      ZA    FRAG     MASS         X           Y           Z"]
        lines += [f"{i:4d} {sy:<2s}  {float(z):8.4f}    0  {ms:8.3f}{r[0]:12.6f}{r[1]:12.6f}{r[2]:12.6f}" for i, (sy, z, ms, r) in enumerate(zip(m.sym, m.z, masses, xyz))]
        lines += ["", "--------------", "SCF ITERATIONS", "--------------",
                  "ITER       Energy         Delta-E        Max-DP      RMS-DP      [F,P]     Damp",
                  "               ***  Starting incremental Fock matrix formation  ***"]
        e_scf = [round(-76.3 - 0.011 * k - 0.5 * cyc, 8) for k in range((3 + cyc) if variant != "longscf" else 113)]   # the counter is I3
        for k, e in enumerate(e_scf):
            lines.append(f"{k:3d}   {e:13.8f} {e:14.10f}  0.000433  0.000433  0.001101  0.000179")
            if k == 0:
                lines.append("               *** Restarting incremental Fock matrix formation ***")
        lines += ["                 **** Energy Check signals convergence ****", "", ""]
        energy = round(-76.347791524303 - 1.25 * cyc - 0.001 * n, 12)
        lines += ["-------------------------   --------------------", f"FINAL SINGLE POINT ENERGY   {energy:20.12f}",
                  "-------------------------   --------------------", ""]
    dip = [round(0.76499 + 0.001 * n, 5), -0.31234, round(0.5423 - 0.002 * n, 5)]
    lines += ["Electronic contribution:     -0.01946       0.00000      -0.01514", "Nuclear contribution   :      0.74552       0.00000       0.52716",
              "                        -----------------------------------------",
              f"Total Dipole Moment    : {dip[0]:12.5f} {dip[1]:13.5f} {dip[2]:13.5f}",
              "                        -----------------------------------------", "Magnitude (a.u.)       :      0.93771", ""]
    exp = {"atnums": m.z, "atcoords": m.xyz, "energy": energy, "moments.(1,c)": dip, "extra.scf_energies": e_scf}
    return "m.out", "\n".join(lines) + "\n", exp


def w_gamess(m, lay, rng, variant):
    """GAMESS / Firefly PUNCH file: $DATA group, coordinates of the final geometry, $GRAD, $HESS (after an approximate one that
    must be ignored), atomic masses."""
    n = m.natom
    ang = m.xyz                                    # angstrom
    sym = [s_.upper() for s_ in m.sym]
    lines = [" $DATA", "$DATA"][1:]
    lines += [f"{m.title:<80s}", "C1       0"]
    for sy, z, r in zip(sym, m.z, ang):
        lines += [f"{sy:<10s}{float(z):5.1f}{r[0]:18.10f}{r[1]:18.10f}{r[2]:18.10f}", "   N311       6", "   P          1",
                  "     1         1.5000000000  1.00000000", "           "]
    lines.append(" $END      ")
    grad = np.array([[round((-1) ** (i + k) * (1.1e-5 + 3.7e-7 * (3 * i + k)), 15) for k in range(3)] for i in range(n)])
    energy = round(-959.9675629527 - 0.01 * n, 10)

    def grad_group(shift):
        out = [" $GRAD", f"E={energy + shift:20.10f}  GMAX=   0.0000338  GRMS=   0.0000154"]
        out += [f"{sy:<10s}{float(z):5.0f}.{g[0] + shift:20.10E}{g[1]:20.10E}{g[2]:20.10E}" for sy, z, g in zip(sym, m.z, grad)]
        return out + [" $END"]

    def hess_group(h):
        out = [" $HESS", f"ENERGY IS {energy:20.10f} E(NUC) IS      273.9207388851"]
        for i in range(3 * n):
            row = h[i]
            for c0 in range(0, 3 * n, 5):
                out.append(f"{(i + 1) % 100:2d}{c0 // 5 + 1:3d}" + "".join(f"{v:15.8E}" for v in row[c0:c0 + 5]))
        return out + [" $END"]

    hess = np.array([[round((-1) ** (i + j) * (2.5e-2 + 1.3e-4 * min(i, j) + 1.7e-6 * max(i, j)), 10) for j in range(3 * n)] for i in range(3 * n)])
    if variant == "opt":
        lines += grad_group(0.5)                   # the gradient of an earlier geometry: the last one counts
    lines += ["----- RESULTS FROM SUCCESSFUL RHF      GEOMETRY SEARCH -----", "----- COORDS, ORBS, GRADIENT, AND APPROX. HESSIAN -----",
              " COORDINATES OF SYMMETRY UNIQUE ATOMS (ANGS)", "   ATOM   CHARGE       X              Y              Z",
              " ------------------------------------------------------------"]
    lines += [render_record(lay["gamess_coord"], {"sym": sy, "charge": float(z), "x": r[0], "y": r[1], "z": r[2]}) for sy, z, r in zip(sym, m.z, ang)]
    lines += grad_group(0.0)
    lines += ["CAUTION, APPROXIMATE HESSIAN!"] + hess_group(hess * 0.0 + 0.333)
    lines += grad_group(0.0)
    lines += hess_group(hess)
    lines += ["----- START OF NORMAL MODES FOR -MOLPLT- PROGRAM -----", "ATOMIC MASSES"]
    masses = [round(1.00782 + 1.731 * (i % 120), 5) for i in range(n)]
    for c0 in range(0, n, 5):
        lines.append("".join(f"{v:12.5f}" for v in masses[c0:c0 + 5]))
    lines.append("MODE    1   FREQUENCY=   2.35182 (CM**-1)")
    exp = {"atnums": m.z, "atcoords": ang, "energy": energy, "atgradient": grad, "athessian": hess, "title": m.title, "atmasses_amu": masses}
    return "m.dat", "\n".join(lines) + "\n", exp


def w_qchemlog(m, lay, rng, variant):
    """The sections of a Q-Chem output file iodata reads (shapes as printed by Q-Chem 5)."""
    n = m.natom
    unres = variant == "unrestricted"
    ang = m.xyz
    nbasis = 5 + 2 * n
    # the numbers of alpha and beta electrons the file states (an open-shell system when unrestricted)
    na = min(nbasis - 2, 3 + n)
    nb = na - ((1 + n % 2) if unres else 0)
    lines = ["                  Welcome to Q-Chem", "$molecule", "0 1", "$end", "", "$rem", "ideriv                  2",
             f"jobtype                 {'freq' if variant == 'freq' else 'sp'}", "method                  hf",
             f"unrestricted            {1 if unres else 0}", "basis                   cc-pvtz", "symmetry                false", "$end", "",
             " ----------------------------------------------------------------",
             "             Standard Nuclear Orientation (Angstroms)", "    I     Atom           X                Y                Z",
             " ----------------------------------------------------------------"]
    lines += [f"{i + 1:5d}      {sy:<2s}{r[0]:17.10f}{r[1]:17.10f}{r[2]:17.10f}" for i, (sy, r) in enumerate(zip(m.sym, ang))]
    nuc = round(9.19775748 + 0.5 * n, 8)
    lines += [" ----------------------------------------------------------------", f" Nuclear Repulsion Energy = {nuc:20.8f} hartrees",
              f" There are {na:8d} alpha and {nb:8d} beta electrons", " Requested basis set is cc-pVTZ",
              f" There are {n * 3} shells and {nbasis} basis functions", ""]
    energy = round(-76.0571936393 - 0.37 * n, 10)
    lines += [f" Total energy in the final basis set = {energy:19.10f}", "", " --------------------------------------------------------------",
              "", "                    Orbital Energies (a.u.)", " --------------------------------------------------------------", ""]

    def mo_block(label, nocc, shift):
        occ = [round(-20.5546 + 0.7301 * k + shift, 4) for k in range(nocc)]
        vir = [round(0.1423 + 0.0617 * k + shift, 4) for k in range(nbasis - nocc)]
        out = [f" {label} MOs", " -- Occupied --"]
        for c0 in range(0, len(occ), 8):
            out.append("".join(f"{v:8.4f} " for v in occ[c0:c0 + 8]).rstrip())
        out.append(" -- Virtual --")
        for c0 in range(0, len(vir), 8):
            out.append("".join(f"{v:8.4f} " for v in vir[c0:c0 + 8]).rstrip())
        return out, occ + vir

    blk, ea = mo_block("Alpha", na, 0.0)
    lines += blk + [""]
    eb = []
    if unres:
        blk, eb = mo_block("Beta", nb, 0.0011)
        lines += blk
    lines += [" --------------------------------------------------------------", "",
              "          Ground-State Mulliken Net Atomic Charges", "", "     Atom                 Charge (a.u.)" + ("    Spin (a.u.)" if unres else ""),
              "  " + "-" * (56 if unres else 40)]
    charges = [round((-1) ** i * (0.1 + 0.0013 * (i % 600)), 6) for i in range(n)]
    lines += [f"{i + 1:7d} {sy:<2s}{q:29.6f}" + (f"{0.0:15.6f}" if unres else "") for i, (sy, q) in enumerate(zip(m.sym, charges))]
    lines += ["  " + "-" * (56 if unres else 40), "  Sum of atomic charges =    -0.000000", ""]
    exp = {"atnums": m.z, "atcoords": ang, "energy": energy, "atcharges.mulliken": charges, "extra.nuclear_repulsion_energy": nuc,
           "mo.energies": ea + eb, "lot": "hf", "obasis_name": "cc-pvtz", "run_type": "freq" if variant == "freq" else "sp",
           # aufbau occupations from the electron counts printed above (restricted: doubly occupied levels count twice)
           "mo.occs": ([1.0] * na + [0.0] * (nbasis - na) + [1.0] * nb + [0.0] * (nbasis - nb)) if unres else
                      [float((k < na) + (k < nb)) for k in range(nbasis)]}
    if variant == "freq":
        d = 3 * n
        hess = np.array([[round((-1) ** (i + j) * (0.03 + 0.0013 * min(i, j) + 0.000017 * max(i, j)), 7) for j in range(d)] for i in range(d)])
        lines.append(" Hessian of the SCF Energy")
        for c0 in range(0, d, 6):
            cols = range(c0, min(c0 + 6, d))
            lines.append("    " + "".join(f"{c + 1:12d}" for c in cols))
            for i in range(d):
                lines.append(f"{i + 1:5d}" + "".join(f"{hess[i, c]:12.7f}" for c in cols))
        lines += [" **********************************************************************", " **                                                                  **",
                  " **                       VIBRATIONAL ANALYSIS                       **", "",
                  " STANDARD THERMODYNAMIC QUANTITIES AT   298.15 K  AND     1.00 ATM", "", "   This Molecule has  0 Imaginary Frequencies",
                  "   Zero point vibrational energy:       13.882 kcal/mol", ""]
        vmass = [round(1.00783 + 1.731 * (i % 120), 5) for i in range(n)]
        lines += [f"   Atom {i + 1:4d} Element {sy:<2s} Has Mass {ms:10.5f}" for i, (sy, ms) in enumerate(zip(m.sym, vmass))]
        lines += [f"   Molecular Mass: {sum(vmass):12.6f} amu", ""]
        exp["athessian"] = hess
        exp["atmasses_amu"] = vmass
    lines += ["        *************************************************************", "        *  Thank you very much for using Q-Chem.  Have a nice day.  *", ""]
    return "m.out", "\n".join(lines) + "\n", exp


def w_wfx(m, lay, rng, variant):
    """AIM extended wavefunction file (tagged sections, numbers in E21.14): s primitives on every atom, one p set on the first."""
    n = m.natom
    names = [f"{sy}{i + 1}" for i, sy in enumerate(m.sym)]
    centers = list(range(1, n + 1)) + [1, 1, 1]
    types = [1] * n + [2, 3, 4]
    expo = [round(0.35 + 0.113 * i, 6) for i in range(n)] + [0.8125] * 3
    nprim = len(centers)
    nmo = min(n, 3)
    nel = 2 * nmo

    def sec(tag, body):
        return [f"<{tag}>"] + list(body) + [f"</{tag}>"]

    def fl(v):
        return f"{v: .14E}"

    def chunks(vals, per, fmt):
        return [" ".join(fmt(v) for v in vals[c:c + per]) for c in range(0, len(vals), per)]

    lines = sec("Title", [m.title]) + sec("Keywords", ["GTO"]) + sec("Number of Nuclei", [str(n)]) + sec("Number of Primitives", [str(nprim)])
    lines += sec("Number of Occupied Molecular Orbitals", [str(nmo)]) + sec("Number of Perturbations", ["0"]) + sec("Nuclear Names", names)
    lines += sec("Atomic Numbers", [str(z) for z in m.z]) + sec("Nuclear Charges", [fl(float(z)) for z in m.z])
    lines += sec("Nuclear Cartesian Coordinates", [" ".join(fl(x) for x in r) for r in m.xyz])
    lines += sec("Net Charge", [fl(float(sum(m.z) - nel))]) + sec("Number of Electrons", [str(nel)])
    lines += sec("Number of Alpha Electrons", [str(nmo)]) + sec("Number of Beta Electrons", [str(nmo)]) + sec("Electronic Spin Multiplicity", ["1"])
    lines += sec("Model", ["Restricted HF"]) + sec("Primitive Centers", chunks(centers, 10, str)) + sec("Primitive Types", chunks(types, 10, str))
    lines += sec("Primitive Exponents", chunks(expo, 4, fl))
    occs = [2.0] * nmo
    ens = [round(-20.25 + 3.17 * j, 8) for j in range(nmo)]
    lines += sec("Molecular Orbital Occupation Numbers", [fl(o) for o in occs]) + sec("Molecular Orbital Energies", [fl(e) for e in ens])
    lines += sec("Molecular Orbital Spin Types", ["Alpha and Beta"] * nmo)
    body = []
    for j in range(nmo):
        body += ["<MO Number>", str(j + 1), "</MO Number>"]
        body += chunks([round((-1) ** (j + k) * (0.3 + 0.011 * k + 0.1 * j), 8) for k in range(nprim)], 4, fl)
    lines += sec("Molecular Orbital Primitive Coefficients", body)
    energy = round(-74.965901170787 - 0.01 * n, 12)
    lines += sec("Energy = T + Vne + Vee + Vnn", [fl(energy)]) + sec("Virial Ratio (-V/T)", [fl(2.00599838291596)])
    exp = {"atnums": m.z, "atcoords": m.xyz, "energy": energy, "title": m.title, "mo.occs": occs, "mo.energies": ens}
    if variant in ("gradient", "gradient_permuted"):
        grad = np.array([[round((-1) ** (i + k) * (1.1e-4 + 3.7e-6 * (3 * i + k)), 12) for k in range(3)] for i in range(n)])
        order = list(range(n))
        if variant == "gradient_permuted":
            order = order[::-1] if n < 3 else order[1:] + order[:1]      # the section names its atoms: any order is valid
        lines += sec("Nuclear Cartesian Energy Gradients", [f"{names[i]:<10s} " + " ".join(fl(x) for x in grad[i]) for i in order])
        exp["atgradient"] = grad
    return "m.wfx", "\n".join(lines) + "\n", exp


def w_mwfn(m, lay, rng, variant):
    """A Multiwfn .mwfn file of the test data with the $Centers table re-written: coordinates and nuclear charges carry tags
    (an effective-core-potential calculation has nuclear charges below the atomic numbers).  Everything else is left as it is."""
    import re as _re
    from .core import REPO
    src = os.path.join(REPO, "iodata", "test", "data", ["ch3_hf_sto3g_fchk_multiwfn3.7.mwfn", "ch3_rohf_sto3g_g03_fchk_multiwfn3.7.mwfn"][m.natom % 2])
    lines = open(src).read().splitlines()
    i0 = next(i for i, ln in enumerate(lines) if ln.strip() == "$Centers") + 1
    z, q, xyz = [], [], []
    k = 0
    while _re.match(r"\s*\d+\s+[A-Za-z]+\s+\d+\s", lines[i0 + k]):
        w = lines[i0 + k].split()
        zi = int(w[2])
        qi = float(zi) if (variant != "ecp" or zi < 3) else float(zi - 2)
        r = [round(float(w[4 + a]) + 0.011 * (k + 1) * (-1) ** a, 8) for a in range(3)]
        lines[i0 + k] = f"{int(w[0]):6d} {w[1]:<2s}{zi:5d}{qi:6.1f}{r[0]:16.8f}{r[1]:16.8f}{r[2]:16.8f}"
        z.append(zi)
        q.append(qi)
        xyz.append(r)
        k += 1
    return "m.mwfn", "\n".join(lines) + "\n", {"atnums": z, "atcorenums": q, "atcoords": np.array(xyz)}


ELEMENT_NAMES = {1: "Hydrogen", 6: "Carbon", 8: "Oxygen", 13: "Aluminium", 14: "Silicon", 21: "Scandium", 26: "Iron", 30: "Zinc", 47: "Silver", 64: "Gadolinium"}


def cp2k_radial_norm(l, alpha):
    """L2 norm constant of the radial function r^l exp(-alpha r^2) on r^2 dr: CP2K ATOM prints expansion coefficients with respect to
    these unnormalised radial functions, iodata stores coefficients of normalised primitives.
    int_0^inf r^(2l+2) exp(-2 alpha r^2) dr = Gamma(l + 3/2) / (2 (2 alpha)^(l + 3/2))."""
    from math import gamma
    return ((2.0 * (2.0 * alpha) ** (l + 1.5)) / gamma(l + 1.5)) ** 0.5


def w_cp2klog(m, lay, rng, variant):
    """CP2K ATOM output (one atom): both basis sets, method, potential, total energy, orbital energies and expansion coefficients in
    the shape CP2K 2.4-2.6 prints them (transcribed from the sample outputs).  `m.natom` only seeds the shape of the atom.

    variant: <ae|pp>_<con|unc>[_u]: all-electron or pseudopotential calculation, contracted or uncontracted basis in use, `_u`
    unrestricted.  The basis that is *not* in use is printed in the other style, with a different number of functions.
    Orbitals follow spec/AtomOrbitals.tla: one record per (l, state), one coefficient per radial function of that l."""
    n = m.natom
    pot, style = variant.split("_")[:2]
    unres = variant.endswith("_u")
    z = [8, 13, 14, 21, 26, 30, 47, 64, 6, 1][rng.randrange(10)]
    shape = getattr(m, "atom_shape", None)     # (functions per l, l of every record) enumerated by TLC from MC_AtomOrbitals
    lmax = rng.choice([1, 2, 2, 3, 3]) if shape is None else len(shape[0]) - 1
    core = 0 if pot == "ae" else rng.choice([2, 10, 18] if z > 20 else [2])
    if core >= z:
        core = 0
        pot = "ae"
    q = float(z - core)

    def make_basis(kind, salt):
        """-> list over l of (exponents, coefficient matrix nprim x nfun) for the contracted style, (exponents, None) otherwise"""
        out = []
        for l in range(lmax + 1):
            forced = shape[0][l] if (shape is not None and salt == 0) else None
            nprim = rng.randint(1, 4) if (forced is None or kind == "con") else forced
            expo = sorted({round(0.11 * (salt + 1) + 3.7 ** k * (0.23 + 0.01 * l) + 0.001 * rng.randint(0, 99), 6 if kind == "con" else 8)
                           for k in range(nprim)}, reverse=(kind == "con"))
            if kind == "con":
                nfun = rng.randint(1, 3) if forced is None else forced
                cm = [[round((-1) ** (i + j) * (0.2 + 0.37 * i + 0.0113 * j + 0.001 * rng.randint(0, 99)), 6) for j in range(nfun)] for i in range(len(expo))]
                out.append((expo, cm))
            else:
                out.append((expo, None))
        return out

    used_kind = style
    other_kind = "unc" if style == "con" else "con"
    used = make_basis(used_kind, 0)
    other = make_basis(other_kind, 1)
    ae, pp = (used, other) if pot == "ae" else (other, used)
    ae_kind, pp_kind = (used_kind, other_kind) if pot == "ae" else (other_kind, used_kind)
    nfun = [len(cm[0]) if cm is not None else len(ex) for ex, cm in used]

    def basis_lines(b, kind):
        lines = [""]
        if kind == "con":
            lines += [" ********************** Contracted Gaussian Type Orbitals **********************"]
            for l, (ex, cm) in enumerate(b):
                lines.append(f" {'spdf'[l]} Functions")
                for a, row in zip(ex, cm):
                    lines.append(f"{a:15.6f}{row[0]:15.6f}" + "".join(f"{c:10.6f}" for c in row[1:]))
        else:
            lines += [" ********************* Uncontracted Gaussian Type Orbitals *********************", ""]
            for l, (ex, _cm) in enumerate(b):
                for i, a in enumerate(ex):
                    head = f" {'spdf'[l]} Exponents:" if i == 0 else ""
                    lines.append(f"{head:<13s}{i + 1:21d}{a:46.8f}")
                if l < len(b) - 1:
                    lines.append("")
        lines.append(" *******************************************************************************")
        return lines

    name = ELEMENT_NAMES[z]
    sym = SYMBOLS[z - 1]
    lines = ["", " CP2K| version string:                                        CP2K version 2.6", " GLOBAL| Method name                                                        ATOM", "", ""]
    lines += [f" Atomic Energy Calculation{name:>19s} [{sym}]" + " " * (12 - len(sym)) + f"Atomic number:{z:5d}", "", "", " All Electron Basis"]
    lines += basis_lines(ae, ae_kind) + ["", " Pseudopotential Basis"] + basis_lines(pp, pp_kind) + [""]
    lines += [f" METHOD    | {'Unrestricted' if unres else 'Restricted'} Kohn-Sham Calculation", " METHOD    | Nonrelativistic Calculation",
              " FUNCTIONAL| ROUTINE=NEW", " FUNCTIONAL| PBE:", ""]
    if pot == "pp":
        lines += [" ***************************** GTH Pseudopotential *****************************", f"          Core Charge{q:59.1f}",
                  f"          Rc{0.244554:68.6f}", " *******************************************************************************", ""]
    else:
        lines += [" **************************** All Electron Potential ***************************",
                  " *******************************************************************************", ""]
    # occupied (l, state) records: the number of states per l is independent of everything else (at most the number of functions)
    nstate = [min(nfun[l], rng.choice([[1, 2, 3], [0, 1, 2, 2], [0, 0, 1, 1], [0, 0, 1]][l])) for l in range(lmax + 1)]
    if sum(nstate) == 0:
        nstate[0] = 1
    if shape is not None:
        nstate = [list(shape[1]).count(l) for l in range(lmax + 1)]
    recs = [(l, s + 1) for l in range(lmax + 1) for s in range(nstate[l])]
    spins = ["alpha", "beta"] if unres else [""]
    occ, ener, coef = {}, {}, {}
    for k, (l, s) in enumerate(recs):
        for sp in spins:
            full = (2 * l + 1) * (1 if unres else 2)
            # whole numbers of electrons, partially filled last shells, an empty beta shell now and then
            o = float(rng.choice([full, full, max(full - 2, 0) if not unres else max(full - 1, 0), 0 if sp == "beta" else full]))
            occ[(l, s, sp)] = o
            ener[(l, s, sp)] = round(-20.0 / (1 + k) + 0.731 * l + (0.0173 if sp == "beta" else 0.0) + 0.000001 * rng.randint(0, 999), 6)
            coef[(l, s, sp)] = [float(f"{(-1) ** (i + k) * (0.31 + 0.173 * i + 0.0191 * k + (0.005 if sp == 'beta' else 0.0) + 1e-7 * rng.randint(0, 9999)):.15E}")
                                for i in range(nfun[l])]
    if not unres and sum(occ.values()) % 2:
        occ[(recs[0][0], recs[0][1], "")] += 1.0
    nelec = sum(occ.values())
    lines += [" Electronic structure", f"    Total number of core electrons{float(core):46.2f}", f"    Total number of valence electrons{nelec:43.2f}",
              f"    Total number of electrons{nelec + core:51.2f}", "    Multiplicity                                                   not specified", "", "",
              " *******************************************************************************",
              "                  Iteration          Convergence                     Energy [au]",
              " *******************************************************************************"]
    energy = round(-0.5 * z ** 2.4 - 0.001 * n - 1e-9 * rng.randint(0, 999999), 12)
    lines += [f"{1:27d}{0.476859:16.6f}{energy + 0.16:37.12f}", f"{2:27d}{0.191822E-06:20.6E}{energy:33.12f}", "",
              f" Energy components [Hartree]           Total Energy ::{energy:26.12f}",
              f"                                        Band Energy ::{-21.501903996734:26.12f}",
              f"                                     Kinetic Energy ::{-energy + 0.3:26.12f}", ""]
    ev = 27.2113838565563
    if unres:
        lines += [" Orbital energies  State     Spin  L     Occupation   Energy[a.u.]    Energy[eV]", ""]
    else:
        lines += [" Orbital energies  State     L     Occupation   Energy[a.u.]          Energy[eV]", ""]
    for l in range(lmax + 1):
        if nstate[l] == 0:
            continue
        for s in range(1, nstate[l] + 1):
            for sp in spins:
                o, e = occ[(l, s, sp)], ener[(l, s, sp)]
                if unres:
                    lines.append(f"{s:24d}{sp:>9s}{l:3d}{o:15.3f}{e:15.6f}{e * ev:14.6f}")
                else:
                    lines.append(f"{s:24d}{l:6d}{o:15.3f}{e:15.6f}{e * ev:20.6f}")
        lines.append("")
    lines.append("")
    for sp in spins:
        lines += [f" Atomic orbital expansion coefficients [{sp.capitalize()}]", ""]
        for l, s in recs:
            lines.append(f"    ORBITAL      L = {l}      State ={s:4d}")
            lines += [f"{c:30.15E}" for c in coef[(l, s, sp)]]
            lines.append("")
    lines += ["", "                             NORMAL TERMINATION OF     ", ""]
    # ---- what the file says, in iodata's terms
    exps, cfs, angmoms, kinds, ncons = [], [], [], [], []
    for l, (ex, cm) in enumerate(used):
        kind = "c" if l < 2 else "p"
        if cm is not None:
            ncons.append(len(cm[0]))
            angmoms += [l] * len(cm[0])
            kinds += [kind] * len(cm[0])
            exps += list(ex)
            for a, row in zip(ex, cm):
                cfs += [c / cp2k_radial_norm(l, a) for c in row]
        else:
            for a in ex:
                ncons.append(1)
                angmoms.append(l)
                kinds.append(kind)
                exps.append(a)
                cfs.append(1.0 / cp2k_radial_norm(l, a))
    off = [0]
    for l in range(lmax + 1):
        off.append(off[-1] + (2 * l + 1) * nfun[l])
    nbasis = off[-1]
    norb = sum(2 * l + 1 for l, _s in recs)
    blocks, places = [], []
    for sp in spins:
        cmat = np.zeros((nbasis, norb))
        es, os_ = [], []
        col = 0
        for ri, (l, s) in enumerate(recs):
            for im in range(2 * l + 1):
                for ic, c in enumerate(coef[(l, s, sp)]):
                    cmat[off[l] + (2 * l + 1) * ic + im, col] = c
                    places.append({"spin": sp or "both", "l": l, "r": ri + 1, "ic": ic, "im": im, "value": c})
                es.append(ener[(l, s, sp)])
                os_.append(occ[(l, s, sp)] / (2 * l + 1))
                col += 1
        blocks.append((cmat, es, os_))
    exp = {"atnums": [z], "atcorenums": [q], "atcoords": np.zeros((1, 3)), "energy": energy, "obasis.angmoms": angmoms, "obasis.kinds": kinds,
           "obasis.ncons": ncons, "obasis.exponents": exps, "obasis.coeffs": cfs, "obasis.primitive_normalization": "L2",
           "mo.kind": "unrestricted" if unres else "restricted", "mo.norba": norb, "mo.norbb": norb,
           "mo.coeffs": np.hstack([b[0] for b in blocks]), "mo.energies": [e for b in blocks for e in b[1]],
           "mo.occs": [o for b in blocks for o in b[2]],
           "_atom": {"nfun": nfun, "recs": [l for l, _s in recs], "places": places, "norb": norb, "unres": unres}}
    return "atom.cp2k.out", "\n".join(lines) + "\n", exp


def _fchk_array(lay, label, vals, real):
    rec = lay["fchk_rarray" if real else "fchk_iarray"]
    out = [render_record(rec, {"label": label, "count": len(vals)})]
    per = 5 if real else 6
    for c in range(0, len(vals), per):
        out.append("".join((f"{v:16.8E}" if real else f"{int(v):12d}") for v in vals[c:c + per]))
    return out


def w_fchk(m, lay, rng, variant):
    """A minimal but complete FCHK: s-type minimal basis (one s shell per atom), RHF closed shell."""
    n = m.natom
    nb = n
    nel = 2 * ((n + 1) // 2)
    lines = [m.title, f"{'SP':<10s}{'RHF':<30s}{'STO-1G':>30s}"]
    lines.append(render_record(lay["fchk_iscalar"], {"label": "Number of atoms", "value": n}))
    lines.append(render_record(lay["fchk_iscalar"], {"label": "Charge", "value": sum(m.z) - nel}))
    lines.append(render_record(lay["fchk_iscalar"], {"label": "Multiplicity", "value": 1}))
    lines.append(render_record(lay["fchk_iscalar"], {"label": "Number of electrons", "value": nel}))
    lines.append(render_record(lay["fchk_iscalar"], {"label": "Number of alpha electrons", "value": nel // 2}))
    lines.append(render_record(lay["fchk_iscalar"], {"label": "Number of beta electrons", "value": nel // 2}))
    lines.append(render_record(lay["fchk_iscalar"], {"label": "Number of basis functions", "value": nb}))
    lines.append(render_record(lay["fchk_iscalar"], {"label": "Number of independent functions", "value": nb}))
    lines += _fchk_array(lay, "Atomic numbers", m.z, False)
    q = [float(z) for z in m.z]
    lines += _fchk_array(lay, "Nuclear charges", q, True)
    lines += _fchk_array(lay, "Current cartesian coordinates", list(m.xyz.ravel()), True)
    frozen = [(-2 if i % 2 else -1) for i in range(n)]
    lines += _fchk_array(lay, "MicOpt", frozen, False)
    lines += _fchk_array(lay, "Real atomic weights", m.masses, True)
    lines += _fchk_array(lay, "Shell types", [0] * n, False)
    lines += _fchk_array(lay, "Number of primitives per shell", [1] * n, False)
    lines += _fchk_array(lay, "Shell to atom map", list(range(1, n + 1)), False)
    exps = [round(0.3 + 0.11 * i, 8) for i in range(n)]
    lines += _fchk_array(lay, "Primitive exponents", exps, True)
    lines += _fchk_array(lay, "Contraction coefficients", [1.0] * n, True)
    energy = -7.53216549
    lines.append(f"{'Total Energy':<40s}   R     {energy:22.15E}")
    lines.append(f"{'SCF Energy':<40s}   R     {energy:22.15E}")
    moe = [round(-2.0 + 0.37 * i, 8) for i in range(nb)]
    lines += _fchk_array(lay, "Alpha Orbital Energies", moe, True)
    C = np.array([[float(f"{(-1) ** (a + b) * (0.1 + 0.01 * a + 0.0001 * b):.8E}") for b in range(nb)] for a in range(nb)])  # C[basis, orbital]
    lines += _fchk_array(lay, "Alpha MO coefficients", list(C.T.ravel()), True)   # orbital by orbital
    dm = np.zeros((nb, nb))
    tri = []
    for a in range(nb):
        for b in range(a + 1):
            v = float(f"{0.5 + 0.01 * a + 0.0001 * b:.8E}")
            dm[a, b] = dm[b, a] = v
            tri.append(v)
    lines += _fchk_array(lay, "Total SCF Density", tri, True)
    lines += _fchk_array(lay, "Mulliken Charges", m.charges, True)
    grad = np.array([[float(f"{0.01 * (-1) ** (i + k) + 0.0001 * (3 * i + k):.8E}") for k in range(3)] for i in range(n)])
    lines += _fchk_array(lay, "Cartesian Gradient", list(grad.ravel()), True)
    h = np.zeros((3 * n, 3 * n))
    tri = []
    for a in range(3 * n):
        for b in range(a + 1):
            v = float(f"{0.02 + 0.001 * a + 0.00001 * b:.8E}")
            h[a, b] = h[b, a] = v
            tri.append(v)
    lines += _fchk_array(lay, "Cartesian Force Constants", tri, True)
    dip = [0.11, -0.22, 0.33]
    lines += _fchk_array(lay, "Dipole Moment", dip, True)
    quad_file = [1.1, 2.2, 3.3, 4.4, 5.5, 6.6]            # XX YY ZZ XY XZ YZ
    lines += _fchk_array(lay, "Quadrupole Moment", quad_file, True)
    quad = [1.1, 4.4, 5.5, 2.2, 6.6, 3.3]                 # xx xy xz yy yz zz
    pol_tri = [5.1, 0.2, 6.1, 0.3, 0.4, 7.1]
    lines += _fchk_array(lay, "Polarizability", pol_tri, True)
    pol = np.array([[5.1, 0.2, 0.3], [0.2, 6.1, 0.4], [0.3, 0.4, 7.1]])
    if variant == "shuffled":
        # the order of the fields of a checkpoint file is not fixed, and files carry many fields a reader does not know:
        # split into (header, field blocks), add foreign fields of every type, shuffle
        head, blocks = lines[:2], []
        for ln in lines[2:]:
            if len(ln) > 43 and ln[43] in "IRCL" and ln[:40].strip() and not ln[:1].isspace():
                blocks.append([ln])
            else:
                blocks[-1].append(ln)
        blocks.append([f"{'Route':<40s}   C   N={3:12d}", "#p hf/sto-3g scf=tight pop=full"])
        blocks.append([f"{'Info1-9':<40s}   I   N={9:12d}", "".join(f"{v:12d}" for v in range(1, 7)), "".join(f"{v:12d}" for v in range(7, 10))])
        blocks.append([f"{'Virial Ratio':<40s}   R     {2.0012345678:22.15E}"])
        blocks.append([f"{'ONIOM Charges':<40s}   R   N={2:12d}", f"{0.5:16.8E}{-0.5:16.8E}"])
        blocks.append([f"{'External E-field':<40s}   L     {'F':>12s}"])
        rng.shuffle(blocks)
        lines = head + [ln for b in blocks for ln in b]
    exp = {"atnums": m.z, "atcoords": m.xyz, "atcorenums": q, "energy": energy, "atmasses": m.masses, "atgradient": grad, "athessian": h,
           "atcharges.mulliken": m.charges, "moments.(1,c)": dip, "moments.(2,c)": quad, "extra.polarizability_tensor": pol,
           "one_rdms.scf": dm, "atfrozen": [f == -2 for f in frozen], "mo.energies": moe, "mo.coeffs": C, "obasis.exponents": exps}
    return "m.fchk", "\n".join(lines) + "\n", exp


WRITERS = {"xyz": w_xyz, "extxyz": w_extxyz, "sdf": w_sdf, "pdb": w_pdb, "gromacs": w_gro, "charmm": w_crd, "mol2": w_mol2,
           "poscar": w_poscar, "chgcar": w_chgcar, "locpot": w_locpot, "cube": w_cube, "fcidump": w_fcidump,
           "gaussianinput": w_gaussianinput, "json_qcschema": w_json, "fchk": w_fchk, "gaussianlog": w_gaussianlog,
           "orcalog": w_orcalog, "gamess": w_gamess, "qchemlog": w_qchemlog, "wfx": w_wfx, "mwfn": w_mwfn, "cp2klog": w_cp2klog}
VARIANTS = {"xyz": ["plain", "numbers"], "poscar": ["direct", "cartesian", "selective", "scaled", "repeated", "volume", "volume_cartesian"], "cube": ["five", "ragged", "six", "one", "nval"],
            "gromacs": ["rect", "triclinic", "novel", "novel_triclinic", "widevel"], "mol2": ["plain", "statusbits", "blanks"], "extxyz": ["plain", "noprops"], "json_qcschema": ["plain", "massnumbers"], "gaussianlog": ["plain", "twoel"], "orcalog": ["plain", "opt", "longscf"], "gamess": ["plain", "opt"],
            "qchemlog": ["plain", "unrestricted", "freq"], "wfx": ["plain", "gradient", "gradient_permuted"], "fchk": ["plain", "shuffled"],
            "gaussianinput": ["plain", "route_units", "route_long"], "fcidump": ["plain", "upper"], "mwfn": ["plain", "ecp"], "chgcar": ["plain", "lefthanded"], "locpot": ["plain", "lefthanded"],
            "cp2klog": ["ae_con", "pp_con", "ae_unc", "pp_unc", "ae_con_u", "pp_unc_u", "ae_unc_u", "pp_con_u"]}
# coordinate digits written per format and the magnitude classes its columns can hold
DIGITS = {"xyz": 8, "extxyz": 8, "sdf": 4, "pdb": 3, "gromacs": 3, "charmm": 5, "mol2": 4, "poscar": 8, "chgcar": 8, "locpot": 8, "cube": 6,
          "fcidump": 3, "gaussianinput": 8, "json_qcschema": 8, "fchk": 8, "gaussianlog": 6, "orcalog": 6, "gamess": 10, "qchemlog": 10, "wfx": 10, "mwfn": 8, "cp2klog": 6}
MAGS = {"sdf": ["small", "neg", "negwide", "negwider", "wide", "mixed"], "pdb": ["small", "neg", "negwide", "wide", "mixed"],
        "gromacs": ["small", "neg", "neghundred", "hundred", "mixed"], "charmm": ["small", "neg", "negwide", "negwider", "mixed"],
        "mol2": ["small", "negwide", "negwider", "mixed"], "cube": ["small", "neg", "negwide", "mixed"],
        "orcalog": ["small", "neg", "negwide", "wide", "mixed"], "gaussianinput": ["small", "neg", "negwide", "wide", "mixed"],
        "qchemlog": ["small", "neg", "negwide", "mixed"], "gamess": ["small", "neg", "negwide", "mixed"], "wfx": ["small", "neg", "negwide", "wide", "mixed"]}
SIZES = {"xyz": [1, 3, 10, 100, 1200], "extxyz": [1, 3, 10, 120], "sdf": [1, 2, 9, 10, 99, 100, 101, 120, 500, 999],
         "pdb": [1, 2, 10, 99, 100, 1000, 9999, 10001, 12000], "gromacs": [1, 3, 10, 100, 1000, 10001], "charmm": [1, 3, 10, 100, 1000],
         "mol2": [1, 2, 10, 100, 1000], "poscar": [1, 2, 5, 8, 30], "chgcar": [1, 2, 5, 8], "locpot": [1, 2, 5], "cube": [1, 2, 3, 7],
         "fcidump": [1, 2, 3, 4], "gaussianinput": [1, 3, 10, 60], "json_qcschema": [1, 3, 10, 100], "fchk": [1, 2, 3, 5, 6, 7, 11],
         "gaussianlog": [1, 2, 4, 5, 6, 7, 10, 11, 12, 16, 21], "orcalog": [1, 2, 3, 10, 100, 120], "gamess": [1, 2, 3, 4, 5, 6, 11, 34],
         "qchemlog": [1, 2, 3, 4, 5, 7, 12, 30], "wfx": [1, 2, 3, 4, 7, 12], "mwfn": [1, 2], "cp2klog": [1, 2, 3, 4, 5, 6, 7, 8, 9, 10, 11, 12]}
COORD_UNIT = {"gromacs": "nanometer", "cube": "au", "fchk": "au", "json_qcschema": "au", "orcalog": "au", "wfx": "au"}
