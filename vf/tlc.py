"""TLC runner: model checking runs, batched trace validation, behaviour generation."""

from __future__ import annotations

import glob
import json
import os
import re
import shutil
import subprocess
import time
from concurrent.futures import ThreadPoolExecutor

from .core import NCPU, SPEC_DIR, MachineryError, Run

JAR = "/opt/veriftools/tla/tla2tools.jar:/opt/veriftools/tla/CommunityModules-deps.jar"


def err_excerpt(out: str) -> str:
    i = out.find("Error:")
    if i < 0:
        return out[-3000:]
    return out[max(0, i - 200): i + 2500]


def spec_dir(run: Run) -> str:
    """Copy of /verif/spec in the scratch directory (generated modules are written next to it)."""
    d = os.path.join(run.work, "spec")
    if not os.path.isdir(d):
        shutil.copytree(SPEC_DIR, d)
    return d


def write_module(run: Run, name: str, text: str):
    with open(os.path.join(spec_dir(run), name), "w") as fh:
        fh.write(text)


_RE_STATES = re.compile(r"(\d+) states generated, (\d+) distinct states found, (\d+) states left")
_RE_DEPTH = re.compile(r"The depth of the complete state graph search is (\d+)")
_RE_COV = re.compile(r"^<(\w+) line (\d+), col \d+ to line \d+, col \d+ of module (\w+)>: (\d+):(\d+)", re.M)
_RE_RESULT = re.compile(r'^<<"RESULT", (\d+), (\d+), (\d+)>>', re.M)


def run_tlc(run: Run, module: str, cfg: str | None = None, *, env=None, workers=None, timeout=600,
            coverage=False, simulate=None, depth=None, seed=None, deadlock=True, extra=None,
            heap="4g", tag=None, check=True):
    """Run TLC on spec/<module>.tla; returns a dict of statistics and the raw output.

    ``check=True`` turns every TLC error (parse error, evaluation error, violated property of the
    *model*) into a MachineryError.  Callers that use TLC as an oracle over data exported from the
    code pass check=False and read ``violated``/``errors`` themselves.
    """
    d = spec_dir(run)
    tag = tag or module
    meta = os.path.join(run.work, "meta-" + tag + "-" + str(time.time_ns()))
    cmd = ["java", "-XX:+UseParallelGC", f"-Xmx{heap}", "-cp", JAR]
    cmd += ["tlc2.TLC", "-metadir", meta, "-noGenerateSpecTE"]
    cmd += ["-workers", str(workers or "auto")]
    if cfg:
        cmd += ["-config", cfg]
    if coverage:
        cmd += ["-coverage", "1"]
    if not deadlock:
        cmd += ["-deadlock"]
    if simulate:
        cmd += ["-simulate", simulate]
    if depth:
        cmd += ["-depth", str(depth)]
    if seed is not None:
        cmd += ["-seed", str(seed)]
    if extra:
        cmd += list(extra)
    cmd += [module + ".tla"]
    e = dict(os.environ)
    if env:
        e.update({k: str(v) for k, v in env.items()})
    t0 = time.time()
    try:
        p = subprocess.run(cmd, cwd=d, env=e, stdout=subprocess.PIPE, stderr=subprocess.STDOUT,
                           timeout=timeout, text=True, errors="replace")
        out = p.stdout
        rc = p.returncode
    except subprocess.TimeoutExpired as exc:
        out = (exc.stdout or b"").decode(errors="replace") if isinstance(exc.stdout, bytes) else (exc.stdout or "")
        if simulate:
            rc = 0  # simulation runs are time-boxed by design
        else:
            raise MachineryError(f"TLC timeout after {timeout}s on {module}\n{out[-2000:]}")
    finally:
        shutil.rmtree(meta, ignore_errors=True)
    st = {"name": tag, "module": module, "rc": rc, "output": out, "wall_s": round(time.time() - t0, 2)}
    m = None
    for m in _RE_STATES.finditer(out):
        pass
    if m:
        st["generated"], st["distinct"] = int(m.group(1)), int(m.group(2))
    else:
        st["generated"], st["distinct"] = 0, 0
    m = _RE_DEPTH.search(out)
    st["depth"] = int(m.group(1)) if m else None
    st["errors"] = [ln for ln in out.splitlines() if ln.startswith("Error:")]
    mv = re.search(r"Invariant (\w+) is violated", out)
    st["violated"] = mv.group(1) if mv else None
    if not mv:
        mv = re.search(r"Action property (\w+) is violated", out) or re.search(r"Temporal properties were violated", out)
        if mv:
            st["violated"] = mv.group(1) if mv.groups() else "temporal"
    if coverage:
        zero = []
        seen = {}
        for name, line, mod, n_dist, n_tot in _RE_COV.findall(out):
            seen[(mod, name, line)] = (int(n_dist), int(n_tot))
        for (mod, name, line), (nd, nt) in seen.items():
            if nt == 0 and name not in ("Init",):
                zero.append(f"{mod}.{name}@{line}")
        st["coverage_zero"] = sorted(zero)
        st["coverage_actions"] = {f"{mod}.{name}@{line}": v[1] for (mod, name, line), v in seen.items()}
    st["results"] = [(int(a), int(b), int(c)) for a, b, c in _RE_RESULT.findall(out)]
    ok = (rc == 0) and not st["errors"] and not st["violated"]
    st["ok"] = ok
    if check and not ok:
        raise MachineryError(f"TLC failed on {module} (rc={rc}, violated={st['violated']}):\n{err_excerpt(out)}")
    return st


def validate_traces(run: Run, module: str, traces: list, *, cfg=None, chunk=4000, timeout=900,
                    env=None, heap="3g"):
    """Batched trace validation.

    ``traces`` is a list of traces (each a list of JSON-able events).  They are split into chunks,
    every chunk is validated by one TLC process (single worker, TLCSet/TLCGet registers), chunks run
    in parallel.  Returns a list ``reached`` with, per trace, the index (1-based) of the last event
    that the specification could explain; a trace is accepted iff reached[i] == len(traces[i]).
    """
    if not traces:
        return []
    d = spec_dir(run)
    cfg = cfg or (module + ".cfg")
    chunks = [traces[i:i + chunk] for i in range(0, len(traces), chunk)]
    files = []
    for i, ch in enumerate(chunks):
        path = os.path.join(run.work, f"traces-{module}-{i}-{time.time_ns()}.json")
        with open(path, "w") as fh:
            json.dump(ch, fh, separators=(",", ":"))
        files.append(path)

    def one(i):
        e = {"TRACE_FILE": files[i]}
        if env:
            e.update(env)
        st = run_tlc(run, module, cfg, env=e, workers=1, timeout=timeout, heap=heap,
                     tag=f"{module}-chunk{i}", check=False)
        if st["errors"] or st["rc"] != 0:
            raise MachineryError(f"trace validation failed ({module} chunk {i}):\n{err_excerpt(st['output'])}")
        res = {t: (r, n) for t, r, n in st["results"]}
        if len(res) != len(chunks[i]):
            raise MachineryError(
                f"trace validation: {len(res)} verdicts for {len(chunks[i])} traces ({module} chunk {i})\n"
                + st["output"][-2000:])
        out = []
        for t in range(1, len(chunks[i]) + 1):
            r, n = res[t]
            if n != len(chunks[i][t - 1]):
                raise MachineryError("trace length mismatch in verdicts")
            out.append(r)
        return out, st

    reached = []
    with ThreadPoolExecutor(max_workers=max(1, min(NCPU, len(chunks)))) as ex:
        for out, st in ex.map(one, range(len(chunks))):
            reached.extend(out)
            run.cov["transitions"] += st["generated"]
    for f in files:
        os.remove(f)
    run.cov["traces_validated_against_impl"] += len(traces)
    return reached


# ---------------------------------------------------------------------------------------------
# behaviours out of TLC (-simulate file=...): one TLA+ trace file per behaviour

_RE_STATE_HDR = re.compile(r"^\\\* <(\w+) line \d+, col \d+ to line \d+, col \d+ of module \w+>\s*$")


def simulate_behaviours(run: Run, module: str, cfg: str, num: int, depth: int, seed: int, timeout=300):
    """Return a list of behaviours; each behaviour is a list of (action_name, state_text)."""
    out_dir = os.path.join(run.work, f"sim-{module}-{time.time_ns()}")
    os.makedirs(out_dir)
    run_tlc(run, module, cfg, workers=1, simulate=f"file={out_dir}/tr,num={num}", depth=depth,
            seed=seed, timeout=timeout, tag=module + "-sim", check=True)
    behaviours = []
    for path in sorted(glob.glob(out_dir + "/tr*")):
        with open(path) as fh:
            text = fh.read()
        beh = []
        action = "Init"
        cur = None
        for ln in text.splitlines():
            m = _RE_STATE_HDR.match(ln)
            if m:
                action = m.group(1)
                continue
            m = re.match(r"^STATE_(\d+) ==\s*$", ln)
            if m:
                if cur is not None:
                    beh.append(cur)
                cur = [action, ""]
                continue
            if cur is not None:
                if ln.strip() == "" or ln.startswith("====") or ln.startswith("\\*"):
                    continue
                cur[1] += ln + "\n"
        if cur is not None:
            beh.append(cur)
        behaviours.append(beh)
    shutil.rmtree(out_dir, ignore_errors=True)
    return behaviours


# ---------------------------------------------------------------------------------------------
# a tiny TLA+ value printer (Python -> TLA+ expression), for generated constant modules

def tla(v) -> str:
    if isinstance(v, bool):
        return "TRUE" if v else "FALSE"
    if isinstance(v, int):
        return str(v)
    if isinstance(v, str):
        return '"' + v.replace("\\", "\\\\").replace('"', '\\"') + '"'
    if isinstance(v, (list, tuple)):
        return "<<" + ", ".join(tla(x) for x in v) + ">>"
    if isinstance(v, (set, frozenset)):
        return "{" + ", ".join(sorted(tla(x) for x in v)) + "}"
    if isinstance(v, dict):
        if not v:
            return "<<>>"
        return "[" + ", ".join(f"{k} |-> {tla(x)}" for k, x in v.items()) + "]"
    raise TypeError(f"cannot print {type(v)} as TLA+")


def run_apalache(run: Run, module: str, *, init: str, inv: str, length: int, cinit: str | None = None, timeout=600):
    """Apalache (symbolic, unbounded integers) on a module of spec/apalache: -> dict(ok, violated, wall_s, output)."""
    import shutil
    import subprocess
    import time
    src = os.path.join(SPEC_DIR, "apalache", module + ".tla")
    wd = os.path.join(run.work, "apalache")
    os.makedirs(wd, exist_ok=True)
    shutil.copy(src, wd)
    exe = shutil.which("apalache-mc") or "/opt/veriftools/apalache/bin/apalache-mc"
    cmd = [exe, "check", f"--init={init}", f"--inv={inv}", f"--length={length}", f"--out-dir={os.path.join(wd, 'out')}"]
    if cinit:
        cmd.append(f"--cinit={cinit}")
    cmd.append(module + ".tla")
    t0 = time.time()
    try:
        p = subprocess.run(cmd, cwd=wd, stdout=subprocess.PIPE, stderr=subprocess.STDOUT, text=True, timeout=timeout)
    except (OSError, subprocess.TimeoutExpired) as exc:
        raise MachineryError(f"apalache failed to run on {module}: {exc}") from exc
    out = p.stdout
    ok = "EXITCODE: OK" in out
    violated = "EXITCODE: ERROR (12)" in out
    if not ok and not violated:
        raise MachineryError(f"apalache: unexpected result for {module}:\n{out[-1500:]}")
    return {"name": f"apalache:{module}:{init}->{inv}@{length}", "ok": ok, "violated": violated, "wall_s": round(time.time() - t0, 2), "output": out[-2000:]}
