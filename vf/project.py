"""Projection of (object before, object after) to per-attribute relation descriptors (C02, C15, C03, C04).

The harness makes real values recognisable (pairwise distinguishable tags); comparing the value written
with the value read back then yields a *discrete* relation per stored attribute:

    same | none | defaulted | missing | spurious | permuted | sign-flipped | rescaled:<unit> | truncated |
    shape:<a>-><b> | differs

Tolerances are per field and come from the specification table (digits the format prints).
"""

from __future__ import annotations

import numpy as np

UNIT = {  # CODATA 2018 values, stated independently of iodata.utils
    "au": 1.0,
    "angstrom": 1.0 / 0.529177210903,
    "nanometer": 10.0 / 0.529177210903,
    "amu": 1.66053906660e-27 / 9.1093837015e-31,
    "electronvolt": 1.0 / 27.211386245988,
    "debye": 0.393430269519,  # e*bohr per debye = 1/2.541746473
    "picosecond": 1e-12 / 2.4188843265857e-17,
}
KNOWN_FACTORS = {k: v for k, v in UNIT.items() if k != "au"}


def get_key(obj, key):
    """'atcoords' | 'atcharges.mulliken' | 'cube.data' | 'mo.occs' | 'obasis.exponents' ..."""
    if obj is None:
        return None
    parts = key.split(".", 1)
    val = getattr(obj, parts[0], None)
    if len(parts) == 1 or val is None:
        return val
    sub = parts[1]
    if isinstance(val, dict):
        if sub in val:
            return val[sub]
        if "." in sub:                       # nested dictionaries such as extra.input.keywords
            cur = val
            for part in sub.split("."):
                if not isinstance(cur, dict) or part not in cur:
                    return None
                cur = cur[part]
            return cur
        if sub.startswith("(") and sub.endswith(")"):  # tuple keys such as moments.(1,c)
            a, b = sub[1:-1].split(",")
            return val.get((int(a), b))
        return None
    if parts[0] == "obasis":
        sh = val.shells
        if sub == "icenters":
            return np.array([s.icenter for s in sh])
        if sub == "angmoms":
            return np.array([int(a) for s in sh for a in s.angmoms])
        if sub == "kinds":
            return np.array([str(k) for s in sh for k in s.kinds])
        if sub == "ncons":
            return np.array([s.ncon for s in sh])
        if sub == "exponents":
            return np.concatenate([s.exponents for s in sh]) if sh else np.zeros(0)
        if sub == "coeffs":
            return np.concatenate([s.coeffs.ravel() for s in sh]) if sh else np.zeros(0)
        if sub == "primitive_normalization":
            return val.primitive_normalization
        return None
    return getattr(val, sub, None)


def _close(a, b, tol):
    """tol: ('abs', value in atomic units) | ('rel', value)"""
    kind, t = tol
    if kind == "abs":
        return bool(np.all(np.abs(a - b) <= t))
    scale = np.maximum(np.abs(a), np.abs(b))
    return bool(np.all(np.abs(a - b) <= t * scale + 1e-300))


def relate(before, after, cls, tol):
    """Relation descriptor of one stored attribute."""
    if before is None and after is None:
        return "none"
    if before is None:
        if isinstance(after, (dict, list)) and len(after) == 0:
            return "none"
        return "defaulted"
    if after is None:
        return "missing"
    if cls == "exact":
        if isinstance(before, (dict, str, bool)) or isinstance(after, (dict, str, bool)) or (
                isinstance(before, list) and isinstance(after, list) and any(isinstance(x, (dict, str)) or x is None for x in before)):
            if before == after:
                return "same"
            if isinstance(before, str) and isinstance(after, str) and before.lower() == after.lower():
                return "same-casefold"
            return "differs"
        a, b = np.asarray(before), np.asarray(after)
        if a.shape != b.shape:
            if a.ndim == b.ndim and a.ndim >= 1 and b.shape[0] < a.shape[0] and np.array_equal(a[: b.shape[0]], b):
                return "truncated"
            return f"shape:{a.shape}->{b.shape}"
        if a.dtype.kind in "US" or b.dtype.kind in "US":
            eq = np.array_equal(a.astype(str), b.astype(str))
        else:
            eq = np.array_equal(a, b)
        if eq:
            return "same"
        if a.dtype.kind in "US" and b.dtype.kind in "US" and np.array_equal(np.char.lower(a.astype(str)), np.char.lower(b.astype(str))):
            return "same-casefold"
        if a.ndim >= 1 and a.shape[0] > 1 and sorted(map(repr, a.tolist())) == sorted(map(repr, b.tolist())):
            return "permuted"
        return "differs"
    a, b = np.asarray(before, dtype=float), np.asarray(after, dtype=float)
    if a.shape != b.shape:
        if a.ndim == b.ndim and a.ndim >= 1 and b.shape[0] < a.shape[0] and _close(a[: b.shape[0]], b, tol):
            return "truncated"
        return f"shape:{a.shape}->{b.shape}"
    if _close(a, b, tol):
        return "same"
    if _close(a, -b, tol) and np.any(a != 0):
        return "sign-flipped"
    for name, f in KNOWN_FACTORS.items():
        for ff in (f, 1.0 / f):
            if _close(a * ff, b, ("rel", 1e-6)) and np.any(a != 0):
                return f"rescaled:{name}" + ("" if ff == f else "^-1")
    if a.ndim >= 1 and a.shape[0] > 1:
        # same multiset of rows / elements in another order?
        fa = a.reshape(a.shape[0], -1)
        fb = b.reshape(b.shape[0], -1)
        ia = np.lexsort(fa.T[::-1])
        ib = np.lexsort(fb.T[::-1])
        if _close(fa[ia], fb[ib], tol):
            return "permuted"
        if a.ndim == 2 and a.shape[0] == a.shape[1] and _close(a, b.T, tol):
            return "transposed"
    return "differs"


def permutation_between(before, after, tol):
    """perm (1-based) with after[i] = before[perm[i]] for row arrays; None if not a permutation."""
    a = np.asarray(before, dtype=float).reshape(len(before), -1)
    b = np.asarray(after, dtype=float).reshape(len(after), -1)
    if a.shape != b.shape:
        return None
    used = set()
    perm = []
    for i in range(len(b)):
        found = None
        for j in range(len(a)):
            if j not in used and _close(a[j], b[i], tol):
                found = j
                break
        if found is None:
            return None
        used.add(found)
        perm.append(found + 1)
    return perm
