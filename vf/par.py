"""Parallel map over worker processes (fork), deterministic order."""

from __future__ import annotations

import multiprocessing as mp
import os

from .core import NCPU


def pmap(fn, items, procs=None, chunksize=None):
    items = list(items)
    procs = min(procs or NCPU, max(1, len(items)))
    if procs <= 1 or len(items) < 4 or os.environ.get("VERIF_SERIAL"):
        return [fn(x) for x in items]
    ctx = mp.get_context("fork")
    chunksize = chunksize or max(1, len(items) // (procs * 8))
    with ctx.Pool(procs) as pool:
        return pool.map(fn, items, chunksize=chunksize)
