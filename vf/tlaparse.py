"""Parser for TLA+ values as printed by TLC (trace files, PrintT output)."""

from __future__ import annotations

import re

_TOK = re.compile(r'\s*(<<|>>|\|->|:>|@@|[\[\]{}(),]|"(?:[^"\\]|\\.)*"|-?\d+|[A-Za-z_][A-Za-z0-9_]*)')


class FrozenDict(dict):
    def __hash__(self):
        return hash(tuple(sorted(self.items(), key=repr)))


def tokenize(text):
    pos = 0
    out = []
    text = text.strip()
    while pos < len(text):
        m = _TOK.match(text, pos)
        if not m:
            raise ValueError(f"cannot tokenize TLA+ value at {text[pos:pos + 40]!r}")
        out.append(m.group(1))
        pos = m.end()
    return out


def parse_value(text):
    toks = tokenize(text)
    val, i = _parse(toks, 0)
    if i != len(toks):
        raise ValueError(f"trailing tokens in TLA+ value: {toks[i:i + 5]}")
    return val


def _parse(t, i):
    tok = t[i]
    if tok == "<<":
        i += 1
        items = []
        while t[i] != ">>":
            v, i = _parse(t, i)
            items.append(v)
            if t[i] == ",":
                i += 1
        return tuple(items), i + 1
    if tok == "{":
        i += 1
        items = []
        while t[i] != "}":
            v, i = _parse(t, i)
            items.append(v)
            if t[i] == ",":
                i += 1
        return frozenset(items), i + 1
    if tok == "[":
        i += 1
        rec = FrozenDict()
        while t[i] != "]":
            name = t[i]
            assert t[i + 1] == "|->", t[i:i + 3]
            v, i = _parse(t, i + 2)
            rec[name] = v
            if t[i] == ",":
                i += 1
        return rec, i + 1
    if tok == "(":
        i += 1
        fn = FrozenDict()
        while True:
            k, i = _parse(t, i)
            assert t[i] == ":>", t[i:i + 3]
            v, i = _parse(t, i + 1)
            fn[k] = v
            if t[i] == "@@":
                i += 1
                continue
            assert t[i] == ")"
            return fn, i + 1
    if tok.startswith('"'):
        return bytes(tok[1:-1], "utf-8").decode("unicode_escape"), i + 1
    if re.fullmatch(r"-?\d+", tok):
        return int(tok), i + 1
    if tok == "TRUE":
        return True, i + 1
    if tok == "FALSE":
        return False, i + 1
    return tok, i + 1  # model value / identifier


def state_vars(text):
    """Split a TLC state ("/\\ a = ...\n/\\ b = ...") into {var: value}."""
    out = {}
    parts = re.split(r"(?m)^/\\ ", text.strip())
    for p in parts:
        p = p.strip()
        if not p:
            continue
        m = re.match(r"(\w+) = (.*)\Z", p, re.S)
        if m:
            out[m.group(1)] = parse_value(m.group(2))
    return out
