"""C02 -- save-then-reload returns the same data for every read/write format.

Spec: spec/Formats.tla: per format the table `Stores` (which attributes are stored, exact or real, the
digits the format prints, what happens when an optional attribute is absent, documented
normalisations such as POSCAR's grouping by element) is exported as JSON by TLC and drives the
harness; TLC also checks the packing maps and the idempotence of the normalisations.  The harness
builds objects whose real entries are pairwise distinguishable tags (sizes crossing the field-width
boundaries, negative and wide values, every bond type, every optional attribute and dictionary key
present or absent), runs dump_one / load_one, projects (before, after) to a relation descriptor per
stored attribute, and TLC validates every descriptor against Expect(fmt, key, present).
"""

from __future__ import annotations

import itertools
import json
import os
import random
import shutil
import tempfile
import warnings

import numpy as np

from .. import objects as O
from ..core import Run
from ..par import pmap
from ..project import UNIT, get_key, permutation_between, relate
from ..tlc import run_tlc, validate_traces

LEVEL = "exploration"
ANG = UNIT["angstrom"]


def load_stores(run):
    out = os.path.join(run.work, "stores.json")
    st = run_tlc(run, "MC_Formats", "MC_Formats.cfg", workers=4, timeout=300, env={"OUT_FILE": out}, tag="MC_Formats")
    run.add_model(st)
    with open(out) as fh:
        return json.load(fh)


def tol_of(entry):
    t = 0.5 * 10.0 ** (-entry["tolexp"])
    if entry["tolkind"] == "abs":
        return ("abs", 1.02 * t * UNIT[entry["unit"]] + 1e-13)
    return ("rel", 1.05 * t + 1e-15)


# ------------------------------------------------------------------ tagged objects
def tag_coords(natom, mag, digits, unit):
    """Pairwise distinguishable coordinates (in atomic units) that are exactly representable in the file."""
    out = np.zeros((natom, 3))
    step = 10.0 ** (-digits) * 7
    for i in range(natom):
        for k in range(3):
            base = {"small": 1.0, "negwide": -900.0, "wide": 9000.0, "mixed": (-1) ** (i + k) * 3.0,
                    "huge": (-1) ** (i + k) * 15000.0}[mag]      # beyond +-10^4: only for formats without fixed coordinate columns
            v = base + (3 * i + k) * step          # towards zero for negative bases: stays inside the field width
            out[i, k] = round(v, digits)
    return out * unit


def seed_tag(rng):
    return rng.randint(1000, 9999)


def real_fmt(fmt):
    """The format name iodata knows for a row of the Stores table (QCSchema has three document kinds in one module; XYZ with
    user-defined atom columns is the XYZ module with an extra argument)."""
    if fmt == "xyz_columns":
        return "xyz"
    return "json_qcschema" if fmt.startswith("json_qcschema") else fmt


def io_kwargs(fmt):
    """Extra keyword arguments given to both dump_one and load_one for this row of the table."""
    if fmt != "xyz_columns":
        return {}
    from iodata.formats.xyz import DEFAULT_ATOM_COLUMNS
    # the example of the module documentation, with two keyed columns of the same dictionary attribute
    return {"atom_columns": DEFAULT_ATOM_COLUMNS + [
        ("atcharges", "mulliken", (), float, float, "{:10.5f}".format),
        ("atgradient", None, (3,), float, (lambda word: -float(word)), (lambda value: "{:15.10f}".format(-value))),
        ("atcharges", "hirshfeld", (), float, float, "{:10.5f}".format),
        ("atmasses", None, (), float, float, "{:12.4f}".format),
        ("atffparams", "attypes", (), "U8", str, "{:>6s}".format),
    ]}


def elements(rng, natom, pool=None):
    pool = pool or [1, 6, 7, 8, 9, 15, 16, 17, 35, 26, 3, 11, 79, 92, 118, 2, 10]
    return np.array([pool[(i * 7 + rng.randint(0, 2)) % len(pool)] for i in range(natom)])


def chain_bonds(natom, types, extra_long=False):
    # every third bond is given as (higher index, lower index): the order of the two atoms of a bond is the caller's choice
    b = [([i + 1, i] if i % 3 == 1 else [i, i + 1]) + [types[i % len(types)]] for i in range(natom - 1)]
    if extra_long and natom > 101:
        b += [[0, 100, types[0]], [99, natom - 1, types[1 % len(types)]], [101, min(110, natom - 1), types[2 % len(types)]]]
    return np.array(b, dtype=int).reshape(-1, 3)


def build(fmt, rng, natom, present, mag):
    """-> IOData with tagged values; `present` lists the optional keys to include."""
    from iodata import IOData
    from iodata.utils import Cube
    P = set(present)
    if fmt in ("xyz", "sdf", "mol2", "pdb"):
        digits = {"xyz": 10, "sdf": 4, "mol2": 4, "pdb": 3}[fmt]
        kw = dict(atnums=elements(rng, natom), atcoords=tag_coords(natom, mag, digits, ANG))
        if "title" in P:
            kw["title"] = f"tagged {fmt} molecule {natom} {rng.randint(0, 999)}"
        if fmt == "pdb" and "title" in P and natom % 3 != 1:
            # TITLE / COMPND records continue over numbered lines (continuation counter in columns 9-10)
            nline = 120 if natom % 7 == 2 else (12 if natom % 3 == 0 else 3)       # continuation counters of one, two and three digits
            kw["title"] = "\n".join(f"TITLE LINE {k} OF {natom}" for k in range(1, nline + 1))
        if "bonds" in P and natom >= 2:
            types = {"sdf": [1, 2, 3, 4, 5, 6, 7, 8], "mol2": [1, 2, 3, 4, 9, 10, 8, 11], "pdb": [1, 2, 3]}.get(fmt, [1])
            kw["bonds"] = chain_bonds(natom, types, extra_long=True)
            if fmt == "sdf":
                kw["bonds"] = kw["bonds"][-999:]   # V2000 holds at most 999 bonds
        if "atcharges.mol2charges" in P:
            kw["atcharges"] = {"mol2charges": np.array([round((-1) ** i * (0.1 + 0.0007 * i), 4) for i in range(natom)])}
        ff, ex = {}, {}
        if "atffparams.attypes" in P:
            ff["attypes"] = np.array([f"A{i % 999}" if (fmt == "pdb" or i % 4) else ["CG2R61", "HGR61x", "N.pl3", "C.cat"][i % 4] for i in range(natom)])
        if "atffparams.restypes" in P:
            ff["restypes"] = np.array([["ALA", "GLY", "HOH"][i % 3] for i in range(natom)])
        if "atffparams.resnums" in P:
            ff["resnums"] = np.array([1 + i // 3 for i in range(natom)]) % 9999
        if "extra.occupancies" in P:
            # now and then the value that fills the six columns (Layouts!Fill): it touches the z coordinate
            ex["occupancies"] = np.array([100.0 if i % 17 == 5 else round(0.01 * (1 + i % 99), 2) for i in range(natom)])
        if "extra.bfactors" in P:
            ex["bfactors"] = np.array([999.99 if i % 13 == 4 else (-99.99 if i % 13 == 9 else round(10.0 + 0.07 * (i % 1000), 2)) for i in range(natom)])
        if "extra.chainids" in P:
            ex["chainids"] = np.array([["A", "B", "C"][i % 3] for i in range(natom)])
        if "extra.compound" in P:
            ex["compound"] = "TAGGED COMPOUND" if natom % 2 else "\n".join(f"MOL_ID: {k};" for k in range(1, 15 if natom % 4 else 131))
        if ff:
            kw["atffparams"] = ff
        if ex:
            kw["extra"] = ex
        return IOData(**kw)
    if fmt == "poscar":
        cell = np.array([[31.0, 0.0, 0.0], [1.5, 33.0, 0.0], [0.25, -0.5, 37.0]]) * ANG
        atn = elements(rng, natom, [1, 8, 6, 26, 8, 1, 14])
        if natom > 10000:
            atn = np.array([8, 6] + [1] * (natom - 2))        # more than 9999 atoms of an element that is not the heaviest
        kw = dict(atnums=atn, atcoords=tag_coords(natom, "small", 6, ANG), cellvecs=cell)
        if "title" in P:
            kw["title"] = f"tagged poscar {natom}"
        return IOData(**kw)
    if fmt == "cube":
        shape = {1: (1, 1, 1), 2: (2, 3, 4), 3: (3, 2, 7), 4: (2, 2, 6), 5: (1, 4, 13), 6: (2, 3, 5)}[1 + natom % 6]
        n = shape[0] * shape[1] * shape[2]
        data = np.array([(-1) ** i * float(f"{(1.0 + 0.001 * i) * 10.0 ** ((i % 7) - 3):.5E}") for i in range(n)]).reshape(shape)
        cube = Cube(origin=np.array([-1.25, 0.5, 2.125]), axes=np.array([[0.5, 0.0, 0.01], [0.0, 0.625, 0.0], [0.02, 0.0, 0.75]]), data=data)
        kw = dict(atnums=elements(rng, natom), atcoords=tag_coords(natom, mag if mag != "wide" else "small", 6, 1.0), cube=cube)
        if "atcorenums" in P:
            kw["atcorenums"] = np.array([round(float(z) - 0.5 * (i % 2), 6) for i, z in enumerate(kw["atnums"])])
        if "title" in P:
            kw["title"] = f"tagged cube {natom}"
        return IOData(**kw)
    if fmt == "fcidump":
        from iodata.utils import set_four_index_element
        n = max(1, min(natom, 5))
        mag_seed = rng.randint(0, 10**6)
        one = np.zeros((n, n))
        for i in range(n):
            for j in range(i + 1):
                one[i, j] = one[j, i] = (-1) ** (i + j) * (0.5 + 0.01 * (i * n + j))
        two = np.zeros((n, n, n, n))
        c = 0
        for i in range(n):
            for j in range(n):
                for k in range(n):
                    for m in range(n):
                        if two[i, j, k, m] == 0.0:
                            c += 1
                            # sparse tensors (model Hamiltonians): in two of three objects most symmetry-unique integrals vanish
                            if mag_seed % 3 == 2:
                                # exactly two non-vanishing symmetry-unique integrals, anywhere in the list
                                nuniq = (n * (n + 1) // 2) * (n * (n + 1) // 2 + 1) // 2
                                keep = c in (1 + mag_seed % nuniq, 1 + (mag_seed // 7) % nuniq)
                            else:
                                keep = (mag_seed % 3 == 0) or ((c * 7 + mag_seed) % 5 == 0)
                            if keep:
                                set_four_index_element(two, i, j, k, m, 0.25 + 0.001 * c)
        kw = dict(one_ints={"core_mo": one}, two_ints={"two_mo": two})
        if "core_energy" in P:
            kw["core_energy"] = -7.123456789012345
        if "nelec" in P:
            kw["nelec"] = 2 * n - 1 if natom % 2 else float(2 * n)
        if "spinpol" in P:
            kw["spinpol"] = 1 if natom % 2 else 0
        return IOData(**kw)
    if fmt == "json_qcschema":
        atnums = elements(rng, natom)
        kw = dict(atnums=atnums, atcoords=tag_coords(natom, mag, 8, 1.0), charge=float(natom % 3 - 1), spinpol=float(natom % 2),
                  extra={"schema_name": "qcschema_molecule", "schema_version": 2, "molecule": {}})
        if natom == 2 and not P:
            del kw["extra"]["molecule"]   # the minimal object a user would build from the documentation
        if "title" in P:
            kw["title"] = f"tagged json {natom}"
        if "atcorenums" in P:
            # QCSchema only records whether an atom is real or a ghost (core charge zero)
            kw["atcorenums"] = np.array([0.0 if i % 3 == 1 else float(z) for i, z in enumerate(atnums)])
        if "atmasses" in P:
            kw["atmasses"] = np.array([(1.0 + 0.37 * i) * UNIT["amu"] for i in range(natom)])
        if "bonds" in P and natom >= 2:
            kw["bonds"] = chain_bonds(natom, [1, 2, 3, 4, 5])      # incl. the aromatic and amide types of the bond-type table
        if "g_rot" in P:
            kw["g_rot"] = 2.0
        return IOData(**kw)
    if fmt == "xyz_columns":
        kw = dict(atnums=elements(rng, natom), atcoords=tag_coords(natom, mag, 10, ANG),
                  atcharges={"mulliken": np.array([round((-1) ** i * (0.1 + 0.001 * (i % 700)), 5) for i in range(natom)]),
                             "hirshfeld": np.array([round((-1) ** (i + 1) * (0.3 + 0.001 * (i % 600)), 5) for i in range(natom)])},
                  atgradient=tag_coords(natom, "mixed", 10, 1.0) * 0.01,
                  atmasses=np.array([round(1.0 + 0.37 * (i % 250), 4) for i in range(natom)]),
                  atffparams={"attypes": np.array([f"T{i % 97}" for i in range(natom)])})
        if "title" in P:
            kw["title"] = f"tagged xyz columns {natom}"
        return IOData(**kw)
    if fmt in ("json_qcschema_input", "json_qcschema_output"):
        # the layout of `extra` documented in json_qcschema.py: molecule / input / output sub-dictionaries
        atnums = elements(rng, natom)
        prov = {"creator": "other-program", "version": "1.0", "routine": "r"}
        inp = {"driver": ["energy", "gradient", "hessian", "properties"][natom % 4], "model": {},
               "provenance": [dict(prov)] if natom % 2 else dict(prov)}
        if "extra.input.keywords" in P:
            inp["keywords"] = {"scf_type": "df", "maxiter": 50 + natom, "nested": {"levels": [1, 2, {"deep": True}]}}
        if "extra.input.extras" in P:
            inp["extras"] = {"note": f"tag-{natom}", "list": [1.5, "a", None]}
        if "extra.input.id" in P:
            inp["id"] = f"job-{seed_tag(rng)}"
        if "extra.input.protocols" in P:
            inp["protocols"] = {"keep_wavefunction": ["all", "none", "orbitals_and_eigenvalues", "return_results"][natom % 4],
                                "keep_stdout": bool(natom % 2)}
        mol = {"provenance": dict(prov)}
        if "extra.molecule.extras" in P:
            mol["extras"] = {"tag": "mol", "nested": {"k": [1, 2, 3]}}
        extra = {"schema_name": "qcschema_input", "schema_version": 2, "molecule": mol, "input": inp}
        kw = dict(atnums=atnums, atcoords=tag_coords(natom, mag, 8, 1.0), charge=float(natom % 3 - 1), spinpol=float(natom % 2),
                  lot=["HF", "B3LYP", "CCSD(T)"][natom % 3], obasis_name=["sto-3g", "6-31G*", "def2-TZVP"][natom % 3], extra=extra)
        if fmt == "json_qcschema_output":
            extra["schema_name"] = "qcschema_output"
            out = {"properties": {"calcinfo_nbasis": 7 + natom, "scf_iterations": 3, "nuclear_repulsion_energy": 1.25 + natom},
                   "return_result": -1.5 - natom if inp["driver"] == "energy" else [0.1 * natom, 0.2, -0.3],
                   "success": bool(natom % 3), "provenance": dict(prov)}
            for key, val in (("stdout", "text on stdout"), ("stderr", "text on stderr"),
                             ("error", {"error_type": "convergence_error", "error_message": "did not converge"})):
                if f"extra.output.{key}" in P:
                    out[key] = val
            if "energy" in P:
                kw["energy"] = -3.75 - 0.001 * natom
                out["properties"]["return_energy"] = kw["energy"]
                if inp["driver"] == "energy":
                    out["return_result"] = kw["energy"]
            extra["output"] = out
        return IOData(**kw)
    # wavefunction formats: generated by objects.make (orthonormal orbitals in the conventions of the format)
    variant = "plain"
    obj = O.make(fmt, rng, variant, natom=max(1, min(natom, 4)))
    n = obj.natom
    if fmt == "fchk":
        obj.lot = "RHF" if "post" not in "".join(P) else "MP2"
        if "atmasses" in P:
            obj.atmasses = np.array([(1.0 + 1.37 * i) * UNIT["amu"] for i in range(n)])
        if "atfrozen" in P:
            obj.atfrozen = np.array([i % 2 == 0 for i in range(n)])
        if "atgradient" in P:
            obj.atgradient = tag_coords(n, "mixed", 6, 1.0) * 0.01
        if "athessian" in P:
            h = np.array([[0.01 * (1 + min(i, j)) + 0.0001 * max(i, j) for j in range(3 * n)] for i in range(3 * n)])
            obj.athessian = h
        ch = {}
        for k in ("mulliken", "esp", "npa"):
            if f"atcharges.{k}" in P:
                ch[k] = np.array([(-1) ** i * (0.1 + 0.01 * i + 0.001 * len(k)) for i in range(n)])
        obj.atcharges = ch
        mom = {}
        if "moments.(1,c)" in P:
            mom[(1, "c")] = np.array([0.11, -0.22, 0.33])
        if "moments.(2,c)" in P:
            mom[(2, "c")] = np.array([1.1, 1.2, 1.3, 1.4, 1.5, 1.6])
        obj.moments = mom
        if "extra.polarizability_tensor" in P:
            obj.extra = {"polarizability_tensor": np.array([[5.1, 0.2, 0.3], [0.2, 6.1, 0.4], [0.3, 0.4, 7.1]])}
        nb = obj.obasis.nbasis
        rd = {}
        for j, k in enumerate(("scf", "scf_spin", "post_scf_ao", "post_scf_spin_ao")):
            if f"one_rdms.{k}" in P:
                m = np.array([[0.1 * (j + 1) + 0.01 * min(a, b) + 0.0001 * max(a, b) for b in range(nb)] for a in range(nb)])
                rd[k] = m
        obj.one_rdms = rd
    if fmt == "molekel" and "atcharges.mulliken" in P:
        obj.atcharges = {"mulliken": np.array([(-1) ** i * (0.1 + 0.01 * i) for i in range(n)])}
    if fmt == "wfx" and "atgradient" in P:
        obj.atgradient = tag_coords(n, "mixed", 6, 1.0) * 0.01
    if "title" not in P:
        obj.title = None
    if "energy" not in P and fmt in ("wfn", "wfx", "fchk"):
        obj.energy = None if fmt != "wfx" else obj.energy
    return obj


OPTIONAL = {
    "xyz": ["title"], "xyz_columns": ["title"], "sdf": ["title", "bonds"],
    "mol2": ["title", "bonds", "atcharges.mol2charges", "atffparams.attypes"],
    "pdb": ["title", "bonds", "extra.occupancies", "extra.bfactors", "extra.chainids", "atffparams.attypes", "atffparams.restypes",
            "atffparams.resnums", "extra.compound"],
    "poscar": ["title"], "cube": ["title", "atcorenums"], "fcidump": ["core_energy", "nelec", "spinpol"],
    "json_qcschema": ["title", "atcorenums", "atmasses", "bonds", "g_rot"],
    "json_qcschema_input": ["extra.input.keywords", "extra.input.extras", "extra.input.id", "extra.input.protocols", "extra.molecule.extras"],
    "json_qcschema_output": ["extra.input.keywords", "extra.input.extras", "extra.input.id", "extra.input.protocols", "extra.molecule.extras",
                             "extra.output.stdout", "extra.output.stderr", "extra.output.error", "energy"],
    "fchk": ["title", "energy", "atmasses", "atfrozen", "atgradient", "athessian", "atcharges.mulliken", "atcharges.esp", "atcharges.npa",
             "moments.(1,c)", "moments.(2,c)", "extra.polarizability_tensor", "one_rdms.scf", "one_rdms.scf_spin", "one_rdms.post_scf_ao",
             "one_rdms.post_scf_spin_ao"],
    "molden": ["title"], "molekel": ["atcharges.mulliken"], "wfn": ["title", "energy"], "wfx": ["title", "atgradient"],
}
ALWAYS = {
    "xyz": ["atnums", "atcoords"],
    "xyz_columns": ["atnums", "atcoords", "atcharges.mulliken", "atcharges.hirshfeld", "atgradient", "atmasses", "atffparams.attypes"], "sdf": ["atnums", "atcoords"], "mol2": ["atnums", "atcoords"], "pdb": ["atnums", "atcoords"],
    "poscar": ["atnums", "atcoords", "cellvecs"], "cube": ["atnums", "atcoords", "cube.origin", "cube.axes", "cube.data"],
    "fcidump": ["one_ints.core_mo", "two_ints.two_mo"], "json_qcschema": ["atnums", "atcoords", "charge", "spinpol"],
    "json_qcschema_input": ["atnums", "atcoords", "charge", "spinpol", "lot", "obasis_name", "extra.input.driver"],
    "json_qcschema_output": ["atnums", "atcoords", "charge", "spinpol", "lot", "obasis_name", "extra.input.driver",
                             "extra.output.properties", "extra.output.return_result", "extra.output.success"],
    "fchk": ["atnums", "atcoords", "atcorenums", "lot", "obasis_name", "mo.kind", "mo.occs", "mo.energies", "mo.coeffs", "obasis.icenters",
             "obasis.angmoms", "obasis.kinds", "obasis.ncons", "obasis.exponents", "obasis.coeffs"],
    "molden": ["atnums", "atcoords", "atcorenums", "mo.kind", "mo.occs", "mo.energies", "mo.coeffs", "obasis.icenters", "obasis.angmoms",
               "obasis.kinds", "obasis.exponents", "obasis.coeffs"],
    "molekel": ["atnums", "atcoords", "mo.kind", "mo.occs", "mo.energies", "mo.coeffs", "obasis.icenters", "obasis.angmoms", "obasis.kinds",
                "obasis.exponents", "obasis.coeffs"],
    "wfn": ["atnums", "atcoords", "mo.occs", "mo.energies"], "wfx": ["atnums", "atcoords", "atcorenums", "energy", "mo.occs", "mo.energies"],
}
SIZES = {"xyz": [1, 2, 9, 10, 99, 100, 999, 1000, 9999, 10000, 12000], "xyz_columns": [1, 2, 3, 10, 100, 1000], "sdf": [1, 2, 9, 10, 99, 100, 101, 500, 999],
         "mol2": [1, 2, 9, 10, 99, 100, 999, 1000, 9999, 10000], "pdb": [1, 2, 9, 10, 99, 100, 999, 1000, 9999, 10000, 12000],
         "poscar": [1, 2, 5, 8, 30, 10020], "cube": [1, 2, 3, 4, 5, 6, 12], "fcidump": [1, 2, 3, 4, 5], "json_qcschema": [1, 2, 9, 10, 100, 1000],
         "json_qcschema_input": [1, 2, 3, 4, 5, 6, 7, 12], "json_qcschema_output": [1, 2, 3, 4, 5, 6, 7, 12],
         "fchk": [1, 2, 3, 4], "molden": [1, 2, 3, 4], "molekel": [1, 2, 3], "wfn": [1, 2, 3, 4], "wfx": [1, 2, 3, 4]}


def classify_exc(exc):
    return type(exc).__name__


def relayout(obj, how):
    """The same values in another memory layout (Fortran order / a strided view of a larger array): writers may not depend on it."""
    def conv(a):
        a = np.asarray(a)
        if (a.ndim < 2 and how != 3) or a.dtype.kind not in "fi":
            return a
        if how == 1:
            return np.asfortranarray(a)
        if how == 3:
            a = np.array(a)
            a.flags.writeable = False        # a read-only array (e.g. memory-mapped data): writers only read
            return a
        big = np.zeros(tuple(2 * n for n in a.shape), dtype=a.dtype)
        view = big[tuple(slice(None, None, 2) for _ in a.shape)]
        view[...] = a
        return view
    from iodata.utils import Cube
    for name in ("atcoords", "atgradient", "athessian", "cellvecs", "atmasses", "atcorenums"):
        if getattr(obj, name, None) is not None:
            setattr(obj, name, conv(getattr(obj, name)))
    if obj.cube is not None:
        obj.cube = Cube(origin=obj.cube.origin, axes=conv(obj.cube.axes), data=conv(obj.cube.data))
    for name in ("one_rdms", "one_ints", "two_ints"):
        d = getattr(obj, name, None)
        if d:
            setattr(obj, name, {k: conv(v) for k, v in d.items()})
    if obj.extra and "polarizability_tensor" in obj.extra:
        obj.extra = dict(obj.extra, polarizability_tensor=conv(obj.extra["polarizability_tensor"]))
    return obj


def roundtrip(task):
    fmt, natom, present, mag, seed, stores = task
    from iodata import api
    rng = random.Random(seed)
    entries = stores[fmt]
    ev = {"op": "RoundTrip", "fmt": fmt, "natom": natom, "present": sorted(set(present) | set(ALWAYS[fmt])), "mag": mag,
          "dump": "ok", "load": "ok", "rel": {e["key"]: "n/a" for e in entries}, "perm": [], "atnums": [], "seed": seed}
    tmp = tempfile.mkdtemp(prefix="c02_")
    try:
        with warnings.catch_warnings():
            warnings.simplefilter("ignore")
            obj = build(fmt, rng, natom, present, mag)
            if seed % 4:
                obj = relayout(obj, seed % 4)
            ev["layout"] = ["C", "F", "strided", "readonly"][seed % 4]
            path = os.path.join(tmp, O.SUFFIX[real_fmt(fmt)])
            # the trajectory formats: every other object goes through dump_many / load_many (a trajectory of one frame), with the
            # same keyword arguments -- the same data must come back
            many = real_fmt(fmt) in O.DUMP_MANY and (seed // 4) % 2 == 1
            ev["api"] = "many" if many else "one"
            try:
                if many:
                    api.dump_many(iter([obj]), path, fmt=real_fmt(fmt), **io_kwargs(fmt))
                else:
                    api.dump_one(obj, path, fmt=real_fmt(fmt), **io_kwargs(fmt))
            except Exception as exc:  # noqa: BLE001
                ev["dump"] = classify_exc(exc) + ":" + str(exc.__cause__ or exc)[:80].replace(tmp, "")
                return ev
            try:
                if many:
                    frames = list(api.load_many(path, fmt=real_fmt(fmt), **io_kwargs(fmt)))
                    if len(frames) != 1:
                        ev["load"] = f"other:{len(frames)} frames loaded from a trajectory of one"
                        return ev
                    back = frames[0]
                else:
                    back = api.load_one(path, fmt=real_fmt(fmt), **io_kwargs(fmt))
            except Exception as exc:  # noqa: BLE001
                ev["load"] = classify_exc(exc) + ":" + str(exc.__cause__ or exc)[:80].replace(tmp, "")
                return ev
        have = {e["key"] for e in entries if get_key(obj, e["key"]) is not None}
        ev["present"] = sorted(have)
        for e in entries:
            a = get_key(obj, e["key"]) if e["key"] in have else None
            b = get_key(back, e["key"])
            if e["key"] == "bonds" and e["norm"] == "bonds-untyped" and a is not None and b is not None:
                # PDB stores connectivity only: compare the set of bonded pairs
                pa = sorted({tuple(sorted(x[:2])) for x in np.asarray(a).tolist()})
                pb = sorted({tuple(sorted(x[:2])) for x in np.asarray(b).tolist()})
                ev["rel"][e["key"]] = "bonds-untyped" if pa == pb else "differs"
                continue
            rel = relate(a, b, e["cls"], tol_of(e))
            if e["norm"] == "casefold" and rel in ("same", "same-casefold"):
                rel = "casefold"
            if e["norm"] == "poscar-order" and rel in ("permuted", "same") and a is not None:
                perm = permutation_between(a, b, tol_of(e)) if e["cls"] == "real" else None
                if e["key"] == "atcoords" and perm is not None:
                    if natom <= 8:
                        ev["perm"] = perm
                        ev["atnums"] = [int(x) for x in obj.atnums]
                    z = np.asarray(obj.atnums)
                    order = sorted(range(natom), key=lambda i: (-z[i], i))
                    rel = "poscar-order" if [p - 1 for p in perm] == order else "permuted"
                elif e["key"] == "atnums":
                    z = np.asarray(obj.atnums)
                    rel = "poscar-order" if np.array_equal(np.asarray(b), np.array(sorted(z.tolist(), reverse=True))) else rel
            ev["rel"][e["key"]] = rel
        return ev
    finally:
        shutil.rmtree(tmp, ignore_errors=True)


def plan(run, rng, stores):
    tasks = []
    for fmt in stores:
        opts = OPTIONAL[fmt]
        subsets = [[], list(opts)] + [[o] for o in opts]
        if run.thorough():
            subsets += [list(p) for p in itertools.combinations(opts, 2)]
            if len(opts) <= 10:
                subsets = [list(s) for n in range(len(opts) + 1) for s in itertools.combinations(opts, n)]
        else:
            subsets += [rng.sample(opts, max(1, len(opts) // 2)) for _ in range(3)]
        sizes = SIZES[fmt] if run.thorough() else [s for s in SIZES[fmt] if s <= 1000 or (fmt == "poscar" and s == 10020)]
        if run.thorough():
            # every pair and triple of optional attributes, random sizes between the boundaries
            subsets += [list(p) for p in itertools.combinations(opts, 3)] if len(opts) > 10 else []
            top = min(max(sizes), 1200)
            sizes = list(sizes) + sorted({rng.randint(1, top) for _ in range(8)} - set(sizes))
        mags = ["small", "negwide", "wide", "mixed"] + (["huge"] if fmt in ("xyz", "xyz_columns", "mol2", "json_qcschema", "fchk", "wfx") else [])
        for i, sub in enumerate(subsets):
            for j, n in enumerate(sizes if i < 2 else ([rng.choice(sizes[:6])] if not run.thorough() else rng.sample(sizes, min(6, len(sizes))))):
                for mag in (mags if (i < 2 and (run.thorough() or j in (0, len(sizes) - 1))) else ([rng.choice(mags)] if not run.thorough() else rng.sample(mags, 2))):
                    if fmt == "pdb" and mag == "wide" and n > 300:
                        continue
                    tasks.append((fmt, n, sub, mag, rng.randint(0, 10**9), stores))
    return tasks


def describe(e):
    bad = sorted(f"{k}:{v}" for k, v in e["rel"].items() if v not in ("same", "none", "defaulted", "n/a") or
                 (v == "none" and k in e["present"]) or (v in ("defaulted",) and k in e["present"]))
    if e["dump"] != "ok":
        key = f"{e['fmt']} dump refused: {e['dump']}"
        return key, f"an in-domain object was refused: {e['dump']} (natom={e['natom']}, present={e['present']})"
    if e["load"] != "ok":
        return (f"{e['fmt']} written file cannot be read back: {e['load'].split(':')[0]} natom-class={size_class(e['natom'])} mag={e['mag']}",
                f"{e['load']} (natom={e['natom']}, present={e['present']})")
    return (f"{e['fmt']} round trip {' '.join(bad) or 'unexpected-default'} natom-class={size_class(e['natom'])} mag={e['mag']}",
            f"relations {e['rel']} for present={e['present']} natom={e['natom']}")


def size_class(n):
    for b in (10, 100, 1000, 10000):
        if n < b:
            return f"<{b}"
    return ">=10000"


def check(run: Run):
    rng = random.Random(run.seed)
    run.cov["rule"] = (
        "objects = per format: optional attribute / dictionary-key subsets (empty, full, singletons, random halves; all "
        "subsets in thorough) x atom counts crossing the field-width boundaries the format allows x magnitude classes "
        "(small, negative wide, wide, mixed sign) x all bond types; tagged values; relation descriptor per stored attribute "
        "validated by TLC; distinct by (format, subset, size, magnitude); non-trivial = at least one optional attribute or "
        "a boundary size")
    stores = load_stores(run)
    tasks = plan(run, rng, stores)
    events = pmap(roundtrip, tasks, chunksize=2)
    reached = validate_traces(run, "Trace_Formats", [[e] for e in events], chunk=2000)
    rels = {}
    for e, r in zip(events, reached):
        run.count()
        run.distinct(json.dumps([e["fmt"], e["natom"], e["present"], e["mag"]]))
        for k, v in e["rel"].items():
            rels[v] = rels.get(v, 0) + 1
        if r != 1:
            key, what = describe(e)
            run.violation(key, what, {"event": e})
    # objects loaded from generated QCSchema documents (every key subset class): written and read back unchanged
    from .. import qcdoc
    qev = pmap(qcdoc.execute, qcdoc.plan(rng, run.thorough()), chunksize=4)
    qreached = validate_traces(run, "Trace_QCSchema", [[e] for e in qev], chunk=3000, env={"QC_RULE": "cycle"})
    for e, r in zip(qev, qreached):
        run.count()
        run.distinct("qcdoc:" + json.dumps(e["keys"]))
        if r != 1:
            key = (f"json_qcschema object loaded from a document cannot be written: {e['redump']}" if e["redump"] != "ok" else
                   f"json_qcschema object loaded from a document does not read back the same: {' '.join(e['drift'])}")
            run.violation(key[:200], json.dumps(e)[:1500], {"event": e})
    run.notes["qcschema_documents"] = len(qev)
    run.notes["relations_observed"] = rels
    run.notes["formats"] = sorted(stores)
    for f in ("sdf", "pdb", "fchk"):
        run.sample(next(e for e in events if e["fmt"] == f and len(e["present"]) > 3))
    run.assumptions += [
        "tolerances are half a unit in the last printed digit of each field (from the Stores table of Formats.tla)",
        "the wavefunction formats are compared attribute-wise here (nuclei, orbital arrays, shells); that the file denotes the "
        "same wavefunction under any conventions / shell order is C01",
        "single-line titles only; SDF V2000 <= 999 atoms; PDB serials <= 99999",
    ]


def replay(rec):
    e = rec["detail"]["event"]
    print(json.dumps({k: e[k] for k in e if k != "rel"}))
    print(json.dumps(e["rel"], indent=1))
    return 1
