"""C14 -- basis segmentation and orbital un-restriction preserve the physics.

Specs: spec/Wavefunction.tla (Segment, FunctionList) and spec/Orbitals.tla (Unrestrict).  TLC runs
segmentation as a state machine over all small bases (same functions in the same order, fully
segmented, idempotent, identity short-cut) and checks the un-restriction laws over all small
restricted orbital sets.  Every enumerated case is executed through convert_to_segmented,
convert_to_unrestricted, prepare_segmented and prepare_unrestricted_aminusb; the projected results
(shell structure recovered from tagged exponents/coefficients, orbital arrays, identity of the returned
object, warnings, exception class, equality of overlap and density matrices) are validated by TLC.
"""

from __future__ import annotations

import copy
import itertools
import json
import random
import warnings

import numpy as np

from ..core import Run
from ..digest import digest
from ..par import pmap
from ..tlc import run_tlc, validate_traces
from .c12 import U, qseq, tagseq

LEVEL = "model_checking"

TYPES = {"S": (0, "c"), "P": (1, "c"), "Dc": (2, "c"), "Dp": (2, "p"), "Fc": (3, "c"), "Fp": (3, "p"), "Gp": (4, "p")}
SHELL_KINDS = [["S"], ["P"], ["Dc"], ["Dp"], ["Fp"], ["S", "P"], ["P", "S"], ["S", "S"], ["P", "S", "Dp"],
               ["S", "P", "Dc", "Fp"], ["S", "P", "S", "Dp", "Gp"], ["Dc", "Dp"]]


def build_basis(spec):
    """spec: list of (center, [type names]) -> MolecularBasis with tagged exponents / coefficients."""
    from iodata.basis import MolecularBasis, Shell
    from iodata.convert import HORTON2_CONVENTIONS
    shells = []
    for i, (c, names) in enumerate(spec):
        uid = i + 1
        nexp = 1 + (i % 2)
        exps = [0.4 + 0.13 * uid + 0.031 * k for k in range(nexp)]
        coeffs = [[0.3 + 0.1 * (j + 1) + 0.011 * uid + 0.0017 * k for j in range(len(names))] for k in range(nexp)]
        shells.append(Shell(c - 1, [TYPES[n][0] for n in names], [TYPES[n][1] for n in names], exps, coeffs))
    return MolecularBasis(shells, HORTON2_CONVENTIONS, "L2")


def abstract_basis(spec):
    return [{"uid": i + 1, "c": c, "cons": [[TYPES[n][0], TYPES[n][1]] for n in names], "org": list(range(1, len(names) + 1))}
            for i, (c, names) in enumerate(spec)]


def project_basis(obasis, spec):
    """Recover [uid, c, cons, org] of every shell of a (converted) basis from the tags."""
    out = []
    for sh in obasis.shells:
        uid = None
        for i in range(len(spec)):
            if abs(sh.exponents[0] - (0.4 + 0.13 * (i + 1))) < 1e-9:
                uid = i + 1
        org = []
        for j in range(sh.coeffs.shape[1]):
            v = sh.coeffs[0, j] - 0.3 - 0.011 * (uid or 0)
            org.append(int(round(v / 0.1)))
        out.append({"uid": uid or -1, "c": int(sh.icenter) + 1, "cons": [[int(a), str(k)] for a, k in zip(sh.angmoms, sh.kinds)],
                    "org": org})
    return out


def coords(ncenter=2):
    return np.array([[0.0, 0.1, -0.2], [0.9, -0.4, 1.3], [-1.1, 0.8, 0.5]])[:ncenter]


def seg_case(task):
    spec, keep = task
    from iodata import IOData
    from iodata.convert import convert_to_segmented
    from iodata.overlap import compute_overlap
    from iodata.prepare import prepare_segmented
    from iodata.utils import PrepareDumpError, PrepareDumpWarning
    ob = build_basis(spec)
    before = digest(ob)
    new = convert_to_segmented(ob, keep)
    xyz = coords()
    olp_same = bool(np.array_equal(compute_overlap(ob, xyz), compute_overlap(new, xyz)))
    ev = {"op": "Segment", "b": abstract_basis(spec), "keep": bool(keep), "out": project_basis(new, spec),
          "olp_same": olp_same, "conv_same": new.conventions == ob.conventions and new.primitive_normalization == ob.primitive_normalization,
          "input_changed": digest(ob) != before, "spec": [list(x) for x in spec]}
    events = [ev]
    for allow in (False, True):
        data = IOData(atnums=[1, 8], atcoords=xyz, obasis=ob, title="t")
        dbefore = digest(data)
        pe = {"op": "PrepSeg", "b": abstract_basis(spec), "keep": bool(keep), "allow": allow, "out": [], "rest_same": True,
              "spec": [list(x) for x in spec]}
        with warnings.catch_warnings(record=True) as wl:
            warnings.simplefilter("always")
            try:
                res = prepare_segmented(data, keep, allow, "file.x", "FMT")
                pe["r"] = "same" if res is data else "new"
                pe["out"] = project_basis(res.obasis, spec)
                if res is not data:
                    pe["rest_same"] = bool(res.obasis is not data.obasis and res.atcoords is data.atcoords and res.title == data.title
                                           and digest(data) == dbefore)
            except PrepareDumpError:
                pe["r"] = "PrepareDumpError"
            except Exception as exc:  # noqa: BLE001
                pe["r"] = "other:" + type(exc).__name__
        pe["warned"] = any(issubclass(w.category, PrepareDumpWarning) for w in wl)
        events.append(pe)
        if allow and len(spec) >= 2:
            # the same object once more after an in-place edit of its basis (two shells swapped): the result is a function of
            # the basis as it is now, not of what was prepared before
            data.obasis.shells[0], data.obasis.shells[1] = data.obasis.shells[1], data.obasis.shells[0]
            ab = abstract_basis(spec)
            ab[0], ab[1] = ab[1], ab[0]
            pe2 = {"op": "PrepSeg", "b": ab, "keep": bool(keep), "allow": True, "out": [], "rest_same": True, "spec": [list(x) for x in spec],
                   "history": "after-inplace-edit"}
            dbefore = digest(data)
            with warnings.catch_warnings(record=True) as wl:
                warnings.simplefilter("always")
                try:
                    res = prepare_segmented(data, keep, True, "file.x", "FMT")
                    pe2["r"] = "same" if res is data else "new"
                    pe2["out"] = project_basis(res.obasis, spec)
                    if res is not data:
                        pe2["rest_same"] = bool(res.obasis is not data.obasis and res.atcoords is data.atcoords and digest(data) == dbefore)
                except PrepareDumpError:
                    pe2["r"] = "PrepareDumpError"
                except Exception as exc:  # noqa: BLE001
                    pe2["r"] = "other:" + type(exc).__name__
            pe2["warned"] = any(issubclass(w.category, PrepareDumpWarning) for w in wl)
            events.append(pe2)
    return events


def abstract_mo(mo):
    return {"kind": str(mo.kind), "norba": [] if mo.norba is None else [int(mo.norba)], "norbb": [] if mo.norbb is None else [int(mo.norbb)],
            "occs": qseq(mo.occs), "amb": qseq(mo.occs_aminusb), "en": tagseq(mo.energies), "irr": tagseq(mo.irreps),
            "co": tagseq(mo.coeffs)}


def density(mo, which):
    occ = mo.occsa if which == "a" else mo.occsb
    c = mo.coeffsa if which == "a" else mo.coeffsb
    if occ is None or c is None:
        return None
    return (c * occ) @ c.T


def mo_case(task):
    kind, n, occs, amb, with_en, with_irr, with_co = task
    from iodata import IOData
    from iodata.convert import convert_to_unrestricted
    from iodata.orbitals import MolecularOrbitals
    from iodata.prepare import prepare_unrestricted_aminusb
    from iodata.utils import PrepareDumpError, PrepareDumpWarning
    norb = n if kind == "restricted" else (2 * n if kind == "unrestricted" else n)
    kw = {}
    if occs is not None:
        kw["occs"] = np.array(occs, dtype=float)
    if amb is not None:
        kw["occs_aminusb"] = np.array(amb, dtype=float)
    if with_en:
        kw["energies"] = np.array([100 + i for i in range(norb)], dtype=float)
    if with_irr:
        kw["irreps"] = np.array([200 + i for i in range(norb)])
    if with_co:
        rows = 2 if kind == "generalized" else 1
        kw["coeffs"] = np.array([[300 + i for i in range(norb)]] * rows, dtype=float)
    na = None if kind == "generalized" else n
    mo = MolecularOrbitals(kind, na, na, **kw)
    before = digest(mo)
    events = []
    ev = {"op": "Unrestrict", "m": abstract_mo(mo), "out": {}, "dens_same": True}
    try:
        new = convert_to_unrestricted(mo)
        ev["r"] = "same" if new is mo else "new"
        ev["out"] = abstract_mo(new)
        for w in "ab":
            d0, d1 = density(mo, w), density(new, w)
            if (d0 is None) != (d1 is None) or (d0 is not None and not np.array_equal(d0, d1)):
                ev["dens_same"] = False
    except ValueError:
        ev["r"] = "rejected"
    except Exception as exc:  # noqa: BLE001
        ev["r"] = "other:" + type(exc).__name__
    ev["input_changed"] = digest(mo) != before
    events.append(ev)
    for allow in (False, True):
        data = IOData(atnums=[1], atcoords=[[0.0, 0.0, 0.0]], mo=mo, title="t")
        dbefore = digest(mo)
        pe = {"op": "PrepUnres", "m": abstract_mo(mo), "allow": allow, "out": {}, "rest_same": True}
        with warnings.catch_warnings(record=True) as wl:
            warnings.simplefilter("always")
            try:
                res = prepare_unrestricted_aminusb(data, allow, "file.x", "FMT")
                pe["r"] = "same" if res is data else "new"
                pe["out"] = abstract_mo(res.mo)
                if res is not data:
                    pe["rest_same"] = bool(res.atcoords is data.atcoords and res.title == data.title and digest(mo) == dbefore)
            except PrepareDumpError:
                pe["r"] = "PrepareDumpError"
            except ValueError:
                pe["r"] = "rejected"
            except Exception as exc:  # noqa: BLE001
                pe["r"] = "other:" + type(exc).__name__
        pe["warned"] = any(issubclass(w.category, PrepareDumpWarning) for w in wl)
        events.append(pe)
    return events


def basis_specs(rng, thorough):
    specs = []
    for k in SHELL_KINDS:
        for c in (1, 2):
            specs.append([(c, k)])
    for k1, k2 in itertools.product(SHELL_KINDS, repeat=2):
        for c1, c2 in ((1, 1), (1, 2), (2, 1)):
            specs.append([(c1, k1), (c2, k2)])
    n3 = 20000 if thorough else 300
    for _ in range(n3):
        n = rng.choice([3, 3, 4, 5])
        specs.append([(rng.randint(1, 2), rng.choice(SHELL_KINDS)) for _ in range(n)])
    return specs


def mo_tasks(rng, thorough):
    tasks = []
    occ_alpha = [0.0, 0.25, 0.5, 1.0, 1.5, 2.0]
    for n in (1, 2, 3):
        occ_sets = [None] + [list(t) for t in itertools.product(occ_alpha, repeat=n)] if n <= 2 else \
            [None] + [[rng.choice(occ_alpha) for _ in range(n)] for _ in range(60)]
        amb_sets = [None] + [list(t) for t in itertools.product([0.0, 1.0, -1.0, 0.5], repeat=n)][: (64 if thorough else 12)]
        for occs in occ_sets:
            for amb in amb_sets:
                if amb is not None and occs is None:
                    continue
                # every presence pattern of the optional arrays (energies, irreps, coefficients) is drawn independently
                flags = list(itertools.product([True, False], repeat=3))
                for f in (flags if thorough else rng.sample(flags, 3)):
                    tasks.append(("restricted", n, occs, amb, *f))
        for occs in ([None] + [[rng.choice([0.0, 0.5, 1.0]) for _ in range(2 * n)] for _ in range(4)]):
            tasks.append(("unrestricted", n, occs, None, True, False, True))
        tasks.append(("generalized", n, [1.0] * n, None, True, False, True))
        tasks.append(("generalized", n, None, None, False, False, False))
    return tasks


def describe(e):
    if e["op"] in ("Segment", "PrepSeg"):
        ks = {"".join(n[0] for n in names) for _, names in e["spec"]}
        kinds = ",".join(sorted({"SP" if k == "SP" else "PS" if k == "PS" else "generalized" if len(k) > 1 else "segmented" for k in ks}))
        extra = f" allow={e['allow']} r={e['r']} warned={e['warned']}" if e["op"] == "PrepSeg" else f" olp_same={e['olp_same']} input_changed={e['input_changed']}"
        return (f"{e['op']} keep_sp={e['keep']} shells={kinds}{extra}",
                f"{e['op']} disagrees with Wavefunction!Segment: basis={e['b']} out={e['out']}")
    m = e["m"]
    cls = f"{m['kind']} occs={'set' if m['occs'] else 'None'} amb={'set' if m['amb'] else 'None'}"
    extra = f" allow={e['allow']} warned={e['warned']}" if e["op"] == "PrepUnres" else f" dens_same={e['dens_same']}"
    return (f"{e['op']} {cls} r={e['r']}{extra}", f"{e['op']} disagrees with Orbitals!Unrestrict: {e}")


def check(run: Run):
    rng = random.Random(run.seed)
    run.cov["rule"] = (
        "bases: every 1- and 2-shell combination of 12 shell kinds (segmented, SP, PS, SS, 3/4/5-contraction mixed l and "
        "kinds) x centers x keep_sp, plus random 3-5 shell bases; orbitals: restricted sets with 1-3 orbitals over all "
        "occupation patterns of {0,.25,.5,1,1.5,2} (integer open shell, fractional, explicit occs_aminusb, None) x optional "
        "arrays present/absent, unrestricted and generalized; each through convert_* and prepare_* with allow_changes in "
        "{False, True}; distinct by content")
    cfg = "MC_Segment_thorough.cfg" if run.thorough() else "MC_Segment_quick.cfg"
    st = run_tlc(run, "MC_Segment", cfg, workers=16, timeout=1800, tag=cfg[:-4])
    run.add_model(st)
    tasks = [(s, k) for s in basis_specs(rng, run.thorough()) for k in (False, True)]
    events = []
    for sub in pmap(seg_case, tasks):
        events += sub
    for sub in pmap(mo_case, mo_tasks(rng, run.thorough())):
        events += sub
    reached = validate_traces(run, "Trace_Convert", [[e] for e in events], chunk=4000)
    kinds = {}
    for e, r in zip(events, reached):
        run.count()
        kinds[e["op"]] = kinds.get(e["op"], 0) + 1
        run.distinct(hash(json.dumps(e, sort_keys=True)))
        if r != 1:
            key, what = describe(e)
            run.violation(key, what, {"event": e})
    run.notes["events_by_kind"] = kinds
    for k in ("Segment", "PrepSeg", "Unrestrict", "PrepUnres"):
        for e in events:
            if e["op"] == k and (e.get("r") in (None, "new")):
                run.sample(e)
                break
    run.assumptions += ["shell identity is recovered from tagged exponents and coefficient columns",
                        "occupations on a 2^-20 grid; overlap/density equality is exact (array_equal)"]


def replay(rec):
    print(json.dumps(rec["detail"]["event"], indent=1)[:3000])
    return 1
