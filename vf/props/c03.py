"""C03 -- loaded values are exactly what the file says under the format's layout.

Spec: spec/Layouts.tla: the published fixed-width column tables (SDF, PDB, GRO, CRD, FCHK headers,
Cube) and, per format, the loaded attributes the file determines with the unit the format prescribes.
TLC checks the tables (contiguous, non-overlapping fields as a cursor state machine; literals fit) and
exports them; a generic renderer interprets them to write files from random tagged molecular models
(sizes and magnitudes chosen so that neighbouring fields touch); the real readers load them and TLC
validates the relation descriptor of every attribute (must be `same`).
"""

from __future__ import annotations

import json
import os
import random
import shutil
import tempfile
import warnings

import numpy as np

from ..core import Run
from ..par import pmap
from ..project import get_key, relate
from ..render import COORD_UNIT, DIGITS, FACTOR, MAGS, SIZES, VARIANTS, WRITERS, Model
from ..tlc import run_tlc, validate_traces

LEVEL = "exploration"
MODULE_OF = {f: f for f in WRITERS}


def load_tables(run):
    out = os.path.join(run.work, "layouts.json")
    st = run_tlc(run, "MC_Layouts", "MC_Layouts.cfg", workers=2, timeout=300, env={"OUT_FILE": out}, tag="MC_Layouts")
    run.add_model(st)
    with open(out) as fh:
        return json.load(fh)


def to_au(fmt, key, unit, val, exp):
    arr = np.asarray(val, dtype=float)
    if unit == "electron/cellvolume":
        cell = np.asarray(exp["cellvecs"], dtype=float) * FACTOR["angstrom"]
        return arr / abs(np.linalg.det(cell))
    return arr * FACTOR[unit]


def tol_for(entry):
    # half a unit in the last written digit (in file units), generous factor for the float32 readers
    t = 0.5 * 10.0 ** (-entry["tolexp"])
    unit = entry["unit"]
    f = FACTOR.get(unit, 1.0)
    return ("absrel", 1.02 * t * f, 2e-7)


def _relate(expected, got, entry):
    cls = entry["cls"]
    if expected is not None and np.size(expected) == 0 and (got is None or np.size(got) == 0):
        return "same"
    if cls == "exact":
        if entry["key"] == "bonds" and expected is not None and got is not None:
            g = np.asarray(got)
            e = np.asarray(expected)
            if e.ndim == 2 and e.shape[1] == 2:   # connectivity only (PDB)
                pg = sorted({tuple(sorted(int(v) for v in x[:2])) for x in g.tolist()})
                return "same" if pg == [tuple(x) for x in e.tolist()] else "differs"
        return relate(expected, got, "exact", None)
    if expected is None or got is None:
        return relate(expected, got, "real", ("abs", 0.0))
    _, tabs, trel = tol_for(entry)
    e = np.asarray(expected, dtype=float)
    g = np.asarray(got, dtype=float)
    if e.shape == g.shape and np.all(np.abs(e - g) <= tabs + trel * np.abs(e)):
        return "same"
    return relate(e, g, "real", ("abs", tabs))


def one_load(task):
    fmt, natom, mag, variant, seed, tables = task[:6]
    from iodata import api
    rng = random.Random(seed)
    m = Model(rng, natom, digits=min(DIGITS[fmt], 6), mag=mag)
    if len(task) > 6 and task[6] is not None:
        m.atom_shape = task[6]       # a basis / record shape enumerated by TLC (spec -> code)
    if len(task) > 7:
        # one numeric field takes the value that fills its columns (all nines; digit counts from Layouts!Fill): it touches its
        # left neighbour.  Coordinates go into the model, the other fields are picked up by the writer (render.fv).
        rec, field, nines, dec, sign, row = task[7]
        value = sign * int("9" * nines) / 10.0 ** dec
        axis = {"x": 0, "y": 1, "z": 2, "zz": 2}.get(field)
        if axis is not None and rec in FILL_COORD_RECORDS:
            m.xyz[row % natom, axis] = value
        else:
            m.fill = {(rec, field): (row % natom if rec != "cube_axis" else row % 3, value)}
    ev = {"op": "Load", "fmt": fmt, "natom": natom, "mag": mag if len(task) < 8 else "fill:" + ":".join(str(x) for x in task[7][:5]), "variant": variant, "seed": seed, "load": "ok",
          "rel": {e["key"]: "n/a" for e in tables["loads"][fmt]}}
    tmp = tempfile.mkdtemp(prefix="c03_")
    try:
        try:
            fname, text, exp = WRITERS[fmt](m, tables["layout"], rng, variant)
        except ValueError as exc:
            ev["load"] = "skip:" + str(exc)[:60]   # the model does not fit the columns of this format
            return ev
        path = os.path.join(tmp, fname)
        with open(path, "w") as fh:
            fh.write(text)
        with warnings.catch_warnings():
            warnings.simplefilter("ignore")
            try:
                obj = api.load_one(path, fmt=MODULE_OF[fmt])
            except Exception as exc:  # noqa: BLE001
                ev["load"] = f"{type(exc).__name__}:{str(exc.__cause__ or exc)[:90]}".replace(tmp, "")
                return ev
        for e in tables["loads"][fmt]:
            k = e["key"]
            want = exp.get(k)
            if want is not None and e["cls"] == "real":
                unit = COORD_UNIT.get(fmt, e["unit"]) if k in ("atcoords",) else e["unit"]
                want = to_au(fmt, k, e["unit"] if k != "atcoords" else unit, want, exp)
            got = get_key(obj, k)
            if want is None:   # not present in this file: nothing may be invented
                ev["rel"][k] = "same" if (got is None or np.size(got) == 0) else "spurious"
            else:
                ev["rel"][k] = _relate(want, got, e)
        if "_atom" in exp:
            ev["atom"] = atom_places(exp["_atom"], obj)
        return ev
    finally:
        shutil.rmtree(tmp, ignore_errors=True)


def cube_cut(task):
    """spec -> code: one cube file whose data block is cut into lines as the model's universe says (MC_CubeData)."""
    shape, cut, seed = task
    from iodata import api
    rng = random.Random(seed)
    n = shape[0] * shape[1] * shape[2]
    # word k of the stream carries a distinct tagged number; varying widths and separators (the block is read free-format)
    vals = [float(f"{(-1) ** k * (1.0 + 0.001 * k) * 10.0 ** (k % 5 - 2):.5E}") for k in range(1, n + 1)]
    style = rng.randrange(3)
    def word(v):
        return f"{v:13.5E}" if style == 0 else (f" {v:.5E}" if style == 1 else f"   {v!r}")
    lines = ["cube cut " + "-".join(str(x) for x in cut), "OUTER LOOP: X, MIDDLE LOOP: Y, INNER LOOP: Z",
             f"{1:5d}{-1.25:12.6f}{0.5:12.6f}{2.125:12.6f}"]
    axes = [[0.5, 0.0, 0.01], [0.0, 0.625, 0.0], [0.02, 0.0, 0.75]]
    for k in range(3):
        lines.append(f"{shape[k]:5d}" + "".join(f"{v:12.6f}" for v in axes[k]))
    lines.append(f"{8:5d}{8.0:12.6f}{0.0:12.6f}{0.25:12.6f}{-0.5:12.6f}")
    pos = 0
    for ln in cut:
        lines.append("".join(word(v) for v in vals[pos:pos + ln]))
        pos += ln
    ev = {"op": "CubeCut", "shape": list(shape), "lines": list(cut), "style": style, "load": "ok", "loaded_shape": [], "cells": []}
    tmp = tempfile.mkdtemp(prefix="c03_")
    try:
        path = os.path.join(tmp, "cut.cube")
        with open(path, "w") as fh:
            fh.write("\n".join(lines) + "\n")
        with warnings.catch_warnings():
            warnings.simplefilter("ignore")
            try:
                obj = api.load_one(path)
            except Exception as exc:  # noqa: BLE001
                ev["load"] = f"{type(exc).__name__}:{str(exc.__cause__ or exc)[:90]}".replace(tmp, "")
                return ev
        data = np.asarray(obj.cube.data)
        ev["loaded_shape"] = [int(x) for x in data.shape]
        tag = {v: k for k, v in enumerate(vals, 1)}
        for cell in np.ndindex(*data.shape):
            ev["cells"].append({"cell": [int(c) for c in cell], "word": tag.get(float(data[cell]), 0)})
        return ev
    finally:
        shutil.rmtree(tmp, ignore_errors=True)


# records whose numeric fields are driven to their fill values, and the format each belongs to
FILL_RECORDS = {"sdf_atom": ("sdf", ["x", "y", "z"]), "pdb_atom": ("pdb", ["x", "y", "z", "occ", "b", "resseq"]),
                "gro_atom": ("gromacs", ["x", "y", "z", "vx", "vy", "vz", "resnum"]), "crd_atom": ("charmm", ["x", "y", "z", "weight", "resno"]),
                "gamess_coord": ("gamess", ["x", "y", "z"])}
# Cube files are not driven to their fill values: Gaussian writes (I5,3F12.6) / (I5,4F12.6), but the format is read free-format
# by every program (and written with other widths by many), so a reader must split on blanks; touching fields are not in its domain.
FILL_COORD_RECORDS = {"sdf_atom", "pdb_atom", "gro_atom", "crd_atom", "cube_atom", "gamess_coord"}


def fill_tasks(run, rng, tables):
    out = []
    for rec, (fmt, fields) in FILL_RECORDS.items():
        ent = tables["fills"][rec]
        ent = list(ent.values()) if isinstance(ent, dict) else list(ent)
        for e in ent:
            if e["field"] not in fields:
                continue
            for sign, nines in ((1, e["pos"]), (-1, e["neg"])):
                for natom in ([3, 12] if run.thorough() else [3]):
                    for row in (range(natom) if run.thorough() and natom == 3 else [rng.randrange(natom)]):
                        out.append((fmt, natom, "small", VARIANTS.get(fmt, ["plain"])[0], rng.randint(0, 10**9), tables, None,
                                    (rec, e["field"], nines, e["dec"], sign, row)))
    return out


def atom_places(a, obj):
    """Where the tagged expansion coefficients of an atomic-orbital file ended up in the loaded coefficient matrix
    (judged by TLC against spec/AtomOrbitals.tla)."""
    mo = getattr(obj, "mo", None)
    c = None if mo is None else np.asarray(mo.coeffs)
    out = {"nfun": a["nfun"], "recs": a["recs"], "nspin": 2 if a["unres"] else 1, "norb": a["norb"], "places": [],
           "nbasis": -1 if c is None else int(c.shape[0]), "nonzero": -1 if c is None else int(np.count_nonzero(c))}
    seen = set()
    for p in a["places"]:
        key = (p["spin"], p["r"], p["ic"])
        if key in seen:
            continue
        seen.add(key)
        cells = []
        if c is not None and c.ndim == 2:
            c0 = a["norb"] if p["spin"] == "beta" else 0
            blk = c[:, c0:c0 + a["norb"]]
            rows, cols = np.nonzero(np.abs(blk - p["value"]) <= 1e-13 * abs(p["value"]))
            cells = sorted([int(i), int(j)] for i, j in zip(rows, cols))
        out["places"].append({"l": p["l"], "r": p["r"], "ic": p["ic"], "cells": cells})
    return out


def plan(run, rng, tables):
    tasks = []
    for fmt in WRITERS:
        sizes = SIZES[fmt] if run.thorough() else [s for s in SIZES[fmt] if s <= 1200 or (fmt == "pdb" and s == 10001)]
        mags = MAGS.get(fmt, ["small", "neg", "mixed"])
        variants = VARIANTS.get(fmt, ["plain"])
        if run.thorough():
            # besides the boundary sizes: random sizes below the largest boundary, and several models per configuration
            top = min(max(sizes), 1500)
            sizes = list(sizes) + sorted({rng.randint(1, top) for _ in range(30)} - set(sizes))
        for i, n in enumerate(sizes):
            for j, mag in enumerate(mags):
                if n > 1500 and j > 1:
                    continue
                for v in (variants if (i + j) % 2 == 0 or run.thorough() else variants[:1]):
                    for _rep in range((8 if n <= 50 else 4) if run.thorough() and n <= 200 else 1):
                        tasks.append((fmt, n, mag, v, rng.randint(0, 10**9), tables))
    return tasks


def describe(e):
    if e["load"] != "ok":
        import re
        msg = re.sub(r"[-\d.]{4,}", "#", e['load'].split(':', 1)[1][:60])
        return (f"{e['fmt']} independently rendered file not loaded: {e['load'].split(':')[0]}:{msg} variant={e['variant']}", json.dumps(e))
    bad = sorted(f"{k}:{v}" for k, v in e["rel"].items() if v != "same")
    if not bad and "atom" in e:
        bad = ["orbital coefficients not on the cells of AtomOrbitals"]
    return (f"{e['fmt']} loaded value differs from the file: {' '.join(bad)} variant={e['variant']}", json.dumps(e))


def size_class(n):
    for b in (10, 100, 1000, 10000):
        if n < b:
            return f"<{b}"
    return ">=10000"


def check(run: Run):
    rng = random.Random(run.seed)
    run.cov["rule"] = (
        "files = rendered by the independent writer for the readable formats (xyz, extxyz, sdf, pdb, gro, crd, mol2, poscar, "
        "chgcar, locpot, cube, fcidump, gaussian input, qcschema json, fchk, gaussian log, orca output, gamess punch, q-chem output, wfx, mwfn, cp2k atom output) x sizes crossing field-width boundaries "
        "(>=100 atoms/bonds in SDF, serials >= 10000 in PDB CONECT, >= 1000 atoms) x magnitude classes (x <= -10 nm, "
        ">= 100 nm, wide negative numbers filling their columns) x layout variants (direct/cartesian/scaled/selective "
        "POSCAR, ragged cube lines, triclinic GRO box); distinct by (format, size, magnitude, variant)")
    tables = load_tables(run)
    # the placement rule of atomic orbitals (cp2klog) is a placement: every basis shape x record sequence within the bounds
    cfga = "MC_AtomOrbitals_thorough.cfg" if run.thorough() else "MC_AtomOrbitals.cfg"
    shapes_file = os.path.join(run.work, "atom_shapes.json")
    run.add_model(run_tlc(run, "MC_AtomOrbitals", cfga, workers=8, timeout=600, tag=cfga[:-4], env={"SHAPES_FILE": shapes_file}))
    tasks = plan(run, rng, tables)
    # spec -> code: one CP2K ATOM output per shape of the model's universe (records listed per l), variants in rotation
    with open(shapes_file) as fh:
        shapes = json.load(fh)["shapes"]
    vs = VARIANTS["cp2klog"]
    for i, sh in enumerate(shapes):
        tasks.append(("cp2klog", 1 + i % 12, "small", vs[(i + run.seed) % len(vs)], rng.randint(0, 10**9), tables, (sh["nfun"], sh["recs"])))
    run.notes["atom_shapes_from_model"] = len(shapes)
    ft = fill_tasks(run, rng, tables)
    tasks += ft
    run.notes["fill_value_files"] = len(ft)
    events = [e for e in pmap(one_load, tasks, chunksize=2)]
    skipped = [e for e in events if e["load"].startswith("skip:")]
    events = [e for e in events if not e["load"].startswith("skip:")]
    reached = validate_traces(run, "Trace_Layouts", [[e] for e in events], chunk=2000)
    for e, r in zip(events, reached):
        run.count()
        run.distinct(json.dumps([e["fmt"], e["natom"], e["mag"], e["variant"], [e["atom"]["nfun"], e["atom"]["recs"]] if "atom" in e else None]))
        if r != 1:
            key, what = describe(e)
            run.violation(key, what, {"event": e})
    # cube data block: the reader's word cursor (spec/CubeData.tla, MC_CubeData) over every cut of every stream of the bounded universe
    cfgc = "MC_CubeData_thorough.cfg" if run.thorough() else "MC_CubeData.cfg"
    cases_file = os.path.join(run.work, "cube_cases.json")
    run.add_model(run_tlc(run, "MC_CubeData", cfgc, workers=8, timeout=600, tag=cfgc[:-4], env={"CASES_FILE": cases_file}))
    with open(cases_file) as fh:
        cases = json.load(fh)["cases"]
    cev = pmap(cube_cut, [(c["shape"], c["lines"], rng.randint(0, 10**9)) for c in cases], chunksize=16)
    creached = validate_traces(run, "Trace_CubeData", [[e] for e in cev], chunk=1000)
    run.notes["cube_cuts_from_model"] = len(cases)
    for e, r in zip(cev, creached):
        run.count()
        run.distinct("cubecut:" + json.dumps([e["shape"], e["lines"]]))
        if r != 1:
            if e["load"] != "ok":
                what = f"cube file with data lines of {e['lines']} numbers (shape {e['shape']}) not loaded: {e['load']}"
            else:
                bad = [c for c in e["cells"] if c["word"] != (c["cell"][0] * e["shape"][1] + c["cell"][1]) * e["shape"][2] + c["cell"][2] + 1][:3]
                what = f"cube data misplaced: shape {e['shape']} loaded as {e['loaded_shape']}, lines {e['lines']}, cells {bad}"
            run.violation(f"cube-cut shape={e['shape']} lines={e['lines']}"[:100], what, {"event": e})
    # QCSchema molecule documents: every key subset class -> where the loader puts each value (spec/QCSchema.tla)
    from .. import qcdoc
    cfgq = "MC_QCSchema_thorough.cfg" if run.thorough() else "MC_QCSchema_quick.cfg"
    run.add_model(run_tlc(run, "QCSchema", cfgq, workers=16, timeout=900, tag=cfgq[:-4]))
    qev = pmap(qcdoc.execute, qcdoc.plan(rng, run.thorough()), chunksize=4)
    qreached = validate_traces(run, "Trace_QCSchema", [[e] for e in qev], chunk=3000, env={"QC_RULE": "load"})
    for e, r in zip(qev, qreached):
        run.count()
        run.distinct("qcdoc:" + json.dumps(e["keys"]))
        if r != 1:
            badp = sorted(f"{k}:{v}" for k, v in e["placed"].items() if v in ("missing", "wrong"))
            run.violation(f"json_qcschema document: out={e['out']} warned={e['warned']} misplaced={' '.join(badp) or 'none'}"[:160],
                          json.dumps(e)[:1500], {"event": e})
    run.notes["qcschema_documents"] = len(qev)
    run.notes["formats"] = sorted(WRITERS)
    run.notes["models_not_fitting_columns"] = len(skipped)
    run.notes["not_covered"] = ("the sections of gaussianlog, orcalog, gamess punch, qchemlog and cp2klog are rendered in the shape the programs "
                                "print them, transcribed from sample outputs, not from a published specification; molden/molekel are "
                                "rendered independently in C05, wfn/wfx/mwfn only through C01/C02")
    for f in ("sdf", "pdb", "gromacs"):
        run.sample(next(e for e in events if e["fmt"] == f))
    run.assumptions += ["tolerance: half a unit in the last digit written plus 2e-7 relative (single-precision readers)",
                        "the independent writer (vf/render.py) and the column tables are the trusted transcription of the public format descriptions"]


def replay(rec):
    e = rec["detail"]["event"]
    print(json.dumps(e, indent=1))
    return 1
