"""C15 -- after one save/reload cycle, further cycles change nothing.

Spec: spec/Formats.tla (the normalisations of the round trip are idempotent: MC_Formats checks e.g. the
POSCAR grouping as a state machine with SecondCycleIdentity) and Trace_Formats!CyclesOK with the
documented exception (QCSchema provenance).  For every C02 object configuration and every corpus file
converted to every format that accepts it, three save/reload cycles are run; whether the second-
generation object is bit-identical to the first-generation one, whether the third file is byte-identical
to the second, and which attribute drifted are recorded and validated by TLC.
"""

from __future__ import annotations

import json
import os
import random
import shutil
import tempfile
import warnings

from .. import objects as O
from ..core import Run
from ..corpus import corpus
from ..digest import deep, diff, public_state
from ..par import pmap
from ..tlc import validate_traces
from . import c02

LEVEL = "exploration"


def cycles(task):
    kind, fmt, spec = task
    from iodata import api
    tmp = tempfile.mkdtemp(prefix="c15_")
    ev = {"op": "Cycles", "fmt": fmt, "source": kind + ":" + str(spec[0] if kind == "corpus" else spec[:3]), "ok": True, "stage": "",
          "obj2_eq_obj1": True, "bytes3_eq_bytes2": True, "drift": [], "accepted": True}
    try:
        with warnings.catch_warnings():
            warnings.simplefilter("ignore")
            if kind == "corpus":
                try:
                    obj0 = api.load_one(spec[1], fmt=spec[2])
                except Exception:
                    ev["accepted"] = False
                    return ev
            else:
                n, present, mag, seed = spec
                obj0 = c02.build(fmt, random.Random(seed), n, present, mag)
                if fmt.startswith("json_qcschema") and seed % 2:
                    # dictionaries whose values are all None (JSON null): whatever the first cycle makes of them, it stays that way
                    ex = obj0.extra
                    if isinstance(ex.get("molecule"), dict):
                        ex["molecule"]["extras"] = {"note": None}
                        ex["molecule"]["comment"] = None
                    if isinstance(ex.get("input"), dict):
                        ex["input"].setdefault("keywords", {})["allnull"] = {"x": None, "y": None}
                        ex["input"]["extras"] = {"only": None}
            p = [os.path.join(tmp, f"g{i}_" + O.SUFFIX[c02.real_fmt(fmt)]) for i in range(4)]
            kwio = c02.io_kwargs(fmt)
            try:
                api.dump_one(obj0, p[1], fmt=c02.real_fmt(fmt), allow_changes=True, **kwio)
            except Exception:
                ev["accepted"] = False   # the format does not accept this object: not a cycle
                return ev
            try:
                obj1 = api.load_one(p[1], fmt=c02.real_fmt(fmt), **kwio)
            except Exception as exc:  # noqa: BLE001
                # the first reload is C02 / C01 territory; for a corpus object of another format the object may be
                # outside the documented domain of this format, so it is recorded as an observation only
                ev["ok"] = False
                ev["stage"] = f"first reload {type(exc).__name__}: {str(exc.__cause__ or exc)[:100]}".replace(tmp, "")
                ev["accepted"] = kind != "corpus" or spec[2] == fmt
                ev["observation"] = not ev["accepted"]
                return ev
            try:
                api.dump_one(obj1, p[2], fmt=c02.real_fmt(fmt), allow_changes=True, **kwio)
                obj2 = api.load_one(p[2], fmt=c02.real_fmt(fmt), **kwio)
                api.dump_one(obj2, p[3], fmt=c02.real_fmt(fmt), allow_changes=True, **kwio)
            except Exception as exc:  # noqa: BLE001
                ev["ok"] = False
                ev["stage"] = f"{type(exc).__name__}: {str(exc.__cause__ or exc)[:100]}".replace(tmp, "")
                return ev
            d1, d2 = deep(public_state(obj1)), deep(public_state(obj2))
            paths = diff(d1, d2)
            if fmt.startswith("json_qcschema"):
                paths = [x for x in paths if "provenance" not in x]      # the provenance trail grows by design: projected away
            drift = sorted({x.strip("/").split("/")[0].strip("'") for x in paths})
            ev["obj2_eq_obj1"] = not drift
            ev["drift"] = drift
            ev["bytes3_eq_bytes2"] = open(p[2], "rb").read() == open(p[3], "rb").read()
        return ev
    finally:
        shutil.rmtree(tmp, ignore_errors=True)


def check(run: Run):
    rng = random.Random(run.seed)
    run.cov["rule"] = (
        "sources = C02 object configurations of each of the 13 formats (optional subsets x sizes x magnitudes) and every corpus "
        "file (quick: up to 4 per module) x every one of the 13 formats that accepts the object (allow_changes=True); three "
        "save/reload cycles; distinct by (source, format); non-trivial = the format accepted the object")
    stores = c02.load_stores(run)
    tasks = []
    for t in c02.plan(run, rng, stores):
        fmt, n, sub, mag, seed, _ = t
        if n > 1000 and not run.thorough():
            continue
        tasks.append(("gen", fmt, (n, sub, mag, seed)))
    files = [(p, f) for p, f, _ in corpus() if os.path.getsize(p) < 300000]
    if not run.thorough():
        by = {}
        for p, f in files:
            by.setdefault(f, []).append(p)
        files = [(p, f) for f, ps in by.items() for p in sorted(ps, key=os.path.getsize)[:4]]
    for p, f in files:
        for fmt in O.DUMP_ONE:
            tasks.append(("corpus", fmt, (os.path.basename(p), p, f)))
    allev = pmap(cycles, tasks, chunksize=2)
    run.notes["first_reload_failures_of_foreign_corpus_objects"] = sorted({f"{e['fmt']}: {e['stage'][:70]}" for e in allev if e.get("observation")})
    events = [e for e in allev if e["accepted"]]
    reached = validate_traces(run, "Trace_Formats", [[e] for e in events], chunk=3000)
    stats = {"stable": 0, "unstable": 0}
    for e, r in zip(events, reached):
        run.count()
        run.distinct(json.dumps([e["source"], e["fmt"]]))
        stats["stable" if r == 1 else "unstable"] += 1
        if r != 1:
            if not e["ok"]:
                key = f"{e['fmt']} second cycle fails: {e['stage'].split(':')[0]}: {e['stage'].split(':', 1)[1].strip()[:60]}"
            else:
                key = f"{e['fmt']} drift obj2_eq_obj1={e['obj2_eq_obj1']} bytes3_eq_bytes2={e['bytes3_eq_bytes2']} attrs={','.join(e['drift']) or '-'}"
            run.violation(key, f"{e['source']} -> {e['fmt']}: {e}", {"event": e})
    run.notes["cycles"] = stats
    run.notes["written_pairs"] = len(events)
    for e in events[:2] + events[-1:]:
        run.sample(e)
    run.assumptions += ["bit-identity of objects is judged on the deep public state (array bytes, dict contents, nested objects)",
                        "the QCSchema provenance trail (inside extra) grows by design and is the only exception"]


def replay(rec):
    print(json.dumps(rec["detail"]["event"], indent=1))
    return 1
