"""C19 -- generated QC input files describe the molecule they were generated from.

Spec: spec/Inputs.tla (precedence of keyword arguments, object attributes and defaults per template
field; run-type keyword tables; rounding of charge and multiplicity; error classes).  TLC explores
every scenario (program x attributes present x run type x charge/spin source x keyword-argument subset
x template kind).  The harness builds the object of each scenario (1..200 atoms, all elements,
tagged coordinates), renders it with write_input (default, custom and broken templates, custom
atom-line callbacks), tokenises the output and TLC validates every rendered field against
ExpectedText and the geometry block against the molecule.
"""

from __future__ import annotations

import itertools
import json
import os
import random
import shutil
import tempfile
import warnings

import numpy as np

from ..core import Run
from ..par import pmap
from ..tlc import run_tlc, validate_traces

LEVEL = "model_checking"
ANGSTROM = 1.8897261246257702
FIELDS = ["title", "lot", "obasis_name", "run_type", "charge", "spinmult"]
KW = {"title": "KW title", "lot": "KWlot", "obasis_name": "KWbasis", "run_type": "KWrun", "charge": 77, "spinmult": 55}
AT = {"title": "AT title", "lot": "ATlot", "obasis_name": "ATbasis"}
SYMBOLS = ("H He Li Be B C N O F Ne Na Mg Al Si P S Cl Ar K Ca Sc Ti V Cr Mn Fe Co Ni Cu Zn Ga Ge As Se Br Kr Rb Sr Y Zr "
           "Nb Mo Tc Ru Rh Pd Ag Cd In Sn Sb Te I Xe Cs Ba La Ce Pr Nd Pm Sm Eu Gd Tb Dy Ho Er Tm Yb Lu Hf Ta W Re Os Ir Pt "
           "Au Hg Tl Pb Bi Po At Rn Fr Ra Ac Th Pa U Np Pu Am Cm Bk Cf Es Fm Md No Lr Rf Db Sg Bh Hs Mt Ds Rg Cn Nh Fl Mc Lv "
           "Ts Og").split()


KW_FALSY = dict(KW, title="", charge=0)


class CallbackBoom(Exception):
    """An application-defined exception raised by a user's atom-line callback."""


def build_object(sc, rng, natom):
    from iodata import IOData
    from iodata.orbitals import MolecularOrbitals
    atnums = np.array([rng.randint(1, 118) for _ in range(natom)])
    # magnitudes drawn independently of everything else: ordinary, wide (the numbers outgrow their usual ten columns) and edge values
    span = rng.choice([40, 40, 40, 2500, 150000])
    atcoords = np.array([[round(rng.uniform(-span, span), 6) for _ in range(3)] for _ in range(natom)])
    if rng.random() < 0.25:
        for _ in range(rng.randint(1, 3)):
            atcoords[rng.randrange(natom), rng.randrange(3)] = rng.choice([-100.0, -999.999999, 1000.0, -1000.5, 12345.678901, -99.9999995, 999.9999995])
    atcoords = atcoords * ANGSTROM
    kw = {"atnums": atnums, "atcoords": atcoords}
    for f in ("title", "lot", "obasis_name"):
        if f in sc["attrs"]:
            kw[f] = AT[f]
    if sc["rt"]:
        kw["run_type"] = sc["rt"][0]
    how = sc.get("derive", "assigned")
    if how == "mo":
        # charge and spin polarisation both follow from the orbitals (and the nuclear charges): nothing is assigned
        q, sp = sc["charge"][0] // 4, abs(sc["spinpol"][0]) // 4
        rest = int(atnums[1:].sum())
        ok = [z for z in range(1, 119) if rest + z - q - sp >= 0 and (rest + z - q - sp) % 2 == 0]
        atnums[0] = min(ok, key=lambda z: abs(z - int(atnums[0])))
        nelec = int(atnums.sum()) - q
        na, nb = (nelec + sp) // 2, (nelec - sp) // 2
        if sc["spinpol"][0] < 0:
            na, nb = nb, na
        norb = max(na, nb) + 2
        kw["atnums"] = atnums
        if rng.random() < 0.5:
            occs = np.array([1.0] * na + [0.0] * (norb - na) + [1.0] * nb + [0.0] * (norb - nb))
            kw["mo"] = MolecularOrbitals("unrestricted", norb, norb, occs)
        else:
            hi, lo = max(na, nb), min(na, nb)
            occs = np.array([2.0] * lo + [1.0] * (hi - lo) + [0.0] * (norb - hi))
            amb = np.array([0.0] * lo + [1.0 if na >= nb else -1.0] * (hi - lo) + [0.0] * (norb - hi))
            kw["mo"] = MolecularOrbitals("restricted", norb, norb, occs, None, None, None, amb)
        return IOData(**kw), atnums, atcoords
    if sc["charge"]:
        q = sc["charge"][0] / 4
        if how == "derived":
            core = atnums.astype(float)
            if rng.random() < 0.5:
                # effective core potentials and ghost centres: the charge follows from the core charges, not from the atomic numbers
                for i in range(natom):
                    r = rng.random()
                    core[i] = 0.0 if r < 0.2 else (core[i] - 10.0 if (r < 0.6 and core[i] > 12) else core[i])
            kw["atcorenums"] = core
            kw["nelec"] = float(core.sum()) - q
        else:
            kw["charge"] = q
    if sc["spinpol"]:
        sp = sc["spinpol"][0] / 4
        if how == "derived" and sp >= 0 and float(sp * 4) % 1 == 0 and sc["spinpol"][0] % 4 == 0:
            pass
        kw["spinpol"] = sp
    obj = IOData(**kw)
    return obj, atnums, atcoords


def template_for(sc, prog, fields):
    if sc["template"] == "default":
        return None
    lines = [f"F:{f}=<{{{f}}}>" for f in fields]
    if sc["extra"] != "none":
        lines.append("F:myopt=<{myopt}>")
    if sc["template"] == "badfield":
        lines.append("X:{no_such_field}")
    lines += ["GEOM", "{geometry}", "ENDGEOM"]
    return "\n".join(lines)


def parse_output(text, sc, prog, fields):
    """-> (field texts, geometry lines)"""
    lines = text.splitlines()
    out = {}
    if sc["template"] == "custom":
        for ln in lines:
            if ln.startswith("F:"):
                name, val = ln[2:].split("=<", 1)
                out[name] = val[:-1]
        g0, g1 = lines.index("GEOM"), lines.index("ENDGEOM")
        return out, lines[g0 + 1:g1]
    if prog == "gaussian":
        # by the grammar of a Gaussian input, not by line numbers: Link 0 lines (%...), the route section (# ...) up to a blank
        # line, the title section up to a blank line, the charge / multiplicity line, one line per atom up to a blank line
        k = 0
        while k < len(lines) and not lines[k].lstrip().startswith("#"):
            k += 1
        route = []
        while k < len(lines) and lines[k].strip():
            route.append(lines[k].strip())
            k += 1
        head = " ".join(route)
        rest = head.split(" ", 1)[1] if " " in head else ""          # after '#', '#n', '#p', '#t'
        lotbasis, run = rest.rsplit(" ", 1)
        # lot and basis are joined by '/': both sides are known not to contain '/'
        out["lot"], out["obasis_name"] = lotbasis.split("/", 1)
        out["run_type"] = run
        k += 1
        title = []
        while k < len(lines) and lines[k].strip():
            title.append(lines[k])
            k += 1
        out["title"] = "\n".join(title)
        while k < len(lines) and not lines[k].strip():       # the blank line that ends the title section (an empty title is one more)
            k += 1
        out["charge"], out["spinmult"] = lines[k].split()
        geom = []
        k += 1
        while k < len(lines) and lines[k].strip():
            geom.append(lines[k])
            k += 1
        return out, geom
    # ORCA: the keyword line (! ...), comment lines (# ...), the coordinate block '* xyz charge mult' ... '*'
    head = next(ln for ln in lines if ln.lstrip().startswith("!"))
    toks = head.lstrip()[1:].strip().split(" ")
    out["lot"], out["obasis_name"], out["run_type"] = toks[0], toks[1], " ".join(toks[2:])
    comments = [ln for ln in lines if ln.startswith("#")]
    out["title"] = comments[0][2:] if comments else "<missing>"
    b0 = next(i for i, ln in enumerate(lines) if ln.lstrip().startswith("*") and "xyz" in ln.lower())
    w = lines[b0].replace("*", " ").split()
    out["charge"], out["spinmult"] = w[1], w[2]
    b1 = next(i for i in range(b0 + 1, len(lines)) if lines[i].strip() == "*")
    return out, lines[b0 + 1:b1]


def run_scenario(task):
    sc, seed, natom, custom_atom_line = task
    from iodata import api
    from iodata.utils import FileFormatError, WriteInputError
    rng = random.Random(seed)
    prog = sc["prog"]
    fields = list(FIELDS) if sc["template"] == "default" else [f for f in FIELDS if rng.random() < 0.7] or ["title"]
    obj, atnums, atcoords = build_object(sc, rng, natom)
    tmp = tempfile.mkdtemp(prefix="c19_")
    ev = {"op": "Render", "sc": {k: sc[k] for k in ("prog", "known", "attrs", "rt", "charge", "spinpol", "kwargs", "template", "falsy", "cb",
                                                    "extra")},
          "fields": fields, "text": {}, "extra_text": "<none>", "geom": {"nlines": 0, "natom": natom, "symbols_ok": True, "coords_ok": True}, "natom": natom,
          "atom_line": bool(custom_atom_line)}
    try:
        path = os.path.join(tmp, "job.inp")
        kwargs = {f: (KW_FALSY if sc["falsy"] else KW)[f] for f in sc["kwargs"]}
        if sc["extra"] in ("given", "empty"):
            kwargs["myopt"] = "KWextra" if sc["extra"] == "given" else ""
        tpl = template_for(sc, prog, fields)
        cb = None
        custom_atom_line = sc["cb"] != "none"
        if sc["cb"] == "custom":
            def cb(data, i):
                return f"ATOM {i} Z={int(data.atnums[i])} x={data.atcoords[i][0] / ANGSTROM:.6f}"
        elif sc["cb"] == "raises":
            boom = [ZeroDivisionError, RuntimeError, KeyError, OSError, CallbackBoom, StopIteration][seed % 6]
            at = seed % natom

            def cb(data, i):
                if i == at:
                    raise boom("callback failed")
                return f"ATOM {i}"
        try:
            with warnings.catch_warnings():
                warnings.simplefilter("ignore")
                api.write_input(obj, path, prog if sc["known"] else prog + "_nonexistent", template=tpl, atom_line=cb, **kwargs)
            ev["out"] = "ok"
        except FileFormatError:
            ev["out"] = "FileFormatError"
        except WriteInputError:
            ev["out"] = "WriteInputError"
        except Exception as exc:  # noqa: BLE001
            ev["out"] = "other:" + type(exc).__name__
        if ev["out"] == "ok":
            text = open(path).read()
            try:
                texts, geom = parse_output(text, sc, prog, fields)
            except Exception:  # noqa: BLE001
                texts, geom = {f: "<unparsable>" for f in fields}, []
            ev["text"] = {f: str(texts.get(f, "<missing>")) for f in fields}
            ev["extra_text"] = str(texts.get("myopt", "<missing>")) if sc["extra"] != "none" else "<none>"
            ev["geom"]["nlines"] = len(geom)
            sym_ok, xyz_ok = True, True
            for i, ln in enumerate(geom[:natom]):
                if custom_atom_line:
                    want = f"ATOM {i} Z={int(atnums[i])} x={atcoords[i][0] / ANGSTROM:.6f}"
                    if ln != want:
                        sym_ok = False
                    continue
                w = ln.split()
                if len(w) != 4 or w[0] != SYMBOLS[atnums[i] - 1]:
                    sym_ok = False
                    continue
                for a in range(3):
                    # six printed decimals; the angstrom of the harness (CODATA 2018) and of the library differ by 7e-10 relative
                    want_x = atcoords[i][a] / ANGSTROM
                    if abs(float(w[1 + a]) - want_x) > 6e-7 + 3e-9 * abs(want_x):
                        xyz_ok = False
            ev["geom"]["symbols_ok"], ev["geom"]["coords_ok"] = sym_ok, xyz_ok
    finally:
        shutil.rmtree(tmp, ignore_errors=True)
    return ev


def scenarios(run, rng):
    progs = ["gaussian", "orca"]
    attrsets = [list(s) for n in range(4) for s in itertools.combinations(["title", "lot", "obasis_name"], n)]
    rts = [[]] + [[r] for r in ("energy", "energy_force", "opt", "scan", "freq", "bogus")]
    charges = [[], [-7], [-3], [1], [5], [9]]
    spins = [[], [0], [3], [-5], [9]]
    kwsets = [list(s) for n in range(7) for s in itertools.combinations(FIELDS, n)]
    if not run.thorough():
        kwsets = [k for k in kwsets if len(k) <= 1 or len(k) == 6] + [rng.sample(FIELDS, 3) for _ in range(4)]
    out = []
    for prog in progs:
        for attrs in attrsets:
            for rt in rts:
                for kws in kwsets:
                    ch, sp = rng.choice(charges), rng.choice(spins)
                    tpl = rng.choice(["default", "default", "custom", "custom", "badfield"])
                    extra = rng.choice(["none", "none", "given", "empty", "missing"]) if tpl == "custom" else "none"
                    out.append({"prog": prog, "known": True, "attrs": attrs, "rt": rt, "charge": ch, "spinpol": sp, "kwargs": kws,
                                "template": tpl, "derive": rng.choice(["assigned", "derived"]), "falsy": rng.random() < 0.4,
                                "cb": rng.choice(["none", "none", "none", "custom", "raises"]), "extra": extra})
        for ch in charges:
            for sp in spins:
                for tpl in ("default", "custom"):
                    for der in ("assigned", "derived"):
                        out.append({"prog": prog, "known": True, "attrs": [], "rt": [], "charge": ch, "spinpol": sp, "kwargs": [],
                                    "template": tpl, "derive": der, "falsy": False, "cb": "none", "extra": "none"})
        # charge and multiplicity that follow from the orbitals (nothing assigned), with and without overriding keyword arguments
        for q in (-8, -4, 0, 4, 12):
            for sp in (0, 4, -4, 8, 12):
                for kws in ([], ["charge"], ["spinmult"], ["charge", "spinmult"]):
                    for falsy in (False, True):
                        out.append({"prog": prog, "known": True, "attrs": [], "rt": [], "charge": [q], "spinpol": [sp], "kwargs": kws,
                                    "template": rng.choice(["default", "custom"]), "derive": "mo", "falsy": falsy, "cb": "none",
                                    "extra": "none"})
        out.append({"prog": prog, "known": False, "attrs": [], "rt": [], "charge": [], "spinpol": [], "kwargs": [], "template": "default",
                    "falsy": False, "cb": "none", "extra": "none"})
    return out


def check(run: Run):
    rng = random.Random(run.seed)
    run.cov["rule"] = (
        "scenarios = program x subset of {title, lot, obasis_name} present x run type (none, the 5 documented, unknown) x "
        "charge (absent / assigned / derived from core charges and electron count, quarter values away from ties) x spin "
        "polarisation x subset of keyword arguments x template (default, custom with a random field subset, broken) x custom "
        "atom-line callback, on molecules of 1..200 atoms over all 118 elements with tagged coordinates; distinct by content")
    st = run_tlc(run, "Inputs", "MC_Inputs_thorough.cfg" if run.thorough() else "MC_Inputs.cfg", workers=16, timeout=1800, tag="MC_Inputs")
    run.add_model(st)
    scs = scenarios(run, rng)
    sizes = [1, 2, 3, 5, 10, 50, 118, 200]
    tasks = [(sc, rng.randint(0, 10**9), rng.choice(sizes if i % 7 == 0 else sizes[:5]), sc["cb"] != "none") for i, sc in enumerate(scs)]
    events = pmap(run_scenario, tasks)
    reached = validate_traces(run, "Trace_Inputs", [[e] for e in events], chunk=3000)
    for e, r in zip(events, reached):
        run.count()
        run.distinct(hash(json.dumps(e, sort_keys=True)))
        if r != 1:
            sc = e["sc"]
            wrong = _diagnose(e)
            key = f"{sc['prog']} write_input template={sc['template']} out={e['out']} mismatch={','.join(wrong) or 'outcome'}"
            run.violation(key, f"rendered input does not match Inputs!ExpectedText: {e}", {"event": e})
    for e in events[:3]:
        run.sample(e)
    run.assumptions += ["charges and spin polarisations are quarter-valued and away from rounding ties",
                        "element symbols come from the harness' own table; coordinates are compared to 6 decimals in angstrom "
                        "with the CODATA bohr-angstrom factor"]


def _diagnose(e):
    """Which rendered items differ (diagnostics for the finding key only; the verdict is TLC's)."""
    sc = e["sc"]
    if e["out"] != "ok":
        return []
    kwdef = {"gaussian": {"lot": "hf", "obasis_name": "sto-3g", "run_type": "sp"}, "orca": {"lot": "HF", "obasis_name": "STO-3G", "run_type": "Energy"}}
    tab = {"gaussian": {"energy": "sp", "energy_force": "force", "opt": "opt", "scan": "scan", "freq": "freq"},
           "orca": {"energy": "Energy", "freq": "Freq", "opt": "Opt"}}
    wrong = []
    for f in e["fields"]:
        t = e["text"][f]
        if f in sc["kwargs"]:
            exp = str(KW[f])
        elif f in ("title", "lot", "obasis_name"):
            exp = AT[f] if f in sc["attrs"] else ("Input Generated by IOData" if f == "title" else kwdef[sc["prog"]][f])
        elif f == "run_type":
            exp = tab[sc["prog"]].get(sc["rt"][0], t) if sc["rt"] else kwdef[sc["prog"]]["run_type"]
        elif f == "charge":
            exp = str((sc["charge"][0] + 2) // 4) if sc["charge"] else "0"
        else:
            exp = str((abs(sc["spinpol"][0]) + 2) // 4 + 1) if sc["spinpol"] else "1"
        if t != exp:
            wrong.append(f"{f}({'neg-frac' if f == 'charge' and sc['charge'] and sc['charge'][0] < 0 else 'value'})")
    g = e["geom"]
    if g["nlines"] != g["natom"]:
        wrong.append("geometry-line-count")
    if not g["symbols_ok"]:
        wrong.append("geometry-symbols")
    if not g["coords_ok"]:
        wrong.append("geometry-coordinates")
    return wrong


def replay(rec):
    print(json.dumps(rec["detail"]["event"], indent=1)[:3000])
    return 1
