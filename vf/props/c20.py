"""C20 -- numerical helpers return what their documentation says.

Spec: spec/Kernels.tla.  TLC runs the congruence machine (D, S) -> (E D E^T, E^-T S E^-1) as a state
machine (the carried spectrum stays the spectrum of D S; symmetry is preserved) and checks the
orbit / Gram-determinant / vocabulary laws.  The real set_four_index_element (every quadruple, n <= 6),
strtobool (all case variants of the vocabulary and other strings), volume (all 1-3 integer vectors
with components in -2..2) and derive_naturals / check_dm (TLC-simulated behaviours of the machine for
sizes 2-3, block-diagonal compositions up to size 12) are executed and validated by Trace_Kernels.
"""

from __future__ import annotations

import itertools
import json
import random

import numpy as np

from ..core import Run
from ..par import pmap
from ..tlaparse import state_vars
from ..tlc import run_tlc, simulate_behaviours, validate_traces

LEVEL = "model_checking"


def four_index_events(n):
    from iodata.utils import set_four_index_element
    evs = []
    for q in itertools.product(range(n), repeat=4):
        a = np.zeros((n, n, n, n))
        try:
            set_four_index_element(a, *q, 7.5)
        except Exception:  # noqa: BLE001
            evs.append({"op": "FourIndex", "n": n, "q": list(q), "changed": []})
            continue
        changed = [[int(x) for x in idx] for idx in np.argwhere(a != 0.0)]
        ok_val = bool(np.all(a[a != 0.0] == 7.5))
        evs.append({"op": "FourIndex", "n": n, "q": list(q), "changed": changed if ok_val else []})
    return evs


def four_index_overwrite_events(n):
    """Assignment into an array that already holds data: exactly the eight positions take the new value (also when it is zero)."""
    from iodata.utils import set_four_index_element
    evs = []
    for q in itertools.product(range(n), repeat=4):
        for value in (0.0, -2.25):
            a = np.full((n, n, n, n), 3.0)
            try:
                set_four_index_element(a, *q, value)
            except Exception:  # noqa: BLE001
                evs.append({"op": "FourIndex", "n": n, "q": list(q), "changed": [], "prefilled": True, "value": value})
                continue
            changed = [[int(x) for x in idx] for idx in np.argwhere(a != 3.0)]
            ok_val = bool(np.all(a[a != 3.0] == value))
            evs.append({"op": "FourIndex", "n": n, "q": list(q), "changed": changed if ok_val else [], "prefilled": True, "value": value})
    return evs


def strbool_events(rng, nrandom):
    from iodata.utils import strtobool
    words = ["y", "yes", "t", "true", "on", "1", "n", "no", "f", "false", "off", "0"]
    cand = set()
    for w in words:
        for mask in itertools.product([0, 1], repeat=len(w)):
            cand.add("".join(c.upper() if m else c for c, m in zip(w, mask)))
        cand |= {w + " ", " " + w, w + "s", w[:-1], w + w, w.capitalize() + "\n"}
    cand |= {"", "2", "-1", "10", "00", "yess", "nope", "tru", "fals", "o", "of", "onn", "None", "Tʀue", "K", "ｙ",
             "ı", "yeſ", "İ", "enabled", "disabled", "TRUE.", ".true.", "ok", "nil"}
    alphabet = "yestrunofalYESTRUNOFAL01 ."
    for _ in range(nrandom):
        cand.add("".join(rng.choice(alphabet) for _ in range(rng.randint(1, 5))))
    evs = []
    for s in sorted(cand):
        try:
            r = "true" if strtobool(s) is True else "false"
        except ValueError:
            r = "ValueError"
        except Exception as exc:  # noqa: BLE001
            r = "other:" + type(exc).__name__
        codes = [min(ord(c), 65535) for c in s]
        evs.append({"op": "StrBool", "s": s, "codes": codes, "r": r})
    return evs


def volume_events(rmax, rng, cap):
    from iodata.utils import volume
    comps = list(itertools.product(range(-rmax, rmax + 1), repeat=3))
    sets = [[v] for v in comps]
    sets += [[a, b] for a in comps for b in comps]
    triples = [[a, b, c] for a in comps for b in comps for c in comps]
    if len(triples) > cap:
        triples = rng.sample(triples, cap)
    sets += triples
    evs = []
    for vs in sets:
        try:
            v = float(volume(np.array(vs, dtype=float)))
        except Exception:  # noqa: BLE001 - the helper is total on 1-3 vectors: an exception is a verdict, not a harness failure
            evs.append({"op": "Volume", "vecs": [list(x) for x in vs], "sq": -1, "exact": False, "nonneg": False})
            continue
        if not np.isfinite(v):
            evs.append({"op": "Volume", "vecs": [list(x) for x in vs], "sq": -1, "exact": False, "nonneg": False})
            continue
        sq = v * v
        evs.append({"op": "Volume", "vecs": [list(x) for x in vs], "sq": int(round(sq)), "exact": bool(abs(sq - round(sq)) < 1e-9),
                    "nonneg": bool(v >= 0.0)})
    return evs


def scaled(D, S, den, ks):
    """The machine state (D, S) in the basis whose i-th function is multiplied by 10^-ks[i]: S -> T S T, D -> T^-1 D T^-1.
    This is the congruence step of Kernels.tla with E = T^-1 (rational diagonal), so D S keeps its spectrum; the overlap becomes
    ill-conditioned but stays symmetric positive definite."""
    Df = np.array(D, dtype=float) / den
    Sf = np.array(S, dtype=float)
    if ks is None:
        return Df, Sf, np.ones(len(D))
    t = 10.0 ** (-np.array(ks, dtype=float))
    return Df / np.outer(t, t), Sf * np.outer(t, t), t


def naturals_event(D, S, spec, den, ks=None):
    """D, S: integer matrices (lists); spec: integer spectrum of D S; occupations = spec/den."""
    from iodata.utils import derive_naturals
    Df, Sf, t = scaled(D, S, den, ks)
    ev = {"op": "Naturals", "D": D, "S": S, "spec": list(spec), "den": den, "ks": list(ks or []), "sdtype": "float64"}
    if ks is None:
        # the overlap of the machine state is an integer matrix: hand it over as such, or in single precision (exactly representable)
        pick = (sum(sum(abs(x) for x in row) for row in S) + len(D)) % 4
        if pick == 1:
            Sf = np.array(S, dtype=np.int64)
            ev["sdtype"] = "int64"
        elif pick == 2 and np.abs(np.array(S)).max() < 2 ** 20:
            Sf = np.array(S, dtype=np.float32)
            ev["sdtype"] = "float32"
    try:
        coeffs, occs = derive_naturals(Df, Sf)
        want = np.sort(np.array(spec, dtype=float) / den)
        scale = max(1.0, float(np.abs(np.array(D)).max()) / den, float(np.abs(np.array(S)).max())) ** 2
        ev["occ_match"] = bool(occs.shape == want.shape and np.allclose(np.sort(occs), want, atol=1e-7 * scale))
        ev["orthonormal"] = bool(coeffs.shape == (len(D), len(D)) and np.allclose(coeffs.T @ Sf @ coeffs, np.eye(len(D)), atol=1e-8 * scale))
        # compared in the unscaled basis
        ev["reconstruct"] = bool(np.allclose(((coeffs * occs) @ coeffs.T) * np.outer(t, t), np.array(D, dtype=float) / den, atol=1e-6 * scale))
    except Exception:  # noqa: BLE001
        ev["occ_match"] = ev["orthonormal"] = ev["reconstruct"] = False
    return ev


def checkdm_event(D, S, spec, den, eps, occ_max, ks=None):
    from iodata.utils import check_dm
    K = 10**6
    Df, Sf, _t = scaled(D, S, den, ks)
    try:
        check_dm(Df, Sf, eps=eps, occ_max=occ_max)
        acc = True
    except ValueError:
        acc = False
    # spec[i]/den in [-eps, occ_max+eps]  <=>  spec[i]*K in [-eps*K*den, (occ_max+eps)*K*den]
    return {"op": "CheckDm", "D": D, "S": S, "spec": list(spec), "k": K, "lo": int(round(-eps * K * den)),
            "hi": int(round((occ_max + eps) * K * den)), "accepted": acc, "eps": eps, "occ_max": occ_max, "den": den}


def checkdm_edge_events(rng, n_events):
    """Occupations a few millionths inside / outside the accepted interval [-eps, occ_max + eps] (scaled by den = 10^6 to integers):
    the interval has no hidden slack.  D = E diag(occ) E^T, S = E^-T E^-1 for a unimodular integer E, so the occupations are the
    spectrum by construction (not re-derived by TLC: the power sums would exceed its 32-bit integers)."""
    from iodata.utils import check_dm
    den = 10 ** 6
    evs = []
    for _ in range(n_events):
        n = rng.randint(1, 5)
        eps, occ_max = rng.choice([(1e-4, 1.0), (1e-4, 2.0), (1e-3, 1.0), (1e-5, 2.0)])
        lo, hi = -int(round(eps * den)), int(round((occ_max + eps) * den))
        spec = [rng.choice([0, den // 2, int(occ_max * den), rng.randint(0, int(occ_max * den))]) for _ in range(n)]
        which = rng.randrange(n)
        spec[which] = rng.choice([hi + 3, hi - 3, hi + 8, lo - 3, lo + 3, hi + 1, lo - 1])
        E = np.eye(n)
        for _k in range(rng.randint(0, 4)):
            i, j = rng.randrange(n), rng.randrange(n)
            if i != j:
                E[i] += rng.choice([-1, 1]) * E[j]
        Einv = np.round(np.linalg.inv(E))
        Df = E @ np.diag(np.array(spec, dtype=float) / den) @ E.T
        Sf = Einv.T @ Einv
        try:
            check_dm(Df, Sf, eps=eps, occ_max=occ_max)
            acc = True
        except ValueError:
            acc = False
        except Exception:  # noqa: BLE001
            acc = None
        evs.append({"op": "CheckDmEdge", "spec": spec, "lo": lo, "hi": hi, "accepted": bool(acc) if acc is not None else False,
                    "raised_other": acc is None, "eps": eps, "occ_max": occ_max, "n": n})
    return evs


def block_diag(mats):
    n = sum(len(m) for m in mats)
    out = [[0] * n for _ in range(n)]
    o = 0
    for m in mats:
        for i, row in enumerate(m):
            for j, v in enumerate(row):
                out[o + i][o + j] = int(v)
        o += len(m)
    return out


def _nat_batch(items):
    return [naturals_event(*it) for it in items]


def check(run: Run):
    rng = random.Random(run.seed)
    run.cov["rule"] = (
        "four-index: every quadruple for n = 1..4 (quick) / 1..6 (thorough); strtobool: every letter-case variant of the 12 "
        "documented words, near-misses, non-ASCII look-alikes and random strings; volume: every set of 1, 2 and (sampled) 3 "
        "integer vectors with components in -2..2 incl. left-handed, permuted and degenerate sets; derive_naturals/check_dm: "
        "states of TLC-simulated behaviours of the congruence machine (sizes 2-3) and block-diagonal compositions up to "
        "size 12 with degenerate and zero occupations; distinct by content")
    for cfg in (["MC_Kernels_quick.cfg"] if not run.thorough() else ["MC_Kernels_quick.cfg", "MC_Kernels_thorough.cfg"]):
        st = run_tlc(run, "MC_Kernels", cfg, workers=16, timeout=900, tag=cfg[:-4])
        run.add_model(st)
    events = []
    for n in range(1, run.pick(4, 6) + 1):
        events += four_index_events(n)
    for n in range(1, run.pick(3, 5) + 1):
        events += four_index_overwrite_events(n)
    events += strbool_events(rng, run.pick(300, 10000))
    events += volume_events(2, rng, run.pick(3000, 200000))
    # spec -> code: behaviours of the congruence machine
    pool = []
    for cfg, num in (("MC_Kernels_quick.cfg", run.pick(60, 400)), ("MC_Kernels_thorough.cfg", run.pick(40, 400))):
        behs = simulate_behaviours(run, "MC_Kernels", cfg, num=num, depth=6, seed=run.seed + 3)
        for beh in behs:
            for _, text in beh:
                sv = state_vars(text)
                D = [list(r) for r in sv["D"]]
                S = [list(r) for r in sv["S"]]
                pool.append((D, S, list(sv["spec"])))
    uniq = {json.dumps(p): p for p in pool}
    pool = list(uniq.values())
    run.notes["machine_states_replayed"] = len(pool)
    items = [(D, S, spec, 2) for D, S, spec in pool]
    for _ in range(run.pick(150, 6000)):
        k = rng.randint(2, 5)
        parts = [rng.choice(pool) for _ in range(k)]
        if sum(len(p[0]) for p in parts) > 12:
            continue
        items.append((block_diag([p[0] for p in parts]), block_diag([p[1] for p in parts]), [x for p in parts for x in p[2]], 2))
    # the same states in badly scaled bases: valid overlaps with eigenvalues down to about 1e-9
    for D, S, spec, den in items[:: max(1, len(items) // run.pick(200, 5000))]:
        ks = [rng.choice([0, 0, 2, 3, 4]) for _ in D]
        if any(ks):
            items.append((D, S, spec, den, ks))
    for sub in pmap(_nat_batch, [items[i::16] for i in range(16)], chunksize=1):
        events += sub
    for it in items[:: max(1, len(items) // run.pick(300, 2000))] + [it for it in items if len(it) == 5][: run.pick(150, 1500)]:
        for eps, occ_max in ((1e-4, 1.0), (1e-4, 2.0), (0.3, 1.0), (1e-4, 1.5)):
            events.append(checkdm_event(it[0], it[1], it[2], it[3], eps, occ_max, it[4] if len(it) == 5 else None))
    events += checkdm_edge_events(rng, run.pick(400, 20000))
    reached = validate_traces(run, "Trace_Kernels", [[e] for e in events], chunk=3000)
    kinds = {}
    for e, r in zip(events, reached):
        run.count()
        kinds[e["op"]] = kinds.get(e["op"], 0) + 1
        run.distinct(hash(json.dumps(e, sort_keys=True)))
        if r != 1:
            if e["op"] == "FourIndex":
                key, what = f"set_four_index_element fills {len(e['changed'])} positions not the orbit (pattern {_pattern(e['q'])})", str(e)
            elif e["op"] == "StrBool":
                key, what = f"strtobool({e['s']!r}) -> {e['r']}", "differs from the documented vocabulary (case-insensitive)"
            elif e["op"] == "Volume":
                hand = "left-handed" if len(e["vecs"]) == 3 and np.linalg.det(np.array(e["vecs"], float)) < 0 else "other"
                key = f"volume nvec={len(e['vecs'])} {hand} nonneg={e['nonneg']} sq_matches_gram={e['exact']}"
                what = f"volume of {e['vecs']} is not the non-negative root of the Gram determinant: {e}"
            elif e["op"] == "Naturals":
                key = f"derive_naturals n={len(e['D'])} overlap-dtype={e.get('sdtype')} occ_match={e['occ_match']} orthonormal={e['orthonormal']} reconstruct={e['reconstruct']}"
                what = str(e)
            elif e["op"] == "CheckDmEdge":
                off = max([x - e["hi"] for x in e["spec"]] + [e["lo"] - x for x in e["spec"]])
                key = f"check_dm at the edge of the interval: occupation {'outside by' if off > 0 else 'inside by'} {abs(off)}e-6 accepted={e['accepted']} occ_max={e['occ_max']}"
                what = str(e)
            else:
                key = f"check_dm n={len(e['D'])} eps={e['eps']} occ_max={e['occ_max']} accepted={e['accepted']}"
                what = str(e)
            run.violation(key, what, {"event": e})
    run.notes["events_by_kind"] = kinds
    for k in kinds:
        run.sample(next(e for e in events if e["op"] == k))
    run.assumptions += ["floating-point comparisons of derive_naturals use tolerances 1e-8..1e-7 times the squared matrix scale",
                        "occupations of the machine states are placed at least 0.2 away from the acceptance boundaries of check_dm; the CheckDmEdge "
                        "events probe the boundaries at distances of 1e-6 .. 8e-6 with spectra known by construction"]


def _pattern(q):
    m = {}
    return "".join(chr(97 + m.setdefault(x, len(m))) for x in q)


def replay(rec):
    print(json.dumps(rec["detail"]["event"])[:2000])
    return 1
