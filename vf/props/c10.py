"""C10 -- basis-function convention conversion is an exact signed permutation.

Spec: spec/Conventions.tla.  TLC (MC_Conventions) walks the Cayley graph of the signed permutation
group for n <= 3 (quick) / 4 (thorough) labels and checks the laws in every state and the
composition law along every edge.  Every convention table found in the live code base is exported
and checked by TLC (WellFormed); recorded calls of the real convert_conventions (pairs of tables,
all signed permutations of small shells, random bases x random conventions for l <= 9, composition
triples, all single-label corruptions) are validated against Convert/ConvertBasis by TLC.
"""

from __future__ import annotations

import importlib
import itertools
import json
import pkgutil
import random
import re

import numpy as np

from ..core import Run
from ..par import pmap
from ..tlc import run_tlc, validate_traces

LEVEL = "model_checking"

_BAD = {}


def parse_label(s: str):
    """'-xxy' -> (sign, [0,2,1,0]); 'c3' -> [1,0,3,0]; 's2' -> [1,1,2,0]; anything else -> [2,id,0,0]."""
    sign = 1
    body = s
    if body.startswith("-"):
        sign = -1
        body = body[1:]
    if body == "1":
        return sign, [0, 0, 0, 0]
    if body and set(body) <= set("xyz") and body == "x" * body.count("x") + "y" * body.count("y") + "z" * body.count("z"):
        return sign, [0, body.count("x"), body.count("y"), body.count("z")]
    m = re.fullmatch(r"([cs])(\d+)", body)
    if m and not (m.group(1) == "s" and int(m.group(2)) == 0) and not (len(m.group(2)) > 1 and m.group(2)[0] == "0"):
        return sign, [1, 0 if m.group(1) == "c" else 1, int(m.group(2)), 0]
    # the code strips every leading '-' (lstrip): '--x' is the label 'x' with sign -1
    stripped = s.lstrip("-")
    if stripped != body:
        sg, lab = parse_label(stripped)
        return -1, lab
    return sign, [2, _BAD.setdefault(body, len(_BAD) + 1), 0, 0]


def enc_conv(conv):
    out = []
    for s in conv:
        sg, lab = parse_label(s)
        out.append({"lab": lab, "sgn": sg})
    return out


def enc_table(table):
    return [{"l": int(k[0]), "kind": str(k[1]), "conv": enc_conv(v)} for k, v in table.items()]


def code_tables():
    """Every convention dictionary reachable in the code base: name -> dict."""
    import iodata.formats
    from iodata import convert, overlap
    from iodata.basis import MolecularBasis, Shell
    tables = {"HORTON2": convert.HORTON2_CONVENTIONS, "CCA": convert.CCA_CONVENTIONS,
              "OVERLAP": overlap.OVERLAP_CONVENTIONS}
    for mi in pkgutil.iter_modules(iodata.formats.__path__):
        mod = importlib.import_module("iodata.formats." + mi.name)
        for attr in dir(mod):
            if attr.endswith("CONVENTIONS") and isinstance(getattr(mod, attr), dict):
                t = getattr(mod, attr)
                if not any(t is x for x in tables.values()):
                    tables[f"{mi.name}.{attr}"] = t
    from iodata.formats import molden
    dummy = MolecularBasis([Shell(0, [0], ["c"], [1.0], [[1.0]])], dict(molden.CONVENTIONS), "L2")
    tables["molden._fix_obasis_orca"] = molden._fix_obasis_orca(dummy).conventions
    return tables


def call_convert(blocks, C1, C2, rev):
    """Run the real convert_conventions on a basis with the given (l, kind) blocks."""
    from iodata.basis import MolecularBasis, Shell
    from iodata.convert import convert_conventions
    shells = []
    for grp in blocks:  # grp: list of (l, kind) = one shell with len(grp) contractions
        shells.append(Shell(0, [b[0] for b in grp], [b[1] for b in grp], [1.0], np.ones((1, len(grp)))))
    try:
        basis = MolecularBasis(shells, C1, "L2")
        perm, sgn = convert_conventions(basis, C2, rev)
        return "ok", [int(x) + 1 for x in perm], [int(x) for x in sgn]
    except Exception:
        return "rejected", [], []


def ev_basis(blocks, C1, C2, rev):
    r, perm, sgn = call_convert(blocks, C1, C2, rev)
    flat = [[int(b[0]), str(b[1])] for grp in blocks for b in grp]
    keys = {(b[0], b[1]) for b in flat}
    sub1 = {k: v for k, v in C1.items() if k in keys}
    sub2 = {k: v for k, v in C2.items() if k in keys}
    return {"op": "Basis", "blocks": flat, "C1": enc_table(sub1), "C2": enc_table(sub2), "rev": bool(rev),
            "r": r, "perm": perm, "sgn": sgn}


def ev_convert(l, kind, c1, c2, rev, note=""):
    r, perm, sgn = call_convert([[(l, kind)]], {(l, kind): c1}, {(l, kind): c2}, rev)
    return {"op": "Convert", "c1": enc_conv(c1), "c2": enc_conv(c2), "rev": bool(rev), "r": r, "perm": perm,
            "sgn": sgn, "note": note, "key": [l, kind]}


def signed_perms(labels):
    for p in itertools.permutations(labels):
        for s in itertools.product(["", "-"], repeat=len(labels)):
            yield [sg + lab for sg, lab in zip(s, p)]


def random_conv(rng, base):
    labs = list(base)
    rng.shuffle(labs)
    return [("-" if rng.random() < 0.4 else "") + x.lstrip("-") for x in labs]


def random_tables(rng, lmax=9):
    from iodata.convert import HORTON2_CONVENTIONS as H
    t = {}
    for (l, k), v in H.items():
        if l <= lmax:
            t[(l, k)] = random_conv(rng, v)
    return t


def random_blocks(rng, nshell, lmax, keys):
    blocks = []
    for _ in range(nshell):
        style = rng.random()
        if style < 0.5:
            blocks.append([rng.choice(keys)])
        elif style < 0.7 and (0, "c") in keys and (1, "c") in keys:
            blocks.append([(0, "c"), (1, "c")])
        else:
            blocks.append([rng.choice(keys) for _ in range(rng.randint(2, 4))])
    return blocks


def _pair_events(task):
    n1, n2, t1, t2, seed = task
    rng = random.Random(seed)
    shared = sorted(set(t1) & set(t2))
    shared9 = [k for k in shared if k[0] <= 9]
    out = []
    for k in shared9:
        for rev in (False, True):
            e = ev_convert(k[0], k[1], t1[k], t2[k], rev, f"{n1}->{n2}")
            out.append(e)
    if shared9:
        for _ in range(2):
            blocks = random_blocks(rng, rng.randint(1, 4), 9, shared9)
            out.append(ev_basis(blocks, t1, t2, rng.random() < 0.5))
    return out


def corruptions(name, key, conv):
    """All single-label corruptions of one table entry: drop, duplicate, foreign label, kind flip."""
    l, kind = key
    out = []
    n = len(conv)
    positions = range(n) if n <= 12 else sorted({0, 1, n // 2, n - 2, n - 1})
    for i in positions:
        out.append(("drop", conv[:i] + conv[i + 1:]))
        if n > 1:
            out.append(("dup", conv[:i] + [conv[(i + 1) % n]] + conv[i + 1:]))
            # the same function twice, once with the opposite sign: a duplicate as much as the plain one
            other = conv[(i + 1) % n]
            out.append(("signed-dup", conv[:i] + [other[1:] if other.startswith("-") else "-" + other] + conv[i + 1:]))
        foreign = "x" * (l + 1) if kind == "c" else f"c{l + 1}"
        out.append(("foreign", conv[:i] + [foreign] + conv[i + 1:]))
        flip = f"c{l}" if kind == "c" else "x" * l
        if kind == "c" and l == 0:
            flip = "c0"
        out.append(("kindflip", conv[:i] + [flip] + conv[i + 1:]))
    return out


def _corruption_events(task):
    name, key, conv = task
    out = []
    for what, bad in corruptions(name, key, conv):
        for rev in (False, True):
            e = ev_convert(key[0], key[1], conv, bad, rev, f"{name}{key} {what}")
            out.append(e)
        e = ev_convert(key[0], key[1], bad, conv, False, f"{name}{key} {what} (source)")
        out.append(e)
        # both sides carry the same defect (e.g. the same table with a typo used as source and target)
        out.append(ev_convert(key[0], key[1], bad, bad, False, f"{name}{key} {what} (both)"))
        if len(bad) > 1:
            out.append(ev_convert(key[0], key[1], bad, bad[1:] + bad[:1], True, f"{name}{key} {what} (both, rotated)"))
    return out


def _random_basis_events(task):
    seed, n = task
    rng = random.Random(seed)
    out = []
    for _ in range(n):
        A, B, C = random_tables(rng), random_tables(rng), random_tables(rng)
        keys = sorted(A)
        blocks = random_blocks(rng, rng.randint(1, 4), 9, keys if rng.random() < 0.5 else [k for k in keys if k[0] <= 4])
        out.append(ev_basis(blocks, A, B, rng.random() < 0.5))
        # composition triple
        rab = call_convert(blocks, A, B, False)
        rbc = call_convert(blocks, B, C, False)
        rac = call_convert(blocks, A, C, False)
        rba = call_convert(blocks, B, A, False)
        flat = [[int(b[0]), str(b[1])] for grp in blocks for b in grp]
        ks = {(b[0], b[1]) for b in flat}
        sub = lambda T: enc_table({k: v for k, v in T.items() if k in ks})
        if all(x[0] == "ok" for x in (rab, rbc, rac, rba)):
            out.append({"op": "Compose", "blocks": flat, "CA": sub(A), "CB": sub(B), "CC": sub(C),
                        "pab": rab[1], "sab": rab[2], "pbc": rbc[1], "sbc": rbc[2], "pac": rac[1], "sac": rac[2],
                        "pba": rba[1], "sba": rba[2]})
        else:
            out.append({"op": "Basis", "blocks": flat, "C1": sub(A), "C2": sub(B), "rev": False, "r": "rejected",
                        "perm": [], "sgn": []})
    return out


def _allperm_events(task):
    l, kind, labels, c1s = task
    out = []
    for c1 in c1s:
        for c2 in signed_perms(labels):
            for rev in (False, True):
                out.append(ev_convert(l, kind, c1, c2, rev, "all signed permutations"))
    return out


def describe(ev):
    if ev["op"] == "Table":
        return (f"table {ev['name']} ({ev['l']},{ev['kind']}) not well-formed",
                f"convention table {ev['name']} entry ({ev['l']}, '{ev['kind']}') = {ev['raw']} does not list each function of the shell type exactly once")
    if ev["op"] == "Convert":
        note = ev.get("note", "")
        cls = re.sub(r"\(\d+, '[cp]'\)", "", note)
        cls = re.sub(r"^[\w.]+ ", "", cls) if "(" in note else cls
        return (f"convert shell-type {tuple(ev['key'])} [{note}] rev={ev['rev']} result={ev['r']}",
                f"convert_conventions on one shell type disagrees with Conventions!Convert: {ev}")
    if ev["op"] == "Basis":
        return (f"convert basis blocks={ev['blocks']} rev={ev['rev']} result={ev['r']}",
                f"convert_conventions on a basis disagrees with ConvertBasis: {ev}")
    return (f"compose blocks={ev['blocks']}", f"A->B->C differs from A->C or there-and-back is not the identity: {ev}")


def check(run: Run):
    rng = random.Random(run.seed)
    run.cov["rule"] = (
        "cases: every (l, kind) entry of every convention table in the code base (WellFormed); every ordered pair of "
        "tables x shared shell type x reverse flag; all signed permutations of the 1/3-label shells (and of 3 labels of "
        "a d shell in thorough) as source and target; random bases (1-4 shells, SP and generalized contractions, l <= 9) "
        "x random conventions incl. composition triples; every single-label corruption (drop, duplicate, foreign, "
        "kind flip) of every table entry with l <= 9; distinct by content")
    cfg = "MC_Conventions_thorough.cfg" if run.thorough() else "MC_Conventions_quick.cfg"
    st = run_tlc(run, "MC_Conventions", cfg, workers=16, timeout=1800, tag=cfg[:-4])
    run.add_model(st)

    tables = code_tables()
    run.notes["tables"] = {n: len(t) for n, t in tables.items()}
    events = []
    for name, t in tables.items():
        for (l, kind), conv in t.items():
            events.append({"op": "Table", "name": name, "l": int(l), "kind": str(kind), "conv": enc_conv(conv),
                           "raw": list(conv)})
    ntab = len(events)
    names = sorted(tables)
    tasks = [(a, b, tables[a], tables[b], run.seed + i) for i, (a, b) in enumerate(itertools.product(names, repeat=2))]
    for sub in pmap(_pair_events, tasks):
        events += sub
    # all signed permutations of small shells: s (1 label), p (3 labels): exhaustive pairs
    from iodata.convert import HORTON2_CONVENTIONS as H
    for (l, kind) in ((0, "c"), (1, "c")):
        labels = H[(l, kind)]
        allc = list(signed_perms(labels))
        tasks = [(l, kind, labels, allc[i:i + 4]) for i in range(0, len(allc), 4)]
        for sub in pmap(_allperm_events, tasks):
            events += sub
    # random bases and composition triples
    nb = run.pick(40, 3000)
    for sub in pmap(_random_basis_events, [(run.seed * 31 + i, 10) for i in range(nb)]):
        events += sub
    # corruptions
    ctasks = [(n, k, list(v)) for n, t in tables.items() for k, v in t.items() if k[0] <= run.pick(6, 9)]
    for sub in pmap(_corruption_events, ctasks):
        events += sub
    run.notes["table_entries"] = ntab

    traces = [[e] for e in events]
    reached = validate_traces(run, "Trace_Conventions", traces, chunk=3000)
    for e, r in zip(events, reached):
        run.count()
        run.distinct(hash(json.dumps(e, sort_keys=True)))
        if r != 1:
            key, what = describe(e)
            run.violation(key, what, {"event": e})
    for op in ("Table", "Convert", "Basis", "Compose"):
        for e in events:
            if e["op"] == op:
                run.sample(e)
                break
    run.assumptions += ["label strings are parsed by the harness (parse_label, ~20 lines)",
                        "convert_conventions is called through the public function on bases built for the case"]


def replay(rec):
    e = rec["detail"]["event"]
    print(json.dumps(e)[:2000])
    print("re-validating the recorded event against the specification (the tables come from the recording)")
    run = Run("C10", "quick", 0, LEVEL)
    r = validate_traces(run, "Trace_Conventions", [[e]])
    print("rejected" if r[0] != 1 else "accepted")
    return 1 if r[0] != 1 else 0
