"""C12 -- orbital and shell objects keep their derived quantities consistent.

Spec: spec/Orbitals.tla (orbitals state machine + shell shape rules).  TLC checks the invariants
on every construction and every bounded assignment sequence (MC_Orbitals); histories of the real
MolecularOrbitals class and constructions of the real Shell class are validated by Trace_Orbitals.
"""

from __future__ import annotations

import copy
import itertools
import random

import numpy as np

from ..core import Run
from ..par import pmap
from ..tlc import run_tlc, validate_traces

LEVEL = "model_checking"
U = 1 << 20
SENT = -7777
ARRMAP = {"occs": "occs", "amb": "occs_aminusb", "en": "energies", "irr": "irreps", "co": "coeffs"}


def q(x):
    v = float(x) * U
    if not np.isfinite(v) or abs(v - round(v)) > 1e-6 or abs(v) > 2**30:
        return SENT
    return int(round(v))


def qseq(a):
    if a is None:
        return []
    return [[q(x) for x in np.asarray(a, dtype=float).ravel()]]


def tagseq(a):
    if a is None:
        return []
    arr = np.asarray(a)
    if arr.ndim == 2:
        arr = arr[0]
    return [[int(x) for x in arr]]


def optint(x):
    return [] if x is None else [int(x)]


def _get(obj, name):
    """('ok', value) | ('NotImplementedError', None) | ('other', None)"""
    try:
        return "ok", getattr(obj, name)
    except NotImplementedError:
        return "NotImplementedError", None
    except Exception:
        return "other", None


SPIN_ATTRS = ["occsa", "occsb", "spinpol", "energiesa", "energiesb", "irrepsa", "irrepsb", "coeffsa", "coeffsb"]


def observe(mo):
    c = copy.deepcopy(mo)
    obs = {"kind": str(c.kind)}
    try:
        obs.update({
            "occs": qseq(c.occs), "amb": qseq(c.occs_aminusb),
            "nelec": [] if c.nelec is None else [q(c.nelec)],
            "norb": optint(c.norb),
            "en": tagseq(c.energies), "irr": tagseq(c.irreps), "co": tagseq(c.coeffs),
        })
    except Exception:
        obs["broken"] = 1
        return obs
    res = {a: _get(c, a) for a in SPIN_ATTRS}
    if c.kind == "generalized":
        leaks = [a for a, (st, _) in res.items() if st != "NotImplementedError"]
        if leaks:
            obs["leak"] = leaks  # spin-resolved access must be refused
        return obs
    if any(st != "ok" for st, _ in res.values()):
        obs["broken"] = 1
        return obs
    v = {a: res[a][1] for a in SPIN_ATTRS}
    obs.update({
        "occsa": qseq(v["occsa"]), "occsb": qseq(v["occsb"]),
        "spinpol": [] if v["spinpol"] is None else [q(v["spinpol"])],
        "ena": tagseq(v["energiesa"]), "enb": tagseq(v["energiesb"]),
        "irra": tagseq(v["irrepsa"]), "irrb": tagseq(v["irrepsb"]),
        "coa": tagseq(v["coeffsa"]), "cob": tagseq(v["coeffsb"]),
    })
    return obs


def classify(exc):
    if exc is None:
        return "ok"
    if isinstance(exc, NotImplementedError):
        return "NotImplementedError"
    return "rejected"


def mk_array(name, v):
    """v: None | list (occupations as floats; tags as ints)."""
    if v is None:
        return None
    if name == "co":
        return np.array([v], dtype=float).reshape(1, len(v))
    if name == "irr":
        return np.array(v, dtype=int)
    return np.array(v, dtype=float)


def enc_arr(name, v):
    if v is None:
        return []
    if name in ("occs", "amb"):
        return [[q(x) for x in v]]
    return [[int(x) for x in v]]


def new_mo(a):
    """a: dict kind, norba, norbb, occs, amb, en, irr, co (python-level). -> (mo|None, event)"""
    from iodata.orbitals import MolecularOrbitals
    ea = {"kind": a["kind"], "norba": optint(a["norba"]), "norbb": optint(a["norbb"])}
    for n in ARRMAP:
        ea[n] = enc_arr(n, a.get(n))
    ev = {"op": "New", "a": ea}
    try:
        mo = MolecularOrbitals(a["kind"], a["norba"], a["norbb"], **{ARRMAP[n]: mk_array(n, a.get(n)) for n in ARRMAP})
        ev["r"] = "ok"
        ev["obs"] = observe(mo)
    except Exception as exc:
        mo = None
        ev["r"] = classify(exc)
        ev["obs"] = {}
    return mo, ev


def apply_op(mo, op):
    kind = op[0]
    exc = None
    if kind == "SetArr":
        _, name, v = op
        ev = {"op": kind, "name": name, "v": enc_arr(name, v)}
        try:
            setattr(mo, ARRMAP[name], mk_array(name, v))
        except Exception as e:
            exc = e
    else:
        _, which, v = op
        ev = {"op": kind, "which": which, "v": [q(x) for x in v]}
        try:
            setattr(mo, "occs" + which, np.array(v, dtype=float))
        except Exception as e:
            exc = e
    ev["r"] = classify(exc)
    ev["obs"] = observe(mo)
    return ev


def run_history(a, ops):
    mo, ev = new_mo(a)
    tr = [ev]
    if mo is None:
        return tr
    for op in ops:
        tr.append(apply_op(mo, op))
    return tr


OCC = [0.0, 0.5, 1.0, 2.0]
OCC_EXTRA = [0.25, 1.5, 0.75]


def seqs(n, pool=OCC, cap=None, rng=None):
    allv = [list(t) for t in itertools.product(pool, repeat=n)]
    if cap and len(allv) > cap:
        allv = rng.sample(allv, cap)
    return allv


def alphabet(norb, nspin, rng, size):
    """Operations relevant for an object with `norb` orbitals (nspin = orbitals per spin)."""
    ops = [("SetArr", "occs", None), ("SetArr", "amb", None)]
    caps = {"small": (6, 3, 4), "mid": (12, 5, 8), "full": (40, 8, 16)}[size]
    lens_occ = sorted({norb, norb + 1, max(1, norb - 1)} - {0})
    for n in lens_occ:
        for v in seqs(n, OCC, caps[0] if n == norb else 2, rng):
            ops.append(("SetArr", "occs", v))
    for n in sorted({norb, norb + 1} - {0}):
        for v in seqs(n, [0.0, 1.0, -1.0], caps[1] if n == norb else 1, rng):
            ops.append(("SetArr", "amb", v))
    for which in "ab":
        for n in sorted({nspin, 1, nspin + 1} - {0}):
            for v in seqs(n, OCC, caps[2] if n == nspin else 2, rng):
                ops.append(("SetSpin", which, v))
    for name, base in (("en", 100), ("irr", 200), ("co", 300)):
        ops.append(("SetArr", name, None))
        ops.append(("SetArr", name, [base + i for i in range(norb)]))
        ops.append(("SetArr", name, [base + i for i in range(norb + 1)]))
    return ops


def initial_objects():
    objs = []
    for n in (1, 2):
        objs.append({"kind": "restricted", "norba": n, "norbb": n})
        objs.append({"kind": "restricted", "norba": n, "norbb": n, "occs": [2.0] * (n - 1) + [1.0],
                     "en": [100 + i for i in range(n)], "co": [300 + i for i in range(n)]})
        objs.append({"kind": "restricted", "norba": n, "norbb": n, "occs": [1.5] * n, "amb": [0.5] * n})
    objs.append({"kind": "unrestricted", "norba": 1, "norbb": 1, "occs": [1.0, 0.0]})
    objs.append({"kind": "unrestricted", "norba": 2, "norbb": 1, "occs": [1.0, 0.5, 1.0],
                 "en": [100, 101, 102], "irr": [200, 201, 202], "co": [300, 301, 302]})
    objs.append({"kind": "unrestricted", "norba": 1, "norbb": 2})
    objs.append({"kind": "generalized", "norba": None, "norbb": None, "occs": [1.0, 0.0]})
    objs.append({"kind": "generalized", "norba": None, "norbb": None, "co": [300, 301]})
    objs.append({"kind": "generalized", "norba": None, "norbb": None})
    return [{**{"occs": None, "amb": None, "en": None, "irr": None, "co": None}, **o} for o in objs]


def norb_of(a):
    if a["kind"] == "restricted":
        return a["norba"], a["norba"]
    if a["kind"] == "unrestricted":
        return a["norba"] + a["norbb"], a["norba"]
    for n in ("co", "occs", "en", "irr"):
        if a.get(n) is not None:
            return len(a[n]), 1
    return 2, 1


def _tree(task):
    a, depth, size, seed = task
    rng = random.Random(seed)
    norb, nspin = norb_of(a)
    alpha = alphabet(norb, nspin, rng, size)
    mo0, ev0 = new_mo(a)
    out = []
    if mo0 is None:
        return [[ev0]]

    def rec(mo, prefix, d):
        if d == 0:
            out.append(prefix)
            return
        for op in alpha:
            m2 = copy.deepcopy(mo)
            ev = apply_op(m2, op)
            rec(m2, prefix + [ev], d - 1)

    rec(mo0, [ev0], depth)
    return out


def construction_cases(rng, nrandom):
    cases = []
    kinds = ["restricted", "unrestricted", "generalized", "bogus"]
    counts = [None, 0, 1, 2, 3]
    for k in kinds:
        for na in counts:
            for nb in counts:
                for occs in (None, [1.0], [2.0, 1.0], [1.0, 1.0, 0.0]):
                    for amb in (None, [1.0], [0.0, 1.0]):
                        cases.append({"kind": k, "norba": na, "norbb": nb, "occs": occs, "amb": amb, "en": None, "irr": None, "co": None})
    for _ in range(nrandom):
        k = rng.choice(kinds[:3])
        na = rng.choice(counts)
        nb = rng.choice(counts)
        a = {"kind": k, "norba": na, "norbb": nb}
        for n, base in (("occs", None), ("amb", None), ("en", 100), ("irr", 200), ("co", 300)):
            ln = rng.choice([None, None, 1, 2, 3, 4, 6])
            if ln is None:
                a[n] = None
            elif base is None:
                a[n] = [rng.choice(OCC + OCC_EXTRA) for _ in range(ln)]
            else:
                a[n] = [base + i for i in range(ln)]
        cases.append(a)
    return cases


def _new_only(a):
    return [new_mo(a)[1]]


def _random_history(task):
    seed, length = task
    rng = random.Random(seed)
    kind = rng.choice(["restricted", "restricted", "unrestricted", "unrestricted", "generalized"])
    if kind == "restricted":
        n = rng.randint(0, 6)
        a = {"kind": kind, "norba": n, "norbb": n}
        norb, nspin = n, n
    elif kind == "unrestricted":
        na, nb = rng.randint(0, 6), rng.randint(0, 6)
        a = {"kind": kind, "norba": na, "norbb": nb}
        norb, nspin = na + nb, na
    else:
        a = {"kind": kind, "norba": None, "norbb": None}
        norb, nspin = rng.randint(1, 6), 1
    pool = OCC + OCC_EXTRA

    def rseq(n):
        style = rng.random()
        if style < 0.3:
            return [float(rng.choice([0, 1, 2])) for _ in range(n)]
        return [rng.choice(pool) for _ in range(n)]

    for nme in ARRMAP:
        a[nme] = None
    if rng.random() < 0.7 and norb > 0:
        a["occs"] = rseq(norb)
    if kind == "restricted" and rng.random() < 0.3 and norb > 0:
        a["amb"] = [rng.choice([0.0, 1.0, -1.0, 0.5]) for _ in range(norb)]
    if rng.random() < 0.5:
        a["en"] = [100 + i for i in range(norb)]
    if rng.random() < 0.5:
        a["co"] = [300 + i for i in range(norb)]
    if rng.random() < 0.3:
        a["irr"] = [200 + i for i in range(norb)]
    ops = []
    for _ in range(length):
        r = rng.random()
        wrong = rng.random() < 0.15
        if r < 0.3:
            n = norb + (rng.choice([-1, 1]) if wrong else 0)
            ops.append(("SetArr", "occs", None if rng.random() < 0.1 or n <= 0 else rseq(n)))
        elif r < 0.45:
            n = norb + (1 if wrong else 0)
            ops.append(("SetArr", "amb", None if rng.random() < 0.2 or n <= 0 else [rng.choice([0.0, 1.0, -1.0, 0.5]) for _ in range(n)]))
        elif r < 0.85:
            which = rng.choice("ab")
            ns = nspin if which == "a" or kind != "unrestricted" else norb - nspin
            n = ns + (rng.choice([-1, 1]) if wrong else 0)
            if wrong and rng.random() < 0.5:
                n = 1
            if n <= 0:
                n = 1
            ops.append(("SetSpin", which, rseq(n)))
        else:
            name, base = rng.choice([("en", 100), ("irr", 200), ("co", 300)])
            n = norb + (1 if wrong else 0)
            ops.append(("SetArr", name, None if rng.random() < 0.2 else [base + i for i in range(n)]))
    return run_history(a, ops)


# ---------------------------------------------------------------- shells
def shell_event(case):
    from iodata.basis import Shell
    nang, nkind, nexp, rows, cols, ang, kinds = case
    c = {"nang": nang, "nkind": nkind, "nexp": nexp, "rows": rows, "cols": cols, "ang": list(ang), "kinds": list(kinds)}
    ev = {"op": "Shell", "c": c, "nbasis": []}
    try:
        sh = Shell(0, list(ang), list(kinds), np.linspace(1.0, 2.0, nexp), np.ones((rows, cols)))
        ev["r"] = "ok"
        try:
            nb = sh.nbasis
            ev["nbasis"] = [int(nb)]
        except TypeError:
            ev["nbasis"] = []
        except Exception:
            ev["nbasis"] = [SENT]
        if sh.ncon != len(ang) or sh.nexp != nexp:
            ev["nbasis"] = [SENT]
    except Exception:
        ev["r"] = "rejected"
    return [ev]


def shell_set_event(case):
    """Assign one attribute of an existing consistent shell (nexp x ncon) a value of another shape."""
    from iodata.basis import Shell
    nexp, ncon, name, new = case
    sh = Shell(0, [0] * ncon, ["c"] * ncon, np.linspace(1.0, 2.0, nexp), np.ones((nexp, ncon)))
    c = {"nang": ncon, "nkind": ncon, "nexp": nexp, "rows": nexp, "cols": ncon}
    try:
        if name == "angmoms":
            c["nang"] = new
            sh.angmoms = [1] * new
        elif name == "kinds":
            c["nkind"] = new
            sh.kinds = ["c"] * new
        elif name == "exponents":
            c["nexp"] = new
            sh.exponents = np.linspace(1.0, 2.0, new)
        elif name == "coeffs_rows":
            c["rows"] = new
            sh.coeffs = np.ones((new, ncon))
        else:
            c["cols"] = new
            sh.coeffs = np.ones((nexp, new))
        r = "ok"
    except Exception:
        r = "rejected"
    return [{"op": "ShellSet", "c": c, "name": name, "r": r}]


def shell_nb_event(case):
    """Read nbasis, re-assign angular momenta / kinds (whole attribute, or one entry in place), read nbasis again."""
    from iodata.basis import Shell
    ang, kinds, ang2, kinds2, inplace = case
    n = len(ang)
    sh = Shell(0, list(ang), list(kinds), np.linspace(1.0, 2.0, 2), np.ones((2, n)))

    def nb():
        try:
            return [int(sh.nbasis)]
        except TypeError:
            return []
    nb1 = nb()
    if inplace:
        for i in range(n):
            sh.angmoms[i] = ang2[i]
            sh.kinds[i] = kinds2[i]
    else:
        sh.angmoms = list(ang2)
        sh.kinds = list(kinds2)
    nb2 = nb()
    return [{"op": "ShellNb", "ang": list(ang), "kinds": list(kinds), "ang2": list(ang2), "kinds2": list(kinds2), "inplace": inplace,
             "nb1": nb1, "nb2": nb2, "nb3": nb()}]


def shell_nb_cases(rng, thorough):
    types = [(0, "c"), (1, "c"), (2, "c"), (2, "p"), (3, "p"), (4, "c"), (1, "p"), (0, "p")]
    out = []
    for n in (1, 2):
        import itertools
        combos = list(itertools.product(types, repeat=n))
        pairs = [(a, b) for a in combos for b in combos if a != b]
        if not thorough:
            pairs = rng.sample(pairs, min(len(pairs), 300))
        for a, b in pairs:
            for inplace in (False, True):
                out.append(([t[0] for t in a], [t[1] for t in a], [t[0] for t in b], [t[1] for t in b], inplace))
    return out


def shell_set_cases():
    out = []
    for nexp in (1, 2, 3):
        for ncon in (1, 2, 3):
            for name in ("angmoms", "kinds", "exponents", "coeffs_rows", "coeffs_cols"):
                for new in (1, 2, 3, 4):
                    out.append((nexp, ncon, name, new))
    return out


def shell_cases(rng, thorough):
    cases = []
    ls = list(range(0, 10))
    rngs = range(1, 5) if thorough else range(1, 4)
    for nang in rngs:
        for nkind in rngs:
            for nexp in rngs:
                for rows in rngs:
                    for cols in rngs:
                        ang = [rng.choice(ls) for _ in range(nang)]
                        kinds = [rng.choice(["c", "p", "p", "c", "x"]) for _ in range(nkind)]
                        cases.append((nang, nkind, nexp, rows, cols, ang, kinds))
    # every (l, kind) single contraction incl. illegal combinations, and pairs
    for l in ls:
        for k in ("c", "p", "x", "P"):
            cases.append((1, 1, 2, 2, 1, [l], [k]))
    for l1, l2 in itertools.product(ls, repeat=2):
        for k1, k2 in itertools.product("cp", repeat=2):
            cases.append((2, 2, 1, 1, 2, [l1, l2], [k1, k2]))
    return cases


NEAR = [1.00001, 0.99999, 2 - 1e-9, 1 + 1e-12, 1e-7, 2.0, 1.0, 0.0, 0.5, 1.3, -1e-4, 2 + 1e-6]


def mo_laws_event(seed):
    """Occupations next to the integers (and slightly outside [0, 2]): the laws of the statement in floating point."""
    from iodata.orbitals import MolecularOrbitals
    rng = random.Random(seed)
    kind = rng.choice(["restricted", "restricted", "unrestricted"])
    n = rng.randint(1, 5)
    ev = {"op": "MoLaws", "kind": kind, "seed": seed, "spin_sum": True, "nelec_is_total": True, "spinpol_is_difference": True,
          "set_reads_back": True, "set_keeps_other": True, "amb": False, "msg": ""}
    try:
        if kind == "restricted":
            occs = np.array([rng.choice(NEAR) for _ in range(n)])
            amb = None
            if rng.random() < 0.4:
                amb = np.array([rng.choice([0.0, 1e-5, -1e-5, 0.5, 1.0]) for _ in range(n)])
                ev["amb"] = True
            mo = MolecularOrbitals("restricted", n, n, occs=occs, occs_aminusb=amb)
        else:
            nb_ = rng.randint(0, n)
            occs = np.array([rng.choice(NEAR[:10]) / 2 for _ in range(n + nb_)])
            mo = MolecularOrbitals("unrestricted", n, nb_, occs=occs)
        ev["occs"] = [float(x) for x in occs]
        tol = 1e-12 * max(1.0, float(np.abs(occs).max()))
        stored = occs if kind == "restricted" else None
        if kind == "restricted":
            ev["spin_sum"] = bool(np.allclose(mo.occsa + mo.occsb, stored, rtol=0, atol=tol))
        else:
            ev["spin_sum"] = bool(np.array_equal(np.concatenate([mo.occsa, mo.occsb]), occs))
        ev["nelec_is_total"] = bool(abs(mo.nelec - (mo.occsa.sum() + mo.occsb.sum())) <= 10 * tol)
        ev["spinpol_is_difference"] = bool(abs(mo.spinpol - abs(mo.occsa.sum() - mo.occsb.sum())) <= 10 * tol)
        # assign one spin channel: it reads back, the other one stays
        which = rng.choice(["a", "b"])
        norb_w = mo.norba if which == "a" else mo.norbb
        new = np.array([rng.choice(NEAR[:10]) / 2 for _ in range(norb_w)])
        other0 = np.array(mo.occsb if which == "a" else mo.occsa, dtype=float)
        if which == "a":
            mo.occsa = new
        else:
            mo.occsb = new
        got = mo.occsa if which == "a" else mo.occsb
        other1 = mo.occsb if which == "a" else mo.occsa
        ev["set_reads_back"] = bool(np.allclose(got, new, rtol=0, atol=1e-12))
        ev["set_keeps_other"] = bool(np.allclose(other1, other0, rtol=0, atol=1e-12))
    except Exception as exc:  # noqa: BLE001
        ev["msg"] = f"{type(exc).__name__}: {str(exc)[:80]}"
        ev["spin_sum"] = False
    return [ev]


def describe(tr, r):
    ev = tr[r]
    if ev["op"] == "MoLaws":
        bad = [k for k in ("spin_sum", "nelec_is_total", "spinpol_is_difference", "set_reads_back", "set_keeps_other") if not ev[k]]
        return (f"MO laws on near-integer occupations [{ev['kind']}{' +aminusb' if ev['amb'] else ''}]: {','.join(bad)} {ev['msg'][:40]}",
                f"a law of the statement fails in floating point: {ev}")
    prev = tr[r - 1]["obs"] if r > 0 else {}
    if ev["op"] == "ShellSet":
        c = ev["c"]
        return (f"Shell assignment of {ev['name']} giving ang={c['nang']} kinds={c['nkind']} exp={c['nexp']} coeffs={c['rows']}x{c['cols']} result={ev['r']}",
                f"assignment to an attribute of an existing Shell disagrees with Orbitals!ShapeOK: {ev}")
    if ev["op"] == "ShellNb":
        stale = ev["nb2"] == ev["nb1"] and ev["nb2"] != ev["nb3"]
        return (f"Shell.nbasis after re-assigning angmoms/kinds ({'in place' if ev['inplace'] else 'attribute'}) is not the count of the new shell"
                + (" (stale)" if ev["nb2"] == ev["nb1"] else ""), f"nbasis does not follow the angular momenta and kinds: {ev}")
    if ev["op"] == "Shell":
        c = ev["c"]
        key = f"Shell shapes ang={c['nang']} kinds={c['nkind']} exp={c['nexp']} coeffs={c['rows']}x{c['cols']} result={ev['r']} nbasis={'set' if ev['nbasis'] else 'error'}"
        return key, f"Shell construction/nbasis disagrees with Orbitals!ShapeOK/NBasis: {ev}"
    kind = tr[0]["a"]["kind"]
    changed = sorted(k for k in set(prev) | set(ev.get("obs", {})) if prev.get(k) != ev.get("obs", {}).get(k)) if prev else []
    if ev["op"] == "New":
        cls = f"New[{kind}] arrays=" + "+".join(n for n in ARRMAP if ev["a"][n])
    elif ev["op"] == "SetArr":
        norb = (prev.get("norb") or [None])[0]
        ln = None if not ev["v"] else len(ev["v"][0])
        lc = "None" if ln is None else ("match" if ln == norb or norb is None else "mismatch")
        cls = f"{kind} Set[{ev['name']}] len={lc}"
    else:
        a = tr[0]["a"]
        nspin = None
        if kind != "generalized":
            nspin = (a["norba"] if ev["which"] == "a" or kind == "restricted" else a["norbb"])[0]
        ln = len(ev["v"])
        lc = "match" if ln == nspin else ("broadcast-len1" if ln == 1 else "mismatch")
        cls = f"{kind} Set[occs{ev['which']}] len={lc} occs={'set' if prev.get('occs') else 'None'} amb={'set' if prev.get('amb') else 'None'}"
    flags = []
    o = ev.get("obs", {})
    if o.get("spinpol") and o["spinpol"][0] < 0:
        flags.append("negative-spinpol")
    if "leak" in o:
        flags.append("spin-access-not-refused")
    if "broken" in o:
        flags.append("unreadable")
    key = f"MO {cls} result={ev['r']}" + (" " + ",".join(flags) if flags else "")
    what = f"event {r + 1} is not a behaviour of Orbitals.tla: {dict((k, ev[k]) for k in ev if k != 'obs')}; before={prev}; after={o}; changed={changed}"
    return key, what


def check(run: Run):
    rng = random.Random(run.seed)
    run.cov["rule"] = (
        "orbital histories = New(kind, counts, arrays) then assignments of occs/occs_aminusb/occsa/occsb/energies/"
        "irreps/coeffs (right and wrong lengths) over the alphabet {0,.25,.5,.75,1,1.5,2}; exhaustive trees to a depth "
        "from a set of initial objects, all construction argument combinations, seeded random histories with up to "
        "6 orbitals per spin; shell constructions over all small shape tuples and every (l, kind); distinct by "
        "content, non-trivial = at least one assignment or a construction with arrays")
    cfg = "MC_Orbitals.cfg" if run.thorough() else "MC_Orbitals_quick.cfg"
    st = run_tlc(run, "MC_Orbitals", cfg, workers=16, timeout=2400, tag=cfg[:-4])
    run.add_model(st)

    traces = []
    depth = run.pick(2, 3)
    size = run.pick("mid", "small")
    tasks = [(a, depth, size, run.seed + i) for i, a in enumerate(initial_objects())]
    if run.thorough():
        tasks += [(a, 2, "full", run.seed + 100 + i) for i, a in enumerate(initial_objects())]
    for sub in pmap(_tree, tasks, chunksize=1):
        traces += sub
    ntree = len(traces)
    for sub in pmap(_new_only, construction_cases(rng, run.pick(500, 5000))):
        traces.append(sub)
    base = run.seed * 7919
    traces += pmap(_random_history, [(base + i, run.pick(8, 14)) for i in range(run.pick(3000, 40000))])
    nmo = len(traces)
    traces += pmap(shell_event, shell_cases(rng, run.thorough()))
    traces += pmap(shell_set_event, shell_set_cases())
    traces += pmap(shell_nb_event, shell_nb_cases(rng, run.thorough()))
    traces += pmap(mo_laws_event, [run.seed * 104729 + i for i in range(run.pick(1500, 30000))])
    run.notes["tree_histories"] = ntree
    run.notes["shell_cases"] = len(traces) - nmo

    reached = validate_traces(run, "Trace_Orbitals", traces, chunk=6000)
    import json
    for tr, r in zip(traces, reached):
        run.count()
        if len(tr) > 1 or tr[0]["op"] in ("Shell", "ShellSet", "ShellNb", "MoLaws") or any(tr[0]["a"][n] for n in ARRMAP):
            run.distinct(hash(json.dumps([{k: e[k] for k in e if k != "obs"} for e in tr], sort_keys=True)))
        if r != len(tr):
            key, what = describe(tr, r)
            run.violation(key, what, {"trace": tr, "failing_event": r + 1})
    # the rule language of the shape validators themselves
    run.add_model(run_tlc(run, "MC_ShapeRules", "MC_ShapeRules.cfg", workers=4, timeout=600, tag="MC_ShapeRules"))
    sev = shape_rule_events(rng, run.thorough())
    sreached = validate_traces(run, "Trace_ShapeRules", [[e] for e in sev], chunk=8000)
    for e, r in zip(sev, sreached):
        run.count()
        run.distinct(hash(json.dumps(e, sort_keys=True)))
        if r != 1:
            run.violation(f"validate_shape rules={[x[0] for x in e['reqs']]} rank={len(e['shape'])} -> {e['out']}", json.dumps(e), {"trace": [e], "failing_event": 1})
    run.notes["shape_rule_cases"] = len(sev)
    for tr in (traces[0], traces[ntree - 1], traces[nmo - 1], traces[-1]):
        run.sample(tr)
    run.assumptions += [
        "occupations live on a 2^-20 grid (alphabet multiples of 1/4, histories <= 16 steps: halving stays exact)",
        "occsa/occsb are never assigned None (documented type is an array)",
        "observables are read from a deep copy",
    ]


# ------------------------------------------------------------------ the shape-rule language (spec/ShapeRules.tla)
def shape_rule_events(rng, thorough):
    """Every rule sequence x observed shape x object of the bounded universe of ShapeRules.tla, through the real validator."""
    import itertools
    from iodata.attrutils import validate_shape
    reqs1 = [("int", 0), ("int", 1), ("int", 2), ("any",), ("attr", "n"), ("axis", "a", 0), ("axis", "a", 1), ("axis", "a", 2)]
    seqs = [[r] for r in reqs1] + [[r, q] for r in reqs1 for q in reqs1]
    shapes = [list(s) for n in (1, 2, 3) for s in itertools.product(range(3), repeat=n)]
    others = [None, (1,), (2,), (1, 2), (2, 0), (2, 1, 2)]
    ints = [None, 0, 1, 2]

    class Obj:
        pass

    class Attr:
        name = "value"

    def native(r):
        return r[1] if r[0] == "int" else None if r[0] == "any" else r[1] if r[0] == "attr" else (r[1], r[2])

    cases = [(sq, sh, n, a) for sq in seqs for sh in shapes for n in ints for a in others]
    if not thorough:
        cases = rng.sample(cases, 12000)
    evs = []
    for sq, sh, n, a in cases:
        o = Obj()
        o.n = n
        o.a = None if a is None else np.zeros(a)
        value = np.zeros(sh)
        if len(sh) == 1 and rng.random() < 0.3:
            value = [0.0] * sh[0]                 # a plain iterable: only its length is known
        try:
            validate_shape(*[native(r) for r in sq])(o, Attr(), value)
            out = "ok"
        except TypeError:
            out = "TypeError"
        except Exception as exc:  # noqa: BLE001
            out = "other:" + type(exc).__name__
        evs.append({"op": "ShapeRule", "reqs": [list(r) for r in sq], "shape": sh,
                    "obj": {"n": [] if n is None else ["int", n], "a": [] if a is None else ["arr", list(a)]}, "out": out})
    return evs


def replay(rec):
    tr = rec["detail"]["trace"]
    print("recorded trace (failing event %d):" % rec["detail"]["failing_event"])
    for e in tr[: rec["detail"]["failing_event"]]:
        print("  ", {k: e[k] for k in e if k != "obs"})
    run = Run("C12", "quick", 0, LEVEL)
    # re-execute
    if tr[0]["op"] in ("ShellSet", "ShapeRule", "ShellNb"):
        print("re-run ./check C12 to re-execute shell assignments / shape rules")
        return 1
    if tr[0]["op"] == "Shell":
        c = tr[0]["c"]
        new = shell_event((c["nang"], c["nkind"], c["nexp"], c["rows"], c["cols"], c["ang"], c["kinds"]))
    else:
        a = tr[0]["a"]

        def dec(n, v):
            if not v:
                return None
            return [x / U for x in v[0]] if n in ("occs", "amb") else list(v[0])
        args = {"kind": a["kind"], "norba": a["norba"][0] if a["norba"] else None, "norbb": a["norbb"][0] if a["norbb"] else None}
        for n in ARRMAP:
            args[n] = dec(n, a[n])
        ops = []
        for e in tr[1:]:
            if e["op"] == "SetArr":
                ops.append(("SetArr", e["name"], dec(e["name"], e["v"])))
            else:
                ops.append(("SetSpin", e["which"], [x / U for x in e["v"]]))
        new = run_history(args, ops)
    reached = validate_traces(run, "Trace_Orbitals", [new])
    if reached[0] != len(new):
        key, what = describe(new, reached[0])
        print("REPRODUCED:", key)
        print(what)
        return 1
    print("not reproduced on the current tree")
    return 0
