"""C11 -- charge / electron count / core charges stay consistent under any assignments.

Spec: spec/IODataObj.tla.  TLC model-checks the nine properties on a bounded instance
(MC_IODataObj); recorded histories of the real IOData class are validated against the same
operators by Trace_IODataObj (code -> spec); TLC-simulated behaviours of the model are replayed
into the real class and validated the same way (spec -> code).
"""

from __future__ import annotations

import copy
import itertools
import random
import re

import numpy as np

from ..core import Run
from ..par import pmap
from ..tlc import run_tlc, simulate_behaviours, validate_traces
from ..tlaparse import parse_value

LEVEL = "model_checking"

ARR = ["atcoords", "atgradient", "atfrozen", "atmasses"]
SENT = -7777


def q4(x):
    if x is None:
        return []
    v = float(x) * 4
    if not np.isfinite(v) or abs(v - round(v)) > 1e-6:
        return [SENT]
    return [int(round(v))]


def q4seq(a):
    if a is None:
        return []
    out = []
    for x in np.asarray(a, dtype=float).ravel():
        out.append(q4(x)[0])
    return [out]


def mk_mo(tag):
    from iodata.orbitals import MolecularOrbitals
    if tag is None:
        return None
    if tag == "r21":
        return MolecularOrbitals("restricted", 2, 2, occs=[2.0, 1.0])
    if tag == "rnone":
        return MolecularOrbitals("restricted", 2, 2)
    if tag == "u1110":
        return MolecularOrbitals("unrestricted", 2, 2, occs=[1.0, 1.0, 1.0, 0.0])
    if tag == "r22":
        return MolecularOrbitals("restricted", 2, 2, occs=[2.0, 2.0])
    raise ValueError(tag)


# abstract value of each orbital object: [n, s] in quarters (independent of the code under test)
MO_ABS = {"r21": {"n": [12], "s": [4]}, "rnone": {"n": [], "s": []}, "u1110": {"n": [12], "s": [4]},
          "r22": {"n": [16], "s": [0]}}

ATN = [None, [1], [1, 8], [6, 1], [8], []]
CORE = [None, [1.0], [0.5], [0.0, 8.0], [1.0, 5.75], []]
QS = [None, -1.0, 0.5, 1.0, 0.0]
NES = [None, 0.0, 1.5, 9.0, 10.0]
SPS = [None, 1.0, 0.0, 2.0]
MOS = [None, "r21", "rnone", "u1110"]
LENS = [None, 0, 1, 2]
PROPS = ["atcorenums", "charge", "nelec", "spinpol", "natom"]


def mk_arr(name, n):
    if n is None:
        return None
    if name in ("atcoords", "atgradient"):
        return np.arange(3 * n, dtype=float).reshape(n, 3)
    if name == "atfrozen":
        return np.zeros(n, dtype=bool)
    return np.ones(n) * 1822.0


def alphabet():
    ops = []
    ops += [("SetAtn", None, v) for v in ATN]
    ops += [("SetCore", None, v) for v in CORE]
    ops += [("SetCharge", None, v) for v in QS]
    ops += [("SetNelec", None, v) for v in NES]
    ops += [("SetSpinpol", None, v) for v in SPS]
    ops += [("SetMo", None, v) for v in MOS]
    ops += [("SetLen", a, v) for a in ARR for v in LENS]
    ops += [("Read", p, None) for p in PROPS]
    return ops


COUPLED = [op for op in alphabet() if op[0] in ("SetAtn", "SetCore", "SetCharge", "SetNelec", "SetMo")
           or (op[0] == "SetLen" and op[1] == "atcoords")]


def enc_v(op):
    kind, a, v = op
    if kind == "SetAtn":
        return [] if v is None else [list(v)]
    if kind == "SetCore":
        return q4seq(v)
    if kind in ("SetCharge", "SetNelec", "SetSpinpol"):
        return q4(v)
    if kind == "SetMo":
        return [] if v is None else [MO_ABS[v]]
    if kind == "SetLen":
        return [] if v is None else [v]
    return []


def observe(obj):
    """Public observables, read from a deep copy so that observing never changes the object."""
    try:
        c = copy.deepcopy(obj)
        core = q4seq(c.atcorenums)  # the materialised view: core charges are read first
        return {
            "core": core,
            "charge": q4(c.charge),
            "nelec": q4(c.nelec),
            "spinpol": q4(c.spinpol),
            "natom": [] if c.natom is None else [int(c.natom)],
            "atn": [] if c.atnums is None else [[int(x) for x in c.atnums]],
            "len": {a: ([] if getattr(c, a) is None else [len(getattr(c, a))]) for a in ARR},
        }
    except Exception:  # an object that cannot even be read: sentinel, rejected by the spec
        return {"core": [[SENT]], "charge": [SENT], "nelec": [SENT], "spinpol": [SENT], "natom": [SENT],
                "atn": [[SENT]], "len": {a: [SENT] for a in ARR}}


def enc_read(p, val):
    if p == "atcorenums":
        return q4seq(val)
    if p == "natom":
        return [] if val is None else [int(val)]
    return q4(val)


def apply_op(obj, op):
    kind, a, v = op
    ev = {"op": kind, "v": enc_v(op)}
    if kind in ("SetLen", "Read"):
        ev["a"] = a
    try:
        if kind == "SetAtn":
            obj.atnums = None if v is None else np.array(v)
        elif kind == "SetCore":
            obj.atcorenums = None if v is None else np.array(v)
        elif kind == "SetCharge":
            obj.charge = v
        elif kind == "SetNelec":
            obj.nelec = v
        elif kind == "SetSpinpol":
            obj.spinpol = v
        elif kind == "SetMo":
            obj.mo = mk_mo(v)
        elif kind == "SetLen":
            setattr(obj, a, mk_arr(a, v))
        elif kind == "Read":
            ev["rv"] = enc_read(a, getattr(obj, a))
        r = "ok"
    except TypeError:
        r = "TypeError"
    except Exception as exc:  # any other exception type is not allowed by the statement
        r = type(exc).__name__
    ev["r"] = r
    if kind == "Read" and "rv" not in ev:
        ev["rv"] = [SENT]
    if kind in ("SetCharge", "SetNelec", "SetSpinpol"):
        prop = {"SetCharge": "charge", "SetNelec": "nelec", "SetSpinpol": "spinpol"}[kind]
        try:
            ev["rb"] = q4(getattr(copy.deepcopy(obj), prop))
        except Exception:
            ev["rb"] = [SENT]
    ev["obs"] = observe(obj)
    return ev


def construct(args):
    """args: dict name -> python-level value tag. Returns (obj | None, event)."""
    from iodata import IOData
    a = {"atn": [], "core": [], "q": [], "ne": [], "sp": [], "mo": [], "len": {k: [] for k in ARR}}
    kw = {}
    for k, v in args.items():
        if v is None:
            continue
        if k == "atnums":
            kw[k] = np.array(v)
            a["atn"] = [list(v)]
        elif k == "atcorenums":
            kw[k] = np.array(v)
            a["core"] = q4seq(v)
        elif k == "charge":
            kw[k] = v
            a["q"] = q4(v)
        elif k == "nelec":
            kw[k] = v
            a["ne"] = q4(v)
        elif k == "spinpol":
            kw[k] = v
            a["sp"] = q4(v)
        elif k == "mo":
            kw[k] = mk_mo(v)
            a["mo"] = [MO_ABS[v]]
        else:
            kw[k] = mk_arr(k, v)
            a["len"][k] = [v]
    ev = {"op": "Construct", "a": a}
    try:
        obj = IOData(**kw)
        ev["r"] = "ok"
        ev["obs"] = observe(obj)
    except TypeError:
        obj = None
        ev["r"] = "TypeError"
        ev["obs"] = {}
    except Exception as exc:
        obj = None
        ev["r"] = type(exc).__name__
        ev["obs"] = {}
    return obj, ev


def run_history(cargs, ops):
    obj, ev = construct(cargs)
    tr = [ev]
    if obj is None:
        return tr
    for op in ops:
        tr.append(apply_op(obj, op))
    return tr


# ------------------------------------------------------------------ exhaustive depth-k trees
def _subtree(task):
    first, depth, alpha_name = task
    alpha = alphabet() if alpha_name == "full" else COUPLED
    obj0, ev0 = construct({})
    out = []

    def rec(obj, prefix, d):
        if d == 0:
            out.append(prefix)
            return
        for op in alpha:
            o2 = copy.deepcopy(obj)
            ev = apply_op(o2, op)
            rec(o2, prefix + [ev], d - 1)

    o1 = copy.deepcopy(obj0)
    ev1 = apply_op(o1, first)
    rec(o1, [ev0, ev1], depth - 1)
    return out


def exhaustive(depth, alpha_name="full"):
    alpha = alphabet() if alpha_name == "full" else COUPLED
    res = pmap(_subtree, [(op, depth, alpha_name) for op in alpha], chunksize=1)
    return [t for sub in res for t in sub]


# ------------------------------------------------------------------ constructor variants
CARGS = {"atnums": ATN[1:], "atcorenums": CORE[1:], "charge": QS[1:], "nelec": NES[1:], "spinpol": SPS[1:],
         "mo": MOS[1:], "atcoords": [0, 1, 2], "atmasses": [1, 2], "atgradient": [0, 2], "atfrozen": [1]}


def construct_variants(rng, nrandom):
    names = list(CARGS)
    out = [{}]
    for n in names:
        for v in CARGS[n]:
            out.append({n: v})
    for n1, n2 in itertools.combinations(names, 2):
        for v1 in CARGS[n1]:
            for v2 in CARGS[n2]:
                out.append({n1: v1, n2: v2})
    for _ in range(nrandom):
        k = rng.randint(3, 7)
        ns = rng.sample(names, k)
        out.append({n: rng.choice(CARGS[n]) for n in ns})
    return out


def _construct_then_ops(task):
    cargs, ops_list = task
    return [run_history(cargs, ops) for ops in ops_list]


def _random_history(task):
    seed, length = task
    rng = random.Random(seed)
    names = list(CARGS)
    ns = rng.sample(names, rng.randint(0, 4))
    cargs = {n: rng.choice(CARGS[n]) for n in ns}
    alpha = alphabet()
    ops = [rng.choice(alpha) for _ in range(length)]
    return run_history(cargs, ops)


# ------------------------------------------------------------------ spec -> code replay
def behaviour_to_ops(beh):
    """Map a TLC-simulated behaviour of Gen_IODataObj to operations on the real class."""
    ops = []
    for action, text in beh[1:]:
        m = re.search(r"/\\ last = (.*?)(?=\n/\\ |\Z)", text, re.S)
        last = parse_value(m.group(1))
        kind = last["op"]
        v = last["v"]
        if kind == "SetAtn":
            ops.append((kind, None, None if v == () else list(v[0])))
        elif kind == "SetCore":
            ops.append((kind, None, None if v == () else [x / 4 for x in v[0]]))
        elif kind in ("SetCharge", "SetNelec", "SetSpinpol"):
            ops.append((kind, None, None if v == () else v[0] / 4))
        elif kind == "SetMo":
            if v == ():
                ops.append((kind, None, None))
            else:
                rec = v[0]
                tag = [t for t, ab in MO_ABS.items() if tuple(ab["n"]) == tuple(rec["n"]) and tuple(ab["s"]) == tuple(rec["s"])][0]
                ops.append((kind, None, tag))
        elif kind == "SetLen":
            ops.append((kind, last["a"], None if v == () else v[0]))
        elif kind == "Read":
            ops.append((kind, last["a"], None))
    return ops


def describe(trace, reached):
    """Key and text for a rejected trace: the first event the specification cannot explain."""
    i = reached  # 0-based index of the failing event
    ev = trace[i]
    prev = trace[i - 1]["obs"] if i > 0 else None
    changed = []
    if prev and ev.get("obs"):
        for k in ("core", "charge", "nelec", "spinpol", "natom", "atn", "len"):
            if prev.get(k) != ev["obs"].get(k):
                changed.append(k)
    cls = ""
    if ev["op"] in ("SetAtn", "SetCore", "SetLen") and ev["v"]:
        n = len(ev["v"][0]) if isinstance(ev["v"][0], list) else ev["v"][0]
        pn = prev["natom"] if prev else []
        cls = "len-mismatch" if (pn and pn[0] != n) else "len-ok"
    elif ev["op"] == "Construct":
        cls = "args=" + "+".join(sorted(k for k, v in ev["a"].items() if v and k != "len")
                                 + sorted(k for k, v in ev["a"]["len"].items() if v))
    elif ev["op"] == "Read":
        cls = ev["a"]
    elif not ev["v"]:
        cls = "None"
    key = f"IOData {ev['op']}[{cls}] result={ev['r']} changed={','.join(changed) or '-'}"
    what = (f"event {i + 1} of the history is not a behaviour of IODataObj: op={ev['op']} arg={ev.get('a', '')} "
            f"v={ev['v'] if 'v' in ev else ''} result={ev['r']}; observables before={prev} after={ev.get('obs')}")
    return key, what


def check(run: Run):
    rng = random.Random(run.seed)
    run.cov["rule"] = (
        "histories = Construct(args) followed by assignments/clears/reads over small alphabets (None, fractional "
        "charges, arrays of different lengths); exhaustive to a depth over the full 50-op alphabet plus "
        "constructor variants x every single op plus seeded random histories plus TLC-simulated behaviours; "
        "a case is distinct by its (op, arg) sequence and non-trivial when it has at least one assignment")
    # 1. model checking of the design
    cfg = "MC_IODataObj_thorough.cfg" if run.thorough() else "MC_IODataObj_quick.cfg"
    st = run_tlc(run, "MC_IODataObj", cfg, workers=16, timeout=1500, coverage=False, tag=cfg[:-4])
    run.add_model(st)

    # 2. code -> spec: recorded histories
    traces = []
    depth = run.pick(2, 3)
    traces += exhaustive(depth, "full")
    if run.thorough():
        traces += exhaustive(4, "coupled")
    variants = construct_variants(rng, run.pick(200, 2000))
    alpha = alphabet()
    tasks = [(cv, [[op] for op in alpha]) for cv in variants]
    for sub in pmap(_construct_then_ops, tasks):
        traces += sub
    nrand = run.pick(3000, 50000)
    rlen = run.pick(12, 30)
    base = run.seed * 1000003
    traces += pmap(_random_history, [(base + i, rlen) for i in range(nrand)])

    # 3. spec -> code: TLC-simulated behaviours replayed on the real class
    behs = simulate_behaviours(run, "Gen_IODataObj", "Gen_IODataObj.cfg", num=run.pick(300, 3000),
                               depth=run.pick(15, 30), seed=run.seed + 1)
    nbeh = 0
    for beh in behs:
        ops = behaviour_to_ops(beh)
        if ops:
            traces.append(run_history({}, ops))
            nbeh += 1
    run.notes["spec_to_code_behaviours"] = nbeh

    reached = validate_traces(run, "Trace_IODataObj", traces, chunk=6000)
    for tr, r in zip(traces, reached):
        run.count()
        ops = tuple((e["op"], str(e.get("a", "")) if e["op"] != "Construct" else str(sorted(e["a"].items())), str(e.get("v"))) for e in tr)
        if any(e["op"].startswith("Set") or (e["op"] == "Construct" and e["a"] != {}) for e in tr):
            run.distinct(hash(ops))
        if r != len(tr):
            key, what = describe(tr, r)
            run.violation(key, what, {"trace": tr, "failing_event": r + 1})
    for tr in traces[:2] + traces[-2:]:
        run.sample([{k: e[k] for k in e if k != "obs"} | {"obs": e.get("obs")} for e in tr])
    run.cov["exhaustive"] = False
    run.notes["exhaustive_depth_full_alphabet"] = depth
    run.assumptions += [
        "values are drawn from small alphabets on a quarter grid (exact arithmetic)",
        "observables are read from a deep copy (reading must not disturb the object under test)",
        "in-place mutation of arrays returned by getters is outside the statement",
    ]


def replay(rec):
    tr = rec["detail"]["trace"]
    print("replaying history of", len(tr), "events; failing event", rec["detail"]["failing_event"])
    run = Run("C11", "quick", 0, LEVEL)
    # re-execute the same ops on the current tree
    ops = []
    cargs = {}
    a = tr[0]["a"]
    inv = {"atn": "atnums", "core": "atcorenums", "q": "charge", "ne": "nelec", "sp": "spinpol"}
    for k, name in inv.items():
        if a[k]:
            cargs[name] = a[k][0] if k == "atn" else ([x / 4 for x in a[k][0]] if k == "core" else a[k][0] / 4)
    if a["mo"]:
        cargs["mo"] = [t for t, ab in MO_ABS.items() if ab == a["mo"][0]][0]
    for k, v in a["len"].items():
        if v:
            cargs[k] = v[0]
    for e in tr[1:]:
        v = e.get("v")
        if e["op"] == "SetAtn":
            ops.append((e["op"], None, v[0] if v else None))
        elif e["op"] == "SetCore":
            ops.append((e["op"], None, [x / 4 for x in v[0]] if v else None))
        elif e["op"] in ("SetCharge", "SetNelec", "SetSpinpol"):
            ops.append((e["op"], None, v[0] / 4 if v else None))
        elif e["op"] == "SetMo":
            ops.append((e["op"], None, [t for t, ab in MO_ABS.items() if ab == v[0]][0] if v else None))
        elif e["op"] == "SetLen":
            ops.append((e["op"], e["a"], v[0] if v else None))
        else:
            ops.append((e["op"], e["a"], None))
    new = run_history(cargs, ops)
    reached = validate_traces(run, "Trace_IODataObj", [new])
    if reached[0] != len(new):
        key, what = describe(new, reached[0])
        print("REPRODUCED:", key)
        print(what)
        return 1
    print("not reproduced on the current tree")
    return 0
