"""C17 -- format selection is deterministic and declared capabilities are truthful.

Spec: spec/Select.tla + RegistryData.tla generated from the live registry on every run.  TLC checks
the selection rule on every (realised signature x operation x explicit format) scenario and that every
declared attribute name exists; recorded public-API calls (which module was selected, twice, did a
FileFormatError touch anything), the lists printed by the documentation generators and the CLI help,
the non-None attributes of every loaded corpus / generated file and the enforcement of every
required attribute before the output file is opened are validated by Trace_Select.
"""

from __future__ import annotations

import contextlib
import functools
import io
import json
import os
import random
import re
import shutil
import sys
import tempfile
import warnings

from .. import objects as O
from ..core import REPO, Run
from ..corpus import corpus
from ..par import pmap
from ..shims import Tracer
from ..tlc import run_tlc, tla, validate_traces, write_module

LEVEL = "model_checking"
OPS = ["load_one", "load_many", "dump_one", "dump_many"]


class Selected(Exception):
    def __init__(self, name):
        super().__init__(name)
        self.name = name


def glob_match(name: str, pattern: str) -> bool:
    """Independent matcher for the glob dialect used by the registry ('*', '?', literal), case-sensitive."""
    rx = "".join(".*" if c == "*" else "." if c == "?" else re.escape(c) for c in pattern)
    return re.fullmatch(rx, name, re.S) is not None


def export_registry():
    import attrs
    from iodata import IOData
    from iodata.api import FORMAT_MODULES
    reg = []
    for name, mod in FORMAT_MODULES.items():
        ops = [o for o in OPS if hasattr(mod, o)]
        decl = {}
        for o in ops:
            fn = getattr(mod, o)
            decl[o] = {k: [str(x) for x in getattr(fn, k, [])] for k in ("guaranteed", "ifpresent", "required", "optional")}
        reg.append({"name": name, "patterns": list(mod.PATTERNS), "ops": ops, "decl": decl})
    attrs_ = sorted({f.name.lstrip("_") for f in attrs.fields(IOData)}
                    | {n for n in dir(IOData) if not n.startswith("_") and isinstance(getattr(IOData, n), property)})
    return reg, attrs_


def registry_module(reg, attrs_, sigs):
    def rec(r):
        decl = "[" + ", ".join(
            f"{o} |-> [guaranteed |-> {tla(d['guaranteed'])}, ifpresent |-> {tla(d['ifpresent'])}, "
            f"required |-> {tla(d['required'])}, optional |-> {tla(d['optional'])}]" for o, d in r["decl"].items()) + "]"
        return f'[name |-> {tla(r["name"])}, ops |-> {tla(set(r["ops"]))}, decl |-> {decl}]'
    body = ",\n  ".join(rec(r) for r in reg)
    sigtxt = ", ".join("{" + ", ".join(str(i) for i in sorted(s)) + "}" for s in sorted(sigs, key=lambda s: (len(s), sorted(s))))
    return ("---- MODULE RegistryData ----\n(* generated from the live registry of iodata.api.FORMAT_MODULES *)\n"
            f"Registry == <<\n  {body} >>\nIODataAttrs == {tla(set(attrs_))}\nRealisedSigs == {{{sigtxt}}}\n====\n")


def candidate_names(reg, rng):
    names = set()
    pats = [(i + 1, p) for i, r in enumerate(reg) for p in r["patterns"]]
    for _, p in pats:
        inst = p.replace("*", "abc")
        names |= {inst, inst.upper(), inst.lower(), inst.capitalize(), "x." + inst, inst + ".bak", inst + "~"}
        names.add(p.replace("*", ""))
        names.add(p.replace("*", "a.b.c"))
    # names matching several patterns
    for (_, p1) in pats:
        for (_, p2) in rng.sample(pats, 6):
            a, b = p1.replace("*", "m"), p2.replace("*", "n")
            names |= {a + b, b + a}
            if p1.startswith("*") and p2.endswith("*"):
                names.add(p2.replace("*", "") + "_q" + p1.replace("*", ""))
    names |= {"x.cp2k.out", "FCIDUMP.molden", "POSCAR.xyz", "CHGCAR.cube", "LOCPOT.log", "a.fchk.wfn", "noext", ".xyz", "xyz",
              "a.XYZ", "file.Mol2", "AECCAR0", "x.molden.input", "x.molden.input.fchk", "x.gjf.com", "a b.xyz", "é.pdb"}
    names |= {os.path.basename(p) for p, _, _ in corpus()}
    return sorted(n for n in names if n and "/" not in n)


def signature(reg, basename):
    return sorted(i + 1 for i, r in enumerate(reg) if any(glob_match(basename, p) for p in r["patterns"]))


@contextlib.contextmanager
def selection_probes():
    """Replace every format function by a probe that reports which module was selected."""
    from iodata.api import FORMAT_MODULES
    saved = []
    try:
        for name, mod in FORMAT_MODULES.items():
            for o in OPS:
                if hasattr(mod, o):
                    orig = getattr(mod, o)

                    def probe(*a, _n=name, **k):
                        raise Selected(_n)
                    functools.update_wrapper(probe, orig)
                    probe.required = []
                    saved.append((mod, o, orig))
                    setattr(mod, o, probe)
            if hasattr(mod, "prepare_dump"):
                saved.append((mod, "prepare_dump", mod.prepare_dump))
                mod.prepare_dump = lambda data, allow, fn: data
        yield
    finally:
        for mod, o, orig in saved:
            setattr(mod, o, orig)


def run_select(path, op, fmt):
    """-> (result name | error class, opened, created)"""
    from iodata import IOData, api
    from iodata.utils import FileFormatError
    existed = os.path.exists(path)
    tr = Tracer(only=path)
    res = None
    with warnings.catch_warnings():
        warnings.simplefilter("ignore")
        with tr:
            try:
                if op == "load_one":
                    api.load_one(path, fmt=fmt)
                elif op == "load_many":
                    next(iter(api.load_many(path, fmt=fmt)))
                elif op == "dump_one":
                    api.dump_one(IOData(), path, fmt=fmt)
                else:
                    api.dump_many([IOData()], path, fmt=fmt)
                res = "no-probe-hit"
            except FileFormatError:
                res = "FileFormatError"
            except Exception as exc:  # noqa: BLE001
                cause = exc.__cause__
                res = cause.name if isinstance(cause, Selected) else "other:" + type(exc).__name__
    opened = any(e["ev"] in ("open", "open_fail") for e in tr.events)
    created = (not existed) and os.path.exists(path)
    return res, opened, created


def select_events(reg, names, rng):
    events = []
    tmp = tempfile.mkdtemp(prefix="c17_")
    modnames = [r["name"] for r in reg]
    try:
        calls = []
        for n in names:
            for op in OPS:
                calls.append((n, "", op, None))
        for sub in ("x.xyz", "POSCAR_dir", "a.fchk"):  # directories containing pattern text
            for n in ("data.bin", "traj.pdb", "noext"):
                for op in OPS:
                    calls.append((n, sub, op, None))
            for op in OPS:
                calls.append(("", sub, op, None))      # the directory itself, written with a trailing separator: its base name is empty
        for n in ("whatever.bin", "a.xyz", "FCIDUMP.molden"):
            for op in OPS:
                for f in modnames + ["no_such_format", "XYZ", ""]:
                    calls.append((n, "", op, f))
        order = list(range(len(calls)))
        first = {}
        with selection_probes():
            for rnd in range(2):
                rng.shuffle(order)
                for ci in order:
                    n, sub, op, f = calls[ci]
                    d = os.path.join(tmp, f"r{rnd}", str(ci), sub)
                    os.makedirs(d, exist_ok=True)
                    path = os.path.join(d, n)
                    if op.startswith("load") and n:
                        with open(path, "w") as fh:
                            fh.write("dummy\n")
                    res = run_select(path, op, f)
                    if rnd == 0:
                        first[ci] = res
                    else:
                        r1 = first[ci]
                        events.append({"op": "Select", "name": n, "dir": sub, "sig": signature(reg, n), "opn": op,
                                       "fmt": [] if f is None else [f], "result": r1[0], "result2": res[0],
                                       "opened": bool(r1[1] or res[1]),
                                       "created": bool(op.startswith("dump") and (r1[2] or res[2]))})
    finally:
        shutil.rmtree(tmp, ignore_errors=True)
    return events


def doc_events(reg):
    """Lists printed by docs/gen_formats.py, docs/gen_formats_tab.py and the CLI help."""
    events = []
    docs = os.path.join(REPO, "docs")
    tmp = tempfile.mkdtemp(prefix="c17d_")
    cwd = os.getcwd()
    sys.path.insert(0, docs)
    try:
        os.chdir(tmp)
        import importlib
        gf = importlib.import_module("gen_formats")
        importlib.reload(gf)
        gf.main()
        text = open("formats.rst").read()
        cur_mod, cur_op = None, None
        label = {"Always loads": "guaranteed", "May load": "ifpresent", "Requires": "required", "May dump": "optional"}
        for ln in text.splitlines():
            m = re.match(r"^\.\. _format_(\w+):", ln)
            if m:
                cur_mod = m.group(1)
            m = re.match(r"^:py:func:`iodata\.formats\.(\w+)\.(\w+)`", ln)
            if m:
                cur_mod, cur_op = m.group(1), m.group(2)
            for lab, which in label.items():
                if ln.startswith("- " + lab):
                    names = re.findall(r"``(\w+)``", ln)
                    events.append({"op": "Doc", "module": cur_mod, "opn": cur_op, "which": which, "names": names, "src": "gen_formats"})
                    events.append({"op": "Declared", "module": cur_mod, "opn": cur_op, "which": which, "names": names, "src": "gen_formats"})
        gt = importlib.import_module("gen_formats_tab")
        importlib.reload(gt)
        table = gt.generate_table_rst()
        tab_names = []
        for row in table[1:] if table else []:
            m = re.search(r"`~?(?:[\w.]*\.)?(\w+)(?:\s*<[^>]*>)?`", row[0])
            tab_names.append(m.group(1) if m else row[0])
        events.append({"op": "Declared", "module": "*", "opn": "*", "which": "table rows", "names": [n for n in tab_names if n], "src": "gen_formats_tab"})
    finally:
        os.chdir(cwd)
        sys.path.remove(docs)
        shutil.rmtree(tmp, ignore_errors=True)
    return events


def declared_events(reg):
    ev = []
    for r in reg:
        for o, d in r["decl"].items():
            for which, names in d.items():
                ev.append({"op": "Declared", "module": r["name"], "opn": o, "which": which, "names": names, "src": "registry"})
    return ev


def _loaded(task):
    path, fmt, many = task
    from iodata import api
    out = []
    with warnings.catch_warnings():
        warnings.simplefilter("ignore")
        try:
            objs = list(api.load_many(path, fmt=fmt)) if many else [api.load_one(path, fmt=fmt)]
        except Exception:
            return out
    for obj in objs[:5]:
        import attrs
        present = [f.name.lstrip("_") for f in attrs.fields(type(obj)) if getattr(obj, f.name.lstrip("_")) is not None]
        out.append({"op": "Loaded", "module": fmt, "opn": "load_many" if many else "load_one", "present": present,
                    "file": os.path.basename(path)})
    return out


def _damaged_loaded(task):
    """Copies of a file with one word of one of its first lines blanked, or one of those lines deleted: whenever such a file still
    loads, the declared guarantees hold for the result as well (a reader that accepts less must not promise more)."""
    path, fmt, many = task
    import re as _re
    text = open(path, errors="replace").read()
    lines = text.splitlines(keepends=True)
    tmp = tempfile.mkdtemp(prefix="c17d_")
    out = []
    try:
        variants = []
        for i in range(min(5, len(lines))):
            variants.append(lines[:i] + lines[i + 1:])
            for m in list(_re.finditer(r"\S+", lines[i]))[:6]:
                new = lines[i][:m.start()] + " " * (m.end() - m.start()) + lines[i][m.end():]
                variants.append(lines[:i] + [new] + lines[i + 1:])
        for k, v in enumerate(variants):
            p = os.path.join(tmp, f"v{k}_" + os.path.basename(path))
            with open(p, "w") as fh:
                fh.writelines(v)
            for e in _loaded((p, fmt, many)):
                e["file"] = f"{os.path.basename(path)} (damaged copy {k})"
                out.append(e)
        return out
    finally:
        shutil.rmtree(tmp, ignore_errors=True)


def _generated_loaded(task):
    fmt, seed = task
    from iodata import api
    rng = random.Random(seed)
    tmp = tempfile.mkdtemp(prefix="c17g_")
    try:
        obj = O.make(fmt, rng, "plain")
        path = os.path.join(tmp, O.SUFFIX[fmt])
        with warnings.catch_warnings():
            warnings.simplefilter("ignore")
            api.dump_one(obj, path, fmt=fmt)
        out = _loaded((path, fmt, False))
        for e in out:
            e["file"] = f"generated({fmt}, seed={seed})"
        return out
    except Exception:
        return []
    finally:
        shutil.rmtree(tmp, ignore_errors=True)


def _required(task):
    from .c08 import execute
    fmt, op, attr, seed = task
    t = (0, fmt, op, "explicit", False, True, [("missing", [attr])] + ([("ok", None)] if op == "dump_many" else []),
         False, False, None, False, seed, False)
    tr, info = execute(t)
    if tr[0]["sc"]["frames"][0] != "missing":
        return None  # clearing it does not make it None (e.g. a derived default)
    opened = any(e.get("ev") == "open" for e in tr[1:])
    return {"op": "Required", "module": fmt, "opn": op, "attr": attr, "result": tr[-1]["out"], "opened": opened}


def describe(e):
    if e["op"] == "Select":
        fm = "None" if not e["fmt"] else ("module" if e["result"] != "FileFormatError" or True else "")
        fmtcls = "None" if not e["fmt"] else e["fmt"][0]
        return (f"select name~sig={e['sig']} op={e['opn']} fmt={fmtcls} -> {e['result']}/{e['result2']} opened={e['opened']} created={e['created']}",
                f"format selection for basename {e['name']!r} (dir {e['dir']!r}) is not allowed by Select!Allowed or not deterministic: {e}")
    if e["op"] == "Declared":
        return (f"declared {e['module']}.{e['opn']} {e['which']} [{e['src']}] names an attribute that does not exist",
                f"{e['names']} contains a name that is not an IOData attribute")
    if e["op"] == "Doc":
        return (f"documentation {e['module']}.{e['opn']} {e['which']} differs from the declared list", str(e))
    if e["op"] == "Loaded":
        return (f"guaranteed {e['module']}.{e['opn']} not set", f"{e['file']}: a guaranteed attribute is None; present={e['present']}")
    return (f"required {e['module']}.{e['opn']} {e['attr']} not enforced before open -> {e['result']} opened={e['opened']}", str(e))


def check(run: Run):
    rng = random.Random(run.seed)
    run.cov["rule"] = (
        "cases: (file name x 4 operations x explicit format in {None, each module, unknown}) executed twice in shuffled "
        "order through the public API with selection probes; names = every pattern instantiated (case variants, "
        "prefixes/suffixes), multi-pattern names, directories containing pattern text, corpus names; every declared list "
        "(registry, gen_formats.py, gen_formats_tab.py); non-None attributes of every loaded corpus and generated file; "
        "every required attribute cleared singly; distinct by content")
    reg, attrs_ = export_registry()
    names = candidate_names(reg, rng)
    sigs = {frozenset(signature(reg, n)) for n in names} | {frozenset()}
    write_module(run, "RegistryData.tla", registry_module(reg, attrs_, sigs))
    st = run_tlc(run, "Select", "MC_Select.cfg", workers=8, timeout=600, tag="MC_Select")
    run.add_model(st)
    # the declared-names invariant is a constant formula over the live registry: a FALSE verdict is a
    # finding about the code (reported per list through the Declared events below), not a spec error
    st2 = run_tlc(run, "Select", "MC_SelectDecl.cfg", workers=2, timeout=300, tag="MC_SelectDecl", check=False)
    run.notes["tlc_all_declared_names_exist"] = bool(st2["ok"])
    if not st2["ok"] and "AllDeclaredExist" not in st2["output"]:
        from ..core import MachineryError
        from ..tlc import err_excerpt
        raise MachineryError("MC_SelectDecl failed:\n" + err_excerpt(st2["output"]))
    events = []
    events += declared_events(reg)
    events += doc_events(reg)
    events += select_events(reg, names if run.thorough() else names[::2] + ["x.cp2k.out", "FCIDUMP.molden", "POSCAR.xyz"], rng)
    from iodata.api import FORMAT_MODULES
    ltasks = []
    for p, fmt, _ in corpus():
        ltasks.append((p, fmt, False))
        if hasattr(FORMAT_MODULES[fmt], "load_many"):
            ltasks.append((p, fmt, True))
    for sub in pmap(_loaded, ltasks):
        events += sub
    dtasks = [t for t in ltasks if os.path.getsize(t[0]) < 200000]
    if not run.thorough():
        seenf = {}
        dtasks = [t for t in dtasks if seenf.setdefault((t[1], t[2]), []).append(t) or len(seenf[(t[1], t[2])]) <= 2]
    for sub in pmap(_damaged_loaded, dtasks, chunksize=1):
        events += sub
    for sub in pmap(_generated_loaded, [(f, run.seed * 100 + i) for f in O.DUMP_ONE for i in range(run.pick(3, 20))]):
        events += sub
    rtasks = []
    for fmt in O.DUMP_ONE:
        for a in FORMAT_MODULES[fmt].dump_one.required:
            rtasks.append((fmt, "dump_one", a, rng.randint(0, 10**9)))
    for fmt in O.DUMP_MANY:
        for a in FORMAT_MODULES[fmt].dump_many.required:
            rtasks.append((fmt, "dump_many", a, rng.randint(0, 10**9)))
    events += [e for e in pmap(_required, rtasks) if e is not None]
    # CLI help lists the formats per operation
    from iodata.__main__ import DESCRIPTION
    for o in OPS:
        m = re.search(rf"^{o}\n\s+(.*)$", DESCRIPTION, re.M)
        listed = sorted(m.group(1).split()) if m else []
        actual = sorted(r["name"] for r in reg if o in r["ops"])
        if listed != actual:
            run.violation(f"cli help lists {o} formats differently from the registry", f"listed={listed} registry={actual}", {})
    traces = [[e] for e in events]
    reached = validate_traces(run, "Trace_Select", traces, chunk=4000)
    kinds = {}
    for e, r in zip(events, reached):
        run.count()
        kinds[e["op"]] = kinds.get(e["op"], 0) + 1
        run.distinct(hash(json.dumps(e, sort_keys=True)))
        if r != 1:
            key, what = describe(e)
            run.violation(key, what, {"event": e})
    run.notes["events_by_kind"] = kinds
    run.notes["realised_signatures"] = len(sigs)
    run.notes["names"] = len(names)
    for k in ("Select", "Declared", "Doc", "Loaded", "Required"):
        for e in events:
            if e["op"] == k:
                run.sample(e)
                break
    run.assumptions += ["pattern matching is abstracted to match signatures computed by an independent glob matcher",
                        "a dict-valued attribute counts as set when it is not None",
                        "selection is observed by replacing the format functions with probes inside the harness process"]


def replay(rec):
    print(json.dumps(rec["detail"].get("event"), indent=1)[:3000])
    print("re-run ./check C17 to re-execute (the registry is read from the live code)")
    return 1
