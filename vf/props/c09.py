"""C09 -- dumping never alters the caller's data; conversions are explicit and equivalent.

Spec: spec/DumpFrame.tla (frame condition over the caller's heap, return-value contract, repeated
dumps).  Objects from every generator (13 dump formats, variants needing conversion or rejection)
and every object loadable from the corpus are dumped (dump_one x allow_changes, dump_many,
write_input; repeated); a deep snapshot of everything reachable from the arguments (array bytes and
flags, dictionary and list contents, nested objects, derived properties) before and after, the
identity of the returned object, the warnings and -- for a converted object -- the equality of basis
functions, occupations, coefficients, densities, electron count and spin polarisation are recorded
and validated by Trace_DumpFrame.
"""

from __future__ import annotations

import copy
import json
import os
import random
import shutil
import tempfile
import warnings

import attrs
import numpy as np

from .. import objects as O
from ..core import Run
from ..corpus import corpus
from ..digest import deep, diff
from ..par import pmap
from ..tlc import run_tlc, validate_traces

LEVEL = "model_checking"


def snapshot(obj):
    """Deep structure of raw fields, derived properties and array flags of an IOData (or any) object."""
    if not attrs.has(type(obj)):
        return deep(obj)
    raw = ("raw", [(f.name, deep(getattr(obj, f.name))) for f in attrs.fields(type(obj))])
    derived = []
    for name in ("natom", "nelec", "charge", "spinpol"):
        try:
            derived.append((name, deep(getattr(obj, name))))
        except Exception as exc:  # noqa: BLE001
            derived.append((name, f"<{type(exc).__name__}>"))
    mo = getattr(obj, "mo", None)
    if mo is not None:
        for name in ("nelec", "spinpol", "occsa", "occsb", "norb", "nbasis"):
            try:
                derived.append(("mo." + name, deep(getattr(mo, name))))
            except Exception as exc:  # noqa: BLE001
                derived.append(("mo." + name, f"<{type(exc).__name__}>"))
    flags = []

    def walk(x, path, depth=0):
        if depth > 6:
            return
        if isinstance(x, np.ndarray):
            flags.append((path, bool(x.flags.writeable)))
        elif isinstance(x, dict):
            for k, v in x.items():
                walk(v, f"{path}/{k!r}", depth + 1)
        elif isinstance(x, (list, tuple)):
            for i, v in enumerate(x):
                walk(v, f"{path}/{i}", depth + 1)
        elif attrs.has(type(x)):
            for f in attrs.fields(type(x)):
                walk(getattr(x, f.name), f"{path}/{f.name}", depth + 1)
    walk(obj, "")
    return ("snap", [raw, ("derived", derived), ("flags", [(p, w) for p, w in flags])])


def function_list(obasis):
    out = []
    for sh in obasis.shells:
        for j, (l, k) in enumerate(zip(sh.angmoms, sh.kinds)):
            out.append((int(sh.icenter), int(l), str(k), sh.exponents.tobytes(), sh.coeffs[:, j].tobytes(),
                        tuple(obasis.conventions[(int(l), str(k))])))
    return out


def denote_same(a, b):
    """The converted object denotes the same wavefunction (C09 statement: density, spin density, electron
    count, spin polarisation, the same basis functions in the same order)."""
    try:
        if a.obasis is not None:
            if function_list(a.obasis) != function_list(b.obasis):
                return False
        if a.mo is not None:
            for name in ("occsa", "occsb", "coeffsa", "coeffsb", "energiesa", "energiesb"):
                x, y = getattr(a.mo, name), getattr(b.mo, name)
                if (x is None) != (y is None) or (x is not None and not np.array_equal(x, y)):
                    return False
            if a.mo.nelec != b.mo.nelec or a.mo.spinpol != b.mo.spinpol:
                return False
        for name in ("atnums", "atcoords", "atcorenums"):
            x, y = getattr(a, name), getattr(b, name)
            if (x is None) != (y is None) or (x is not None and not np.array_equal(x, y)):
                return False
        return True
    except Exception:
        return False


def classify(exc):
    from iodata.utils import DumpError, PrepareDumpError, WriteInputError
    if exc is None:
        return "return"
    for cls in (PrepareDumpError, DumpError, WriteInputError):
        if type(exc) is cls:
            return cls.__name__
    return "other:" + type(exc).__name__


def kind_of(fmt, obj):
    """Abstract frame kind of an arbitrary object for a format, from the declared lists and the object only."""
    from iodata.api import FORMAT_MODULES
    mod = FORMAT_MODULES[fmt]
    if any(getattr(obj, a) is None for a in mod.dump_one.required):
        return "missing"
    return None


def dump_trace(task):
    """task = (source, fmt, op, kind, allow, repeats, maker) -> (trace, info)"""
    source, fmt, op, kind, allow, repeats, spec = task
    from iodata import api
    from iodata.utils import PrepareDumpWarning
    tmp = tempfile.mkdtemp(prefix="c09_")
    try:
        with warnings.catch_warnings():
            warnings.simplefilter("ignore")
            if spec[0] == "make":
                rng = random.Random(spec[2])
                objs = [O.make(spec[1] if op != "write_input" else "xyz", rng, spec[3] if spec[3] != "dictkw" else "plain")
                        for _ in range(1 if op != "dump_many" else 3)]
                if spec[3] == "dictkw":
                    objs[0].extra = {"maxiter": 5, "nested": {"a": [1, 2]}}
                    objs[0].atcharges = {"mulliken": np.zeros(objs[0].natom)}
            else:
                objs = [api.load_one(spec[1], fmt=spec[2])]
            for o in objs:
                try:
                    o.atcorenums  # noqa: B018 - filling in the default core charges is not a change
                except Exception:
                    pass
        before = [snapshot(o) for o in objs]
        events = []
        path = os.path.join(tmp, O.SUFFIX.get(fmt, "job.in"))
        for _ in range(repeats):
            exc, ret = None, None
            with warnings.catch_warnings(record=True) as wl:
                warnings.simplefilter("always")
                try:
                    if op == "dump_one":
                        ret = api.dump_one(objs[0], path, fmt=fmt, allow_changes=allow)
                    elif op == "dump_many":
                        api.dump_many(objs, path, fmt=fmt, allow_changes=allow)
                    elif spec[3] == "dictkw":
                        # keyword arguments that are dictionaries named like dictionary attributes, used by a custom template
                        api.write_input(objs[0], path, fmt, template="{title}\n{extra[maxiter]} {atcharges[mulliken]}\n{geometry}\n",
                                        extra={"maxiter": 99}, atcharges={"mulliken": "m"}, atffparams={"k": 1})
                    else:
                        api.write_input(objs[0], path, fmt)
                except Exception as e:  # noqa: BLE001
                    exc = e
            after = [snapshot(o) for o in objs]
            changed = []
            for i, (b, a) in enumerate(zip(before, after)):
                changed += [f"[{i}]{p}" for p in diff(b, a)]
            out = classify(exc)
            ev = {"ev": "dump", "out": out, "warned": any(issubclass(w.category, PrepareDumpWarning) for w in wl),
                  "changed": changed[:8], "ret": "none", "denoteSame": True}
            if op == "dump_one" and out == "return":
                ev["ret"] = "same" if ret is objs[0] else "new"
                if ret is not objs[0]:
                    ev["denoteSame"] = bool(denote_same(objs[0], ret))
            events.append(ev)
        # the abstract kind: given by the generator, or inferred for corpus objects from the first outcome
        k = kind
        if k is None:
            first = events[0]
            k = "ok" if (first["out"] == "return" and not first["warned"]) else \
                ("convertible" if (first["out"] == "return" or "allow_changes" in str(exc)) else "fatal")
            if first["out"] not in ("return", "PrepareDumpError"):
                k = "writer-failure"
        sc = {"op": op, "kind": k, "allow": bool(allow), "repeats": repeats}
        return [{"sc": sc}] + events, {"source": source, "fmt": fmt, "op": op}
    finally:
        shutil.rmtree(tmp, ignore_errors=True)


def describe(tr, r, info):
    sc = tr[0]["sc"]
    r = max(r, 1)
    ev = tr[r] if r < len(tr) else {}
    what_changed = ",".join(sorted({"/".join(x for x in p.split("]", 1)[1].split("/")[2:6] if not x.isdigit()) if p.count("/") >= 2 else p for p in ev.get("changed", [])}))
    key = (f"{info['fmt']}.{sc['op']} kind={sc['kind']} allow={sc['allow']} call#{r} -> out={ev.get('out')} ret={ev.get('ret')} "
           f"warned={ev.get('warned')} denoteSame={ev.get('denoteSame')} changed={what_changed or '-'}")
    return key, f"{info['source']}: dump {r} of {sc['repeats']} is not a behaviour of DumpFrame.tla: {ev}"


def check(run: Run):
    rng = random.Random(run.seed)
    run.cov["rule"] = (
        "objects = every generator variant of the 13 dump formats (plain, needing segmentation, occs_aminusb, rejected) and "
        "every object loadable from the corpus (incl. QCSchema objects with nested lists/dicts in extra) x {dump_one with "
        "allow_changes False/True, dump_many, write_input gaussian/orca} x 1..3 repeated dumps; deep snapshot of raw fields, "
        "derived properties, array flags before/after; distinct by (source object, format, operation, allow_changes)")
    st = run_tlc(run, "DumpFrame", "MC_DumpFrame.cfg", workers=4, timeout=300, tag="MC_DumpFrame")
    run.add_model(st)
    tasks = []
    for fmt in O.DUMP_ONE:
        for var in O.VARIANTS.get(fmt, ["plain"]):
            for allow in (False, True):
                for rep in range(run.pick(2, 8)):
                    tasks.append((f"make({fmt},{var})", fmt, "dump_one", O.frame_kind(var), allow, 1 + rep % 3,
                                  ("make", fmt, rng.randint(0, 10**9), var)))
    for fmt in O.DUMP_MANY:
        for rep in range(run.pick(2, 6)):
            tasks.append((f"make({fmt},plain)x3", fmt, "dump_many", "ok", False, 1 + rep % 3, ("make", fmt, rng.randint(0, 10**9), "plain")))
    for prog in ("gaussian", "orca"):
        for rep in range(run.pick(3, 10)):
            tasks.append(("make(xyz,plain)", prog, "write_input", "ok", False, 1 + rep % 3, ("make", "xyz", rng.randint(0, 10**9), "plain")))
            tasks.append(("make(xyz,dictkw)", prog, "write_input", "ok", False, 1 + rep % 3, ("make", "xyz", rng.randint(0, 10**9), "dictkw")))
    files = [(p, f) for p, f, _ in corpus() if os.path.getsize(p) < 400000]
    if not run.thorough():
        by = {}
        for p, f in files:
            by.setdefault(f, []).append(p)
        files = [(p, f) for f, ps in by.items() for p in sorted(ps, key=os.path.getsize)[:(30 if f == "json_qcschema" else 4)]]
    for p, f in files:
        for fmt in O.DUMP_ONE:
            for allow in (False, True):
                tasks.append((os.path.basename(p), fmt, "dump_one", None, allow, 2, ("load", p, f)))
    results = [r for r in pmap(_safe_dump_trace, tasks) if r is not None]
    traces, infos = [], []
    skipped = 0
    for tr, info in results:
        if tr[0]["sc"]["kind"] in ("missing", "writer-failure", "fatal") and tr[0]["sc"]["op"] == "dump_one" and info["source"].count("(") == 0:
            # corpus object not accepted by this format: only the frame condition is checked
            tr[0]["sc"]["kind"] = "fatal" if tr[0]["sc"]["kind"] != "writer-failure" else "fatal"
            if any(e["out"] not in ("PrepareDumpError",) for e in tr[1:]):
                # a writer failure (DumpError) after the file was opened: outside the return-value contract;
                # keep the frame condition by checking it here
                for i, e in enumerate(tr[1:]):
                    if e["changed"]:
                        key, what = describe(tr, i + 1, info)
                        run.violation(key, what, {"info": info, "trace": tr})
                skipped += 1
                continue
        traces.append(tr)
        infos.append(info)
    reached = validate_traces(run, "Trace_DumpFrame", traces, chunk=3000)
    for tr, info, r in zip(traces, infos, reached):
        run.count()
        run.distinct(hash((info["source"], info["fmt"], info["op"], tr[0]["sc"]["allow"], tr[0]["sc"]["kind"])))
        if r != len(tr):
            key, what = describe(tr, r, info)
            run.violation(key, what, {"info": info, "trace": tr, "failing_event": r + 1})
    run.notes["dump_sequences"] = len(traces)
    run.notes["writer_failures_checked_for_frame_condition_only"] = skipped
    for i in (0, len(traces) // 2, len(traces) - 1):
        run.sample({"source": infos[i]["source"], "format": infos[i]["fmt"], "trace": traces[i]})
    run.assumptions += ["the default core charges are materialised before the first snapshot (allowed by the statement)",
                        "for corpus objects the abstract kind (ok / convertible / rejected) is inferred from the first outcome; "
                        "the frame condition, return identity, announcement and equivalence clauses still bind"]


def _safe_dump_trace(task):
    try:
        return dump_trace(task)
    except Exception:
        return None


def replay(rec):
    print(json.dumps(rec["detail"], indent=1, default=str)[:3000])
    return 1
