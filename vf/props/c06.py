"""C06 -- overlap matrices are the exact inner products of the documented functions.

Specs: spec/Kernels.tla (the 1-D Gaussian product integral on the integer lattice p = 1/2 by the
Obara-Saika recurrence -- an independent derivation from the code's binomial expansion; symmetry;
same-centre moments) and spec/Overlap.tla (equivariance as a state machine over a pair of abstract
bases: translate, swap, change conventions, permute shells, segment).  Binding: (1) the code's
overlaps of Cartesian primitives on the lattice are converted to integers and validated by TLC against
the OS table (the kernel is a polynomial of bounded degree in the centre coordinates and 1/2p, so
agreement on a grid larger than the degrees extends to all real arguments); (2) TLC-simulated action
sequences are replayed on concrete bases and the sign-corrected, identity-labelled matrix must stay
invariant; (3) every matrix is compared with the reference evaluator (vf/refeval.py), checked for
symmetry and positive semidefiniteness, swept around the 1e-15 screening threshold, and unsupported
input must be rejected.
"""

from __future__ import annotations

import itertools
import json
import random

import numpy as np

from ..core import Run
from ..par import pmap
from ..tlaparse import state_vars
from ..tlc import run_tlc, simulate_behaviours, validate_traces

LEVEL = "other"


class CodeRaised(Exception):
    """compute_overlap raised on input inside its documented domain: a verdict about the code, not a failure of the harness."""


def co(*args):
    from iodata.overlap import compute_overlap
    try:
        return compute_overlap(*args)
    except Exception as exc:  # noqa: BLE001
        raise CodeRaised(f"{type(exc).__name__}: {str(exc)[:100]}") from exc


def dfact(n):
    r = 1
    while n > 1:
        r *= n
        n -= 2
    return r


# ------------------------------------------------------------------ (1) lattice kernel through the public API
def lattice_events(task):
    l0, l1, sep = task
    from iodata.basis import MolecularBasis, Shell
    from iodata.convert import HORTON2_CONVENTIONS, iter_cart_alphabet
    from iodata.overlap import compute_overlap
    ob0 = MolecularBasis([Shell(0, [l0], ["c"], [0.25], [[1.0]])], HORTON2_CONVENTIONS, "L2")
    ob1 = MolecularBasis([Shell(0, [l1], ["c"], [0.25], [[1.0]])], HORTON2_CONVENTIONS, "L2")
    A = np.zeros((1, 3))
    B = np.array([[2.0 * sep[0], 2.0 * sep[1], 2.0 * sep[2]]])
    try:
        Smat = co(ob0, A, ob1, B)
    except CodeRaised as exc:
        return [{"op": "Kernel3d", "na": [l0, 0, 0], "nb": [l1, 0, 0], "pa": [int(x) for x in sep], "value": 0, "exact": False, "raised": str(exc)}]
    n0 = [tuple(int(v) for v in n) for n in iter_cart_alphabet(l0)]
    n1 = [tuple(int(v) for v in n) for n in iter_cart_alphabet(l1)]
    r2 = float((B[0] ** 2).sum())
    evs = []
    for i, na in enumerate(n0):
        for j, nb in enumerate(n1):
            d0 = dfact(2 * na[0] - 1) * dfact(2 * na[1] - 1) * dfact(2 * na[2] - 1)
            d1 = dfact(2 * nb[0] - 1) * dfact(2 * nb[1] - 1) * dfact(2 * nb[2] - 1)
            k = Smat[i, j] * np.sqrt(d0 * d1) * np.exp(r2 / 8.0)
            # P - A = +sep, P - B = -sep on every axis
            evs.append({"op": "Kernel3d", "na": list(na), "nb": list(nb), "pa": [int(s) for s in sep], "value": int(round(k)),
                        "exact": bool(abs(k - round(k)) <= 1e-9 * max(1.0, abs(k)))})
    return evs


def kernel1d_events():
    """The 1-D kernel object of iodata.overlap, when it exists (extra binding; the public-API check above is the primary one)."""
    try:
        from iodata.overlap import GaussianOverlap
    except Exception:
        return []
    go = GaussianOverlap(7)
    evs = []
    for n1 in range(8):
        for n2 in range(8):
            rng_ = range(-3, 4) if max(n1, n2) < 7 else range(-2, 3)
            for pa in rng_:
                for pb in rng_:
                    v = go.compute_overlap_gaussian_1d(float(pa), float(pb), n1, n2, 1.0)
                    evs.append({"op": "Kernel1d", "n1": n1, "n2": n2, "pa": pa, "pb": pb, "value": int(round(v)),
                                "exact": bool(abs(v - round(v)) <= 1e-9 * max(1.0, abs(v)))})
    return evs


# ------------------------------------------------------------------ (2) equivariance replay
TYPES = {(0, "c"): "S", (1, "c"): "P", (2, "c"): "Dc", (2, "p"): "Dp", (3, "p"): "Fp"}


def conv_for(cid):
    from iodata.convert import HORTON2_CONVENTIONS as H
    out = {}
    for k in TYPES:
        labs = list(H[k])
        n = len(labs)
        if cid == 0:
            out[k] = labs
        elif cid == 1:
            out[k] = [("-" if (i + 1) % 2 == 0 else "") + labs[n - 1 - i] for i in range(n)]
        else:
            out[k] = [("-" if i == 0 else "") + labs[(i + 1) % n] for i in range(n)]
    return out


def concrete(basis, cid):
    """abstract shells (uid, c, cons, org) -> MolecularBasis; exponents / coefficients are functions of (uid, org)."""
    from iodata.basis import MolecularBasis, Shell
    shells = []
    for sh in basis:
        uid = sh["uid"]
        exps = [0.35 + 0.27 * uid, 1.1 + 0.13 * uid]
        coeffs = [[0.4 + 0.1 * o + 0.03 * uid for o in sh["org"]], [0.7 - 0.05 * o + 0.01 * uid for o in sh["org"]]]
        shells.append(Shell(sh["c"] - 1, [t[0] for t in sh["cons"]], [t[1] for t in sh["cons"]], exps, coeffs))
    return MolecularBasis(shells, conv_for(cid), "L2")


def labelled(basis, cid):
    """[(fid, sign)] per row of the concrete basis, following Wavefunction!Rows."""
    from ..refeval import parse_label
    conv = conv_for(cid)
    rows = []
    for sh in basis:
        for t, o in zip(sh["cons"], sh["org"]):
            for lab in conv[(t[0], t[1])]:
                sgn, what = parse_label(lab)
                rows.append(((sh["uid"], o, t[0], t[1], what), sgn))
    return rows


def matrix_dict(b0, c0, b1, c1, shift, swapped):
    from iodata.overlap import compute_overlap
    xyz = np.array([[0.1, -0.2, 0.3], [1.0, 0.7, -0.6]])
    s = np.array([0.37, -1.21, 2.5]) * shift
    o0, o1 = concrete(b0, c0), concrete(b1, c1)
    if swapped:
        S = co(o1, xyz + s, o0, xyz + s).T
    else:
        S = co(o0, xyz + s, o1, xyz + s)
    r0, r1 = labelled(b0, c0), labelled(b1, c1)
    return {(f0, f1): S[i, j] * s0 * s1 for i, (f0, s0) in enumerate(r0) for j, (f1, s1) in enumerate(r1)}, S, (o0, o1, xyz + s)


def decode_basis(v):
    return [{"uid": sh["uid"], "c": sh["c"], "cons": [(t[0], t[1]) for t in sh["cons"]], "org": list(sh["org"])} for sh in v]


def replay_behaviour(beh):
    from ..refeval import overlap as ref_overlap
    states = [state_vars(text) for _, text in beh]
    first = states[0]
    try:
        d0, _, _ = matrix_dict(decode_basis(first["b0"]), first["cv0"], decode_basis(first["b1"]), first["cv1"], first["shift"], first["swapped"])
    except CodeRaised as exc:
        return [{"op": "Equiv", "actions": [], "same": False, "ref_same": False, "raised": str(exc)}]
    evs = []
    for k, st in enumerate(states[1:], 1):
        try:
            d, S, (o0, o1, xyz) = matrix_dict(decode_basis(st["b0"]), st["cv0"], decode_basis(st["b1"]), st["cv1"], st["shift"], st["swapped"])
        except CodeRaised as exc:
            evs.append({"op": "Equiv", "actions": [s_["last"] for s_ in states[1:k + 1]], "same": False, "ref_same": False, "raised": str(exc)})
            continue
        same = set(d) == set(d0) and all(abs(d[key] - d0[key]) <= 1e-12 * max(1.0, abs(d0[key])) for key in d0)
        ev = {"op": "Equiv", "actions": [s["last"] for s in states[1:k + 1]], "same": bool(same), "ref_same": True}
        if k == len(states) - 1:
            R = ref_overlap(o0, xyz, o1, xyz)
            Sx = S if not st["swapped"] else S
            ev["ref_same"] = bool(np.allclose(Sx, R, rtol=1e-10, atol=1e-13))
        evs.append(ev)
    return evs


# ------------------------------------------------------------------ (3) reference comparison on random bases
def random_case(seed):
    from iodata.basis import MolecularBasis, Shell
    from iodata.convert import HORTON2_CONVENTIONS as H
    from iodata.overlap import compute_overlap
    from ..refeval import overlap as ref_overlap
    rng = random.Random(seed)
    ncenter = rng.randint(1, 4)
    xyz = np.array([[rng.uniform(-2, 2) for _ in range(3)] for _ in range(ncenter)])
    r = rng.random()
    if ncenter > 1 and r < 0.3:
        xyz[1] = xyz[0]   # coincident centres
    elif ncenter > 1 and r < 0.5:
        # nearly coincident along some axes (a planar molecule with numerical noise in one coordinate, a displaced copy)
        xyz[1] = xyz[0] + np.array([rng.choice([0.0, 1e-9, -3e-9, 1.5e-8, 1e-6, rng.uniform(-2, 2)]) for _ in range(3)])
    lmax = rng.choice([2, 3, 4, 7])

    # one case in six: the very same basis object at two different geometries, half of them with segmented shells only
    same_object = seed % 6 == 0
    only_segmented = same_object and (seed // 6) % 2 == 0

    def mk(nsh):
        shells = []
        for _ in range(nsh):
            ncon = 1 if only_segmented else rng.choice([1, 1, 1, 2, 3])
            ls = [rng.randint(0, lmax) for _ in range(ncon)]
            ks = [("p" if (l >= 2 and rng.random() < 0.5) else "c") for l in ls]
            nexp = rng.randint(1, 3)
            shells.append(Shell(rng.randrange(ncenter), ls, ks, [10 ** rng.uniform(-2, 2.5) for _ in range(nexp)],
                                [[rng.uniform(-1, 1) for _ in range(ncon)] for _ in range(nexp)]))
        conv = {}
        for k, v in H.items():
            if k[0] <= lmax:
                labs = list(v)
                rng.shuffle(labs)
                conv[k] = [("-" if rng.random() < 0.4 else "") + x for x in labs]
        return MolecularBasis(shells, conv, "L2")

    two = rng.random() < 0.5 or same_object
    nsh = 1 if lmax == 7 else rng.randint(1, 3)
    o0 = mk(nsh)
    ev = {"op": "Reference", "seed": seed, "lmax": lmax, "two": two, "othergeom": False, "sym": True, "psd": True, "transpose": True}
    # deviations are measured against the norms of the two functions, sqrt(<i|i><j|j>) from the reference evaluator: an element
    # that is small because the functions hardly overlap (or cancel) carries the rounding error of its large contributions
    d0 = np.sqrt(np.abs(np.diag(ref_overlap(o0, xyz))))
    try:
        if two:
            o1 = mk(1 if lmax == 7 else rng.randint(1, 2))
            if rng.random() < 0.3 or same_object:
                o1 = o0        # the very same basis object at two geometries (two frames of a trajectory)
            # the second basis has its own geometry: the same centre index does not mean the same position
            xyz1 = xyz if (rng.random() < 0.4 and not same_object) else xyz + np.array([[rng.uniform(-1.5, 1.5) for _ in range(3)] for _ in range(ncenter)])
            ev["othergeom"] = xyz1 is not xyz
            d1 = np.sqrt(np.abs(np.diag(ref_overlap(o1, xyz1))))
            scale = np.outer(d0, d1) + 1e-300
            S = co(o0, xyz, o1, xyz1)
            R = ref_overlap(o0, xyz, o1, xyz1)
            St = co(o1, xyz1, o0, xyz)
            ev["transpose"] = bool(St.shape == S.T.shape == scale.T.shape and np.all(np.abs(St - S.T) <= 1e-13 * scale.T))
        else:
            scale = np.outer(d0, d0) + 1e-300
            S = co(o0, xyz)
            R = ref_overlap(o0, xyz)
            if S.shape == scale.shape:
                ev["sym"] = bool(np.all(np.abs(S - S.T) <= 1e-13 * scale))
                ev["psd"] = bool(np.linalg.eigvalsh((S + S.T) / 2 / scale).min() >= -1e-10)
    except CodeRaised as exc:
        ev.update(maxrel=-1.0, same=False, raised=str(exc))
        return ev
    if S.shape != R.shape:
        ev.update(maxrel=-1.0, same=False, raised=f"shape {S.shape} instead of {R.shape}")
        return ev
    ev["maxrel"] = float((np.abs(S - R) / scale).max())
    # relative to the norms of the two functions; for l = 7 the alternating sums of the Cartesian -> pure transformation (and of the
    # recurrences of the reference) lose another digit: 1.7e-10 was seen once in 10^5 two-centre cases
    ev["same"] = bool(ev["maxrel"] <= (1e-10 if lmax <= 4 else 2e-9))
    return ev


def near_coincident_events():
    """Two centres a hair apart along one or two axes (noise in a coordinate of a planar molecule, a displaced copy of a basis):
    the terms linear in the displacement are part of the integral."""
    from iodata.basis import MolecularBasis, Shell
    from iodata.convert import HORTON2_CONVENTIONS as H
    from ..refeval import overlap as ref_overlap
    evs = []
    k = 0
    for l0 in range(4):
        for l1 in range(4):
            for delta in (1e-9, 5e-9, 1.5e-8, 8e-8):
                for a in (0.5, 30.0, 300.0):
                    k += 1
                    d = np.zeros(3)
                    d[k % 3] = delta
                    if k % 2:
                        d[(k + 1) % 3] = -0.6 * delta
                    xyz = np.array([[0.1, -0.2, 0.3], [0.1, -0.2, 0.3] + d])
                    ob = MolecularBasis([Shell(0, [l0], ["c"], [a], [[1.0]]), Shell(1, [l1], ["c"], [1.7 * a], [[1.0]])], H, "L2")
                    ev = {"op": "Reference", "seed": -k, "lmax": max(l0, l1), "two": False, "othergeom": False, "sym": True, "psd": True,
                          "transpose": True, "near": delta}
                    try:
                        S = co(ob, xyz)
                        R = ref_overlap(ob, xyz)
                        dg = np.sqrt(np.abs(np.diag(R)))
                        ev["maxrel"] = float((np.abs(S - R) / np.outer(dg, dg)).max())
                        ev["same"] = bool(ev["maxrel"] <= 1e-12)
                    except CodeRaised as exc:
                        ev.update(maxrel=-1.0, same=False, raised=str(exc))
                    evs.append(ev)
    return evs


def tf_table_events():
    """The Cartesian -> pure transformation tables of the code against the documented solid harmonics (docs/basis.rst via sympy):
    T[pure, cart] = coefficient of the monomial in the harmonic x N_pure / N_cart (independent of the exponent)."""
    from iodata.convert import iter_cart_alphabet
    from iodata.overlap import OVERLAP_CONVENTIONS
    from iodata.overlap_cartpure import tfs
    from ..refeval import cart_norm, parse_label, pure_norm, solid_harmonic
    evs = []
    for l in range(2, len(tfs)):
        carts = [tuple(int(v) for v in n) for n in iter_cart_alphabet(l)]
        labs = OVERLAP_CONVENTIONS[(l, "p")]
        T = np.zeros((len(labs), len(carts)))
        for i, lab in enumerate(labs):
            sgn, what = parse_label(lab)
            for mon, coef in solid_harmonic(l, what[1], what[2]).items():
                T[i, carts.index(mon)] = sgn * coef * pure_norm(1.3, l) / cart_norm(1.3, mon)
        got = np.asarray(tfs[l], dtype=float)
        dev = float(np.abs(T - got).max()) if got.shape == T.shape else -1.0
        evs.append({"op": "TfTable", "l": l, "maxdev": dev, "same": bool(0.0 <= dev <= 1e-13)})
    return evs


def screening_events():
    """Pairs of s primitives whose overlap prefactor sits around the 1e-15 threshold: the neglected contribution is < 1e-15."""
    from iodata.basis import MolecularBasis, Shell
    from iodata.convert import HORTON2_CONVENTIONS as H
    from iodata.overlap import compute_overlap
    from ..refeval import overlap as ref_overlap
    evs = []
    for a in (0.5, 2.0, 30.0):
        for target in (1e-13, 5e-15, 2e-15, 1.1e-15, 0.9e-15, 1e-16, 1e-18):
            # exp(-a*a/(2a) d^2) = target
            d = np.sqrt(-np.log(target) * 2.0 / a)
            ob = MolecularBasis([Shell(0, [0], ["c"], [a], [[1.0]]), Shell(1, [1], ["c"], [a], [[1.0]])], H, "L2")
            xyz = np.array([[0.0, 0.0, 0.0], [0.0, 0.0, d]])
            S = co(ob, xyz)
            R = ref_overlap(ob, xyz)
            # contributions whose Gaussian prefactor is below 1e-15 may be neglected (entry 0) or kept (entry = reference);
            # above the threshold the entry must be the reference value
            off = (slice(0, 1), slice(1, 4))
            kept = np.allclose(S[off], R[off], rtol=1e-9, atol=1e-300)
            dropped = bool(np.all(S[off] == 0.0))
            ok = kept or (dropped and target < 1e-15)
            evs.append({"op": "Screening", "a": a, "target": target, "same": bool(ok), "kept": bool(kept), "dropped": dropped})
    return evs


def rejection_events():
    from iodata.basis import MolecularBasis, Shell
    from iodata.convert import HORTON2_CONVENTIONS as H
    from iodata.overlap import compute_overlap
    xyz = np.zeros((1, 3))
    evs = []
    sh = [Shell(0, [0], ["c"], [1.0], [[1.0]])]
    for name, fn in (("non-L2 normalisation", lambda: compute_overlap(MolecularBasis(sh, H, "L1"), xyz)),
                     ("non-L2 second basis", lambda: compute_overlap(MolecularBasis(sh, H, "L2"), xyz, MolecularBasis(sh, H, "L1"), xyz)),
                     ("second basis without geometry", lambda: compute_overlap(MolecularBasis(sh, H, "L2"), xyz, MolecularBasis(sh, H, "L2"), None))):
        try:
            fn()
            r = "accepted"
        except Exception:  # noqa: BLE001
            r = "rejected"
        evs.append({"op": "Rejects", "what": name, "r": r})
    return evs


def check(run: Run):
    rng = random.Random(run.seed)
    run.cov["rule"] = (
        "(1) Cartesian primitive pairs l0, l1 <= 5 (quick) / 7 (thorough) on the integer lattice (separations in -2..2 per axis, "
        "subset) through compute_overlap, plus the 1-D kernel on 3136 lattice points; (2) TLC-simulated action sequences "
        "(translate, swap, change conventions, permute shells, segment) replayed on concrete two-basis pairs; (3) random "
        "one- and two-basis cases (1-4 centres incl. coincident, l <= 7, generalized contractions, exponents 1e-2..3e2, random "
        "signed-permutation conventions) against the reference evaluator, symmetry, PSD, transposition; screening sweeps; "
        "rejections; distinct by content")
    st = run_tlc(run, "MC_Kernels", "MC_Kernels_quick.cfg", workers=16, timeout=600, tag="MC_Kernels_quick")
    run.add_model(st)
    cfg = "MC_Overlap_thorough.cfg" if run.thorough() else "MC_Overlap_quick.cfg"
    st = run_tlc(run, "Overlap", cfg, workers=16, timeout=2400, tag=cfg[:-4])
    run.add_model(st)
    events = []
    lm = run.pick(4, 7)
    seps = [(0, 0, 0), (1, 0, 0), (-2, 0, 0), (0, 1, 0), (0, 0, -1), (1, -1, 0), (2, 1, -1), (-1, 2, 1)]
    tasks = [(l0, l1, s) for l0 in range(lm + 1) for l1 in range(lm + 1) for s in (seps if l0 + l1 <= 8 else seps[:5])]
    for sub in pmap(lattice_events, tasks):
        events += [e for e in sub if abs(e["value"]) < 2**31 - 1]
    events += kernel1d_events()
    behs = simulate_behaviours(run, "Overlap", "MC_Overlap_sim.cfg", num=run.pick(40, 400), depth=6, seed=run.seed + 5)
    for sub in pmap(replay_behaviour, behs, chunksize=1):
        events += sub
    events += pmap(random_case, [run.seed * 1009 + i for i in range(run.pick(60, 600))], chunksize=1)
    events += near_coincident_events()
    events += tf_table_events()
    events += screening_events()
    events += rejection_events()
    reached = validate_traces(run, "Trace_Kernels", [[e] for e in events], chunk=4000)
    kinds = {}
    worst = 0.0
    for e, r in zip(events, reached):
        run.count()
        kinds[e["op"]] = kinds.get(e["op"], 0) + 1
        run.distinct(hash(json.dumps(e, sort_keys=True)))
        if e["op"] == "Reference":
            worst = max(worst, e["maxrel"])
        if r != 1:
            if e["op"] in ("Kernel3d", "Kernel1d"):
                key = f"{e['op']} differs from the Obara-Saika table (parity n1+n2={'even' if (sum(e.get('na', [e.get('n1', 0)])) + sum(e.get('nb', [e.get('n2', 0)]))) % 2 == 0 else 'odd'})"
            elif e["op"] == "Equiv":
                key = f"overlap not equivariant under {e['actions'][-1]} (same={e['same']} ref_same={e['ref_same']})"
            elif e["op"] == "Reference":
                key = f"overlap differs from reference: two={e['two']} same={e['same']} sym={e['sym']} psd={e['psd']} transpose={e['transpose']} lmax={e['lmax']}"
            elif e["op"] == "TfTable":
                key = f"Cartesian->pure transformation table l={e['l']} differs from the documented solid harmonics"
            elif e["op"] == "Screening":
                key = f"screening: neglected contribution above 1e-15 (target={e['target']})"
            else:
                key = f"unsupported input accepted: {e['what']}"
            run.violation(key, json.dumps(e)[:1000], {"event": e})
    run.cov["explanation"] = (
        "TLC decides the integer Obara-Saika table, its symmetry and moments, and the invariance of function identities under the "
        "equivariance actions; the binding converts real overlaps on the lattice to integers (validated by TLC) and replays "
        "TLC-generated action sequences; exactness for general real exponents rests on the polynomial-identity argument and on "
        "the reference evaluator (a second implementation), not on TLC")
    run.notes["events_by_kind"] = kinds
    run.notes["worst_relative_deviation_from_reference"] = worst
    for k in kinds:
        run.sample(next(e for e in events if e["op"] == k))
    run.assumptions += ["the implementation's 1-D kernel is a polynomial in the centre coordinates and 1/(2p) of degree bounded by n1, n2",
                        "the reference evaluator (solid harmonics from docs/basis.rst with sympy, Obara-Saika) is a trusted second implementation"]


def replay(rec):
    print(json.dumps(rec["detail"]["event"], indent=1)[:3000])
    return 1
