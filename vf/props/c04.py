"""C04 -- every physical quantity is in atomic units, consistently across formats.

Spec: spec/Layouts.tla (`Loads`: the unit each format prescribes for each quantity; UnitTableTotal) and
spec/Units.tla (the conversion constants as scaled integers derived from independently stated CODATA
values).  The same tagged model is rendered in every geometry-carrying format by the independent writer
in the unit the table prescribes and loaded; TLC validates (a) that every dimensional attribute comes
back `same` in atomic units (a wrong factor shows up as `rescaled:<unit>`), (b) cross-format
agreement of coordinates / cell vectors / masses for every pair of formats carrying the quantity,
(c) the unit class of masses, energies, gradients and moments loaded from corpus files of the program
formats (GAMESS, Q-Chem, ORCA, FCHK, CHARMM, extended XYZ) against independent readings of the file,
(d) the conversion constants of iodata.utils against the CODATA table.
"""

from __future__ import annotations

import itertools
import json
import os
import random
import re
import shutil
import tempfile
import warnings

import numpy as np

from ..core import REPO, Run
from ..corpus import corpus
from ..par import pmap
from ..project import KNOWN_FACTORS, UNIT, get_key
from ..render import DIGITS, WRITERS, Model
from ..tlc import run_tlc, validate_traces
from . import c03

LEVEL = "exploration"

# CODATA 2018, stated independently of scipy / iodata
BOHR_M = 0.529177210903e-10
HARTREE_J = 4.3597447222071e-18
HARTREE_EV = 27.211386245988
AUT_S = 2.4188843265857e-17
ME_KG = 9.1093837015e-31
NA = 6.02214076e23
CAL = 4.184
CONSTANTS = {
    "angstrom": 1e-10 / BOHR_M, "electronvolt": 1.0 / HARTREE_EV, "meter": 1.0 / BOHR_M, "nanometer": 1e-9 / BOHR_M,
    "second": 1.0 / AUT_S, "picosecond": 1e-12 / AUT_S, "amu": 1e-3 / (ME_KG * NA), "kcalmol": 1e3 * CAL / NA / HARTREE_J,
    "calmol": CAL / NA / HARTREE_J, "kjmol": 1e3 / NA / HARTREE_J,
}
# isotopic masses [u] of the most abundant isotope (for the unit class of masses read from program files)
ISOTOPE = {1: 1.00783, 2: 4.0026, 3: 7.016, 5: 11.0093, 6: 12.0, 7: 14.00307, 8: 15.99491, 9: 18.9984, 14: 27.97693, 15: 30.97376,
           16: 31.97207, 17: 34.96885, 35: 78.91834}
AVERAGE = {1: 1.008, 6: 12.011, 7: 14.007, 8: 15.999, 9: 18.998, 16: 32.06, 17: 35.45}


def scaled(v):
    """value -> (integer with 9 significant digits, decimal exponent)"""
    e = 0
    x = float(v)
    while x < 1e8:
        x *= 10
        e += 1
    while x >= 1e9:
        x /= 10
        e -= 1
    return int(round(x)), e


def units_module():
    rows = []
    for name, v in CONSTANTS.items():
        s, e = scaled(v)
        rows.append(f'  {name} |-> [value |-> {s}, exp |-> {e}]')
    return ("---- MODULE UnitsData ----\n(* generated from the CODATA 2018 values stated in vf/props/c04.py *)\nEXTENDS Integers\n"
            "ConstTable == [\n" + ",\n".join(rows) + " ]\n====\n")


def const_events():
    import iodata.utils as U
    evs = []
    for name, ref in CONSTANTS.items():
        s, e = scaled(ref)
        code = getattr(U, name, None)
        cs = int(round(code * 10.0 ** e)) if code is not None else -1
        evs.append({"op": "Const", "name": name, "code": cs, "rel": "same" if abs(cs - s) <= 20 else f"differs({cs} vs {s}e-{e})"})
    return evs


def mass_class(z, m_au):
    """Unit class of a loaded mass given the element: 'au' | 'amu' | 'other'."""
    ref = ISOTOPE.get(int(z)) or AVERAGE.get(int(z))
    if ref is None:
        return None
    for cand in ([ISOTOPE.get(int(z))] if int(z) in ISOTOPE else []) + ([AVERAGE[int(z)]] if int(z) in AVERAGE else []):
        if abs(m_au / (cand * UNIT["amu"]) - 1) < 0.02:
            return "au"
        if abs(m_au / cand - 1) < 0.02:
            return "amu"
    return "other"


def corpus_units(task):
    """Unit class of dimensional attributes loaded from one corpus file, judged against the file text."""
    path, fmt = task
    from iodata import api
    out = []
    with warnings.catch_warnings():
        warnings.simplefilter("ignore")
        try:
            obj = api.load_one(path, fmt=fmt)
        except Exception:
            return out
    base = os.path.basename(path)
    text = open(path, errors="replace").read()
    if obj.atmasses is not None and obj.atnums is not None:
        cls = {mass_class(z, m) for z, m in zip(obj.atnums, obj.atmasses) if m != 0.0} - {None}   # ghost atoms carry mass 0
        if cls:
            rel = "same" if cls == {"au"} else ("rescaled:amu^-1" if cls == {"amu"} else "differs")
            out.append({"op": "Cross", "fmt": fmt, "file": base, "load": "ok", "pairs": [{"what": f"{fmt}.atmasses vs isotopic masses in atomic units", "rel": rel}]})
    if fmt == "qchemlog" and (1, "c") in obj.moments:
        m = re.findall(r"Dipole Moment \(Debye\)\s*\n\s*X\s+(-?[\d.]+)\s+Y\s+(-?[\d.]+)\s+Z\s+(-?[\d.]+)", text)
        if m:
            file_debye = np.array([float(x) for x in m[-1]])
            got = np.asarray(obj.moments[(1, "c")])
            if np.allclose(got, file_debye * UNIT["debye"], rtol=1e-4, atol=1e-5):
                rel = "same"
            elif np.allclose(got, file_debye, atol=1e-6) and np.any(file_debye != 0):
                rel = "rescaled:debye^-1"
            else:
                rel = "differs"
            out.append({"op": "Cross", "fmt": fmt, "file": base, "load": "ok", "pairs": [{"what": "qchemlog.moments[(1,c)] vs 'Dipole Moment (Debye)' in the log", "rel": rel}]})
    if fmt == "orcalog" and (1, "c") in obj.moments:
        m = re.findall(r"Total Dipole Moment\s+:\s+(-?[\d.]+)\s+(-?[\d.]+)\s+(-?[\d.]+)", text)
        if m:
            ok = np.allclose(obj.moments[(1, "c")], [float(x) for x in m[-1]], atol=1e-6)
            out.append({"op": "Cross", "fmt": fmt, "file": base, "load": "ok", "pairs": [{"what": "orcalog.moments[(1,c)] vs 'Total Dipole Moment' (a.u.)", "rel": "same" if ok else "differs"}]})
    if fmt == "gamess" and obj.energy is not None:
        m = re.findall(r"E\(\S+\)=\s*(-?[\d.]+)", text) or re.findall(r"E=\s*(-?[\d.]+)", text)
        if m:
            ok = any(abs(obj.energy - float(x)) < 1e-6 for x in m)
            out.append({"op": "Cross", "fmt": fmt, "file": base, "load": "ok", "pairs": [{"what": "gamess.energy vs E= (hartree) in the punch file", "rel": "same" if ok else "differs"}]})
    return out


def extxyz_units(seed):
    """Extended XYZ (ASE): energy in eV, forces in eV/angstrom, positions in angstrom, masses in u."""
    from iodata import api
    rng = random.Random(seed)
    n = rng.randint(1, 4)
    e_ev = -round(rng.uniform(5, 50), 4)
    pos = [[round(rng.uniform(-3, 3), 6) for _ in range(3)] for _ in range(n)]
    frc = [[round(rng.uniform(-2, 2), 6) for _ in range(3)] for _ in range(n)]
    lines = [str(n), f"Properties=species:S:1:pos:R:3:force:R:3 energy={e_ev}"]
    for p, f in zip(pos, frc):
        lines.append("O " + " ".join(f"{x:.6f}" for x in p + f))
    tmp = tempfile.mkdtemp(prefix="c04_")
    try:
        path = os.path.join(tmp, "m.extxyz")
        open(path, "w").write("\n".join(lines) + "\n")
        with warnings.catch_warnings():
            warnings.simplefilter("ignore")
            obj = api.load_one(path, fmt="extxyz")
        pairs = []
        ok = np.isclose(obj.energy, e_ev * UNIT["electronvolt"], rtol=1e-8)
        pairs.append({"what": "extxyz.energy (eV in the file)", "rel": "same" if ok else ("rescaled:electronvolt^-1" if np.isclose(obj.energy, e_ev) else "differs")})
        g_au = -np.array(frc) * UNIT["electronvolt"] / UNIT["angstrom"]
        ok = np.allclose(obj.atgradient, g_au, rtol=1e-8)
        pairs.append({"what": "extxyz.atgradient (forces in eV/angstrom in the file)",
                      "rel": "same" if ok else ("rescaled:electronvolt/angstrom^-1" if np.allclose(obj.atgradient, -np.array(frc)) else "differs")})
        return {"op": "Cross", "fmt": "extxyz", "file": "rendered", "load": "ok", "pairs": pairs}
    finally:
        shutil.rmtree(tmp, ignore_errors=True)


QUANT = {"atcoords": ["xyz", "extxyz", "sdf", "pdb", "gromacs", "charmm", "mol2", "poscar", "chgcar", "locpot", "cube", "gaussianinput",
                      "json_qcschema", "fchk"],
         "cellvecs": ["extxyz", "gromacs", "poscar", "chgcar", "locpot"], "atmasses": ["extxyz", "charmm", "fchk", "json_qcschema"]}


def cross_model(task):
    """One model, every format carrying the quantity: loaded values must agree pairwise."""
    seed, natom, tables = task
    from iodata import api
    loaded = {}
    tmp = tempfile.mkdtemp(prefix="c04x_")
    try:
        for fmt in sorted({f for fs in QUANT.values() for f in fs}):
            rng = random.Random(seed)
            m = Model(rng, natom, digits=3, mag="small", elements=[1, 6, 7, 8, 9, 16, 17])
            m.xyz = np.round(m.xyz, 2)   # representable in every format's columns, also when written in nm
            # the same physical model: coordinates are given in angstrom; GRO is written in nm, Cube/FCHK/JSON in bohr
            mm = Model(rng, natom, digits=3, mag="small", elements=[1, 6, 7, 8, 9, 16, 17])
            mm.__dict__.update(m.__dict__)
            mm.weights_are_masses = True
            unit = {"gromacs": 0.1, "cube": UNIT["angstrom"], "fchk": UNIT["angstrom"], "json_qcschema": UNIT["angstrom"]}.get(fmt, 1.0)
            mm.xyz = m.xyz * unit
            if fmt == "gromacs":
                mm.cell = m.cell
            fname, text, exp = WRITERS[fmt](mm, tables["layout"], rng, {"gromacs": "rect"}.get(fmt, "plain") if fmt != "poscar" else "direct")
            path = os.path.join(tmp, fname)
            open(path, "w").write(text)
            with warnings.catch_warnings():
                warnings.simplefilter("ignore")
                try:
                    loaded[fmt] = (api.load_one(path, fmt=fmt), exp)
                except Exception as exc:  # noqa: BLE001
                    return {"op": "Cross", "fmt": fmt, "file": "rendered", "load": f"{type(exc).__name__}", "pairs": []}
        pairs = []
        for q, fmts in QUANT.items():
            for a, b in itertools.combinations(fmts, 2):
                if q == "cellvecs" and "gromacs" in (a, b):
                    continue   # the GRO box of this model is written separately (nm, rectangular)
                va, vb = get_key(loaded[a][0], q), get_key(loaded[b][0], q)
                if va is None or vb is None:
                    pairs.append({"what": f"{q}: {a} vs {b}", "rel": "missing"})
                    continue
                va, vb = np.asarray(va, float), np.asarray(vb, float)
                if q in ("atcoords", "atmasses") and ("poscar" in (a, b) or "chgcar" in (a, b) or "locpot" in (a, b)) and q == "atcoords":
                    va, vb = np.sort(va, axis=0), np.sort(vb, axis=0)   # VASP groups atoms by element
                tol = 6e-3 * UNIT["angstrom"] if q == "atcoords" else (1e-3 if q == "atmasses" else 1e-5)
                if va.shape == vb.shape and np.allclose(va, vb, atol=tol, rtol=1e-6):
                    rel = "same"
                else:
                    rel = "differs"
                    for name, f in KNOWN_FACTORS.items():
                        if va.shape == vb.shape and (np.allclose(va * f, vb, rtol=1e-3) or np.allclose(va, vb * f, rtol=1e-3)):
                            rel = f"rescaled:{name}"
                pairs.append({"what": f"{q}: {a} vs {b}", "rel": rel})
        return {"op": "Cross", "fmt": "*", "file": f"model(seed={seed}, natom={natom})", "load": "ok", "pairs": pairs}
    finally:
        shutil.rmtree(tmp, ignore_errors=True)


def check(run: Run):
    rng = random.Random(run.seed)
    run.cov["rule"] = (
        "(a) independently rendered files of 15 formats x sizes x magnitudes: every dimensional attribute in atomic units; "
        "(b) one model rendered in every format carrying a quantity (coordinates: 14 formats, cell vectors: 5, masses: 4): all "
        "pairs agree; (c) unit class of masses / dipoles / energies / gradients of corpus files of GAMESS, Q-Chem, ORCA, FCHK, "
        "CHARMM and rendered extended-XYZ files against the numbers printed in the file; (d) the ten conversion constants of "
        "iodata.utils against CODATA 2018; distinct by content")
    tables = c03.load_tables(run)
    from ..tlc import write_module
    write_module(run, "UnitsData.tla", units_module())
    st = run_tlc(run, "MC_Units", "MC_Units.cfg", workers=2, timeout=120, tag="MC_Units")
    run.add_model(st)
    events = []
    # (a) rendered files, dimensional attributes
    tasks = c03.plan(run, rng, tables)
    for e in pmap(c03.one_load, tasks, chunksize=2):
        if e["load"].startswith("skip:"):
            continue
        dims = {x["key"] for x in tables["loads"][e["fmt"]] if x["cls"] == "real"}
        e["rel"] = {k: (v if k in dims else "same") for k, v in e["rel"].items()}
        events.append(e)
    # (b) cross-format agreement
    events += pmap(cross_model, [(rng.randint(0, 10**9), n, tables) for n in ([1, 2, 5, 12] * run.pick(2, 12))], chunksize=1)
    # (c) unit classes from corpus files and rendered extended XYZ
    files = [(p, f) for p, f, _ in corpus() if f in ("gamess", "qchemlog", "orcalog", "fchk", "charmm", "extxyz", "json_qcschema", "mwfn")
             and os.path.getsize(p) < 3_000_000]
    for sub in pmap(corpus_units, files, chunksize=1):
        events += sub
    events += pmap(extxyz_units, [run.seed * 13 + i for i in range(run.pick(5, 40))])
    # (d) constants
    events += const_events()
    reached = validate_traces(run, "Trace_Layouts", [[e] for e in events], chunk=2000)
    for e, r in zip(events, reached):
        run.count()
        run.distinct(hash(json.dumps(e, sort_keys=True)))
        if r != 1:
            if e["op"] == "Load":
                bad = sorted(f"{k}:{v}" for k, v in e["rel"].items() if v != "same")
                key = f"{e['fmt']} rendered file: {' '.join(bad) or e['load'].split(':')[0]} variant={e['variant']}"
            elif e["op"] == "Const":
                key = f"constant {e['name']} {e['rel']}"
            else:
                bad = sorted(f"{p['what']} -> {p['rel']}" for p in e["pairs"] if p["rel"] != "same")
                key = f"{e['fmt']} unit class: {'; '.join(bad)[:200] or e['load']}"
            run.violation(key, json.dumps(e)[:1500], {"event": e})
    run.notes["events_by_kind"] = {k: sum(1 for e in events if e["op"] == k) for k in ("Load", "Cross", "Const")}
    for k in ("Load", "Cross", "Const"):
        run.sample(next(e for e in events if e["op"] == k))
    run.assumptions += ["CODATA 2018 values are stated in the harness; constants must agree to 2e-8 relative",
                        "unit classes of program-log quantities are judged against the numbers printed in the file and isotopic masses"]


def replay(rec):
    print(json.dumps(rec["detail"]["event"], indent=1)[:3000])
    return 1
