"""C16 -- results depend only on the arguments, not on call history or interleaving.

Spec: spec/ApiGlobals.tla (several calls in flight sharing the process-global tables; no API step
writes a table; the outcome of a call is a function of its arguments).  TLC explores every
interleaving of 2-3 calls.  A pool of API calls (every format's load_one / load_many / dump_one /
dump_many / write_input / convert on corpus and generated data, incl. failing calls) gets a reference
outcome digest from a fresh interpreter per call; seeded permutations with repetitions in one
interpreter and multi-threaded runs (2..16 threads, plus forced two-thread schedules with barriers at
open / write / close) record (call, outcome digest, digest of all module-level tables) per completed
call and are validated by Trace_ApiGlobals.
"""

from __future__ import annotations

import hashlib
import importlib
import json
import os
import pkgutil
import random
import shutil
import subprocess
import sys
import tempfile
import threading
import warnings

from ..core import REPO, VERIF, Run
from ..par import pmap
from ..tlc import run_tlc, validate_traces

LEVEL = "model_checking"


# ------------------------------------------------------------------ global tables
def glob_digest():
    """Digest of every module-level table / constant of every iodata module."""
    import iodata
    from ..digest import deep
    items = []
    for mi in pkgutil.walk_packages(iodata.__path__, "iodata."):
        if ".test" in mi.name:
            continue
        try:
            mod = importlib.import_module(mi.name)
        except Exception:
            continue
        for name, val in sorted(vars(mod).items()):
            if name.startswith("_"):
                # private module state (a memo, a counter) is an implementation detail: it matters only through the results of
                # later calls, which are compared anyway; the property freezes the public lookup tables
                continue
            if isinstance(val, (dict, list, tuple, set, frozenset, int, float, str, bool)):
                if isinstance(val, (set, frozenset)):
                    val = sorted(val, key=repr)
                if name in ("FORMAT_MODULES", "INPUT_MODULES"):
                    val = {k: sorted(n for n in vars(v) if not n.startswith("__")) for k, v in val.items()}
                items.append((mi.name, name, repr(deep(val))))
    return hashlib.sha1(repr(items).encode()).hexdigest(), items


def glob_diff(items0, items1):
    d0 = {(m, n): v for m, n, v in items0}
    d1 = {(m, n): v for m, n, v in items1}
    # the same table object is visible under many module names: report the attribute names once
    return sorted({n for (m, n) in set(d0) | set(d1) if d0.get((m, n)) != d1.get((m, n))})


# ------------------------------------------------------------------ the call pool
def call_pool(rng, n_per_kind):
    from ..corpus import corpus
    from .. import objects as O
    from iodata.api import FORMAT_MODULES
    calls = []
    files = corpus()
    rng.shuffle(files)
    seen = {}
    for p, fmt, _ in files:
        if os.path.getsize(p) > 300000:
            continue
        # small files are cheap: several per format, so that two dialects of one format (an extended XYZ file with and one
        # without a Z column, ...) meet in one history
        if seen.get(fmt, 0) >= (n_per_kind if os.path.getsize(p) > 20000 else max(4, 3 * n_per_kind)):
            continue
        seen[fmt] = seen.get(fmt, 0) + 1
        calls.append({"kind": "load_one", "path": p, "fmt": fmt})
        if hasattr(FORMAT_MODULES[fmt], "load_many"):
            calls.append({"kind": "load_many", "path": p, "fmt": fmt})
    for fmt in O.DUMP_ONE:
        for i in range(n_per_kind):
            variants = O.VARIANTS.get(fmt, ["plain"])
            calls.append({"kind": "dump_one", "fmt": fmt, "seed": rng.randint(0, 10**6), "variant": variants[i % len(variants)],
                          "allow": bool(i % 2)})
    # wavefunctions with ghost / ECP centres, foreign conventions and unsorted shells (the C01 generator) to every wavefunction format
    for i, fmt in enumerate(("fchk", "molden", "molekel", "wfn", "wfx")):
        for ghost in ("ghost", "ecp"):
            cfg = {"fmt": fmt, "allow": True, "natom": 2, "ghost": ghost, "shells": [[1, [[0, "c"]]], [0, [[1, "c"]]], [0, [[2, "c"]]]],
                   "order": "reverse", "conv": ["wfn", "molden", "fchk", "cca", "horton2"][i], "mo": "rclosed", "virtuals": True,
                   "rdms": False, "big": False}
            calls.append({"kind": "dump_wfn", "fmt": fmt, "cfg": cfg, "seed": rng.randint(0, 10**6)})
    for fmt in O.DUMP_MANY:
        calls.append({"kind": "dump_many", "fmt": fmt, "seed": rng.randint(0, 10**6), "n": 3})
    for prog in ("gaussian", "orca"):
        calls.append({"kind": "write_input", "fmt": prog, "seed": rng.randint(0, 10**6)})
        calls.append({"kind": "write_input", "fmt": prog, "seed": rng.randint(0, 10**6)})
        # keyword arguments of one call say nothing about the next one
        calls.append({"kind": "write_input", "fmt": prog, "seed": rng.randint(0, 10**6),
                      "kwargs": {"charge": -1, "spinmult": 2, "title": "radical anion", "lot": "CCSD", "run_type": "opt"}})
    # conversions (load then dump) and failing calls
    conv = [("water.xyz", "xyz", "sdf"), ("water.mol2", "mol2", "pdb"), ("h2o_sto3g.fchk", "fchk", "molden"),
            ("h2o_sto3g.fchk", "fchk", "wfx"), ("h2o_sto3g.wfn", "wfn", "fchk"), ("water_sto3g_hf_g03.fchk", "fchk", "wfn"),
            ("h2_ub3lyp_ccpvtz.wfx", "wfx", "molekel"), ("li_sp_virtual_norm1.mkl", "molekel", "molden"),
            ("he2_ghost_psi4_1.0.molden", "molden", "wfx"), ("he2_ghost_psi4_1.0.molden", "molden", "fchk"),
            ("nh3_molden_cart.molden", "molden", "molekel"), ("nh3_turbomole.molden", "molden", "wfn")]
    data = os.path.join(REPO, "iodata", "test", "data")
    for src, f1, f2 in conv:
        if os.path.exists(os.path.join(data, src)):
            calls.append({"kind": "convert", "path": os.path.join(data, src), "fmt": f1, "out": f2})
    # damaged files: what a call makes of them (an error, a shorter object) does not depend on what was loaded before
    for name, fmt in (("water_sto3g_hf.wfx", "wfx"), ("h2o_sto3g.fchk", "fchk"), ("h2o_sto3g.wfn", "wfn"), ("nh3_molden_cart.molden", "molden"),
                      ("water.xyz", "xyz"), ("water_single.pdb", "pdb"), ("li_sp_virtual_norm1.mkl", "molekel")):
        if os.path.exists(os.path.join(data, name)):
            for mode in ("head", "drop", "stars"):
                calls.append({"kind": "load_damaged", "path": os.path.join(data, name), "fmt": fmt, "mode": mode})
    # ... and one file of every other format, damaged in the middle of a line (a Fortran overflow field `*****`): a reader that
    # keeps a token buffer or a counter between calls shows it in the next load
    have = {c["fmt"] for c in calls if c["kind"] == "load_damaged"}
    for p, fmt, _ in files:
        if fmt in have or os.path.getsize(p) > 300000:
            continue
        have.add(fmt)
        for mode in ("stars", "head"):
            calls.append({"kind": "load_damaged", "path": p, "fmt": fmt, "mode": mode})
    calls.append({"kind": "load_one", "path": os.path.join(data, "water.xyz"), "fmt": "fchk"})       # fails: wrong format
    calls.append({"kind": "load_one", "path": os.path.join(data, "water.xyz"), "fmt": "nonexistent"})  # fails: unknown format
    calls.append({"kind": "load_many", "path": os.path.join(data, "water.mol2"), "fmt": "cube"})     # fails: unsupported
    # calls that leave the format to be guessed from the file name (fmt=None), several operations on ONE name: names that match
    # the patterns of two formats with different capabilities (POSCAR* + *.xyz, ...) resolve per operation, whatever was asked
    # of the same name before; unambiguous names as controls
    names = ["POSCAR_traj.xyz", "CHGCAR.mol2", "LOCPOT_1.sdf", "mol.FCIDUMP.pdb", "POSCAR.fchk", "AECCAR0.xyz", "POSCAR.cube", "geom.xyz", "POSCAR"]
    # ... and names built from the registry itself: a prefix pattern of one format joined with a suffix pattern of another one whose
    # set of operations differs
    ops = ("load_one", "load_many", "dump_one", "dump_many")
    caps = {k: tuple(hasattr(m, o) for o in ops) for k, m in FORMAT_MODULES.items()}
    pre = [(k, pt[:-1]) for k, m in FORMAT_MODULES.items() for pt in m.PATTERNS if pt.endswith("*") and not pt.startswith("*")]
    suf = [(k, pt[1:]) for k, m in FORMAT_MODULES.items() for pt in m.PATTERNS if pt.startswith("*.") and "*" not in pt[1:]]
    pairs = sorted((a + "_r" + b) for ka, a in pre for kb, b in suf if caps[ka] != caps[kb])
    names += [n for n in rng.sample(pairs, min(len(pairs), 2 * n_per_kind)) if n not in names]
    for name in names:
        for op in ("dump_one", "dump_many", "load_one", "load_many"):
            calls.append({"kind": "guess_" + op, "fmt": None, "name": name})
    for i, c in enumerate(calls):
        c["id"] = f"c{i:03d}"
    return calls


GUESS_XYZ = "3\nfirst\nO 0.0 0.0 0.1\nH 0.0 0.8 -0.5\nH 0.0 -0.8 -0.5\n3\nsecond\nO 0.0 0.0 0.2\nH 0.0 0.9 -0.5\nH 0.0 -0.9 -0.5\n"


def run_guess(c, tmp):
    """One operation on a shared file name with the format left to be guessed; the file lives in a directory of the calling thread."""
    import numpy as np
    from iodata import IOData, api
    from ..digest import digest
    d = os.path.join(tmp, "g_" + threading.current_thread().name)
    os.makedirs(d, exist_ok=True)
    path = os.path.join(d, c["name"])
    op = c["kind"][6:]
    if op.startswith("load"):
        with open(path, "w") as fh:
            fh.write(GUESS_XYZ)
        if op == "load_one":
            return "obj:" + digest(api.load_one(path))
        return "objs:" + hashlib.sha1(",".join(digest(o) for o in api.load_many(path)).encode()).hexdigest()
    if os.path.exists(path):
        os.remove(path)
    objs = [IOData(atnums=np.array([8, 1, 1]), atcoords=np.array([[0.0, 0.0, 0.1 * k], [0.0, 1.5, -1.0], [0.0, -1.5, -1.0]]),
                   cellvecs=np.diag([10.0, 11.0, 12.0]), title=f"guess {k}") for k in (1, 2)]
    if op == "dump_one":
        api.dump_one(objs[0], path)
    else:
        api.dump_many(iter(objs), path)
    with open(path, "rb") as fh:
        return "bytes:" + hashlib.sha1(fh.read()).hexdigest()


def run_call(c, tmp):
    """Execute one call; returns the outcome digest (object digest / bytes / exception class+message)."""
    from iodata import api
    from .. import objects as O
    from ..digest import digest
    with warnings.catch_warnings():
        warnings.simplefilter("ignore")
        try:
            k = c["kind"]
            if k.startswith("guess_"):
                return run_guess(c, tmp)
            if k == "load_one":
                return "obj:" + digest(api.load_one(c["path"], fmt=c["fmt"]))
            if k == "load_damaged":
                lines = open(c["path"]).read().splitlines(keepends=True)
                if c["mode"] == "head":
                    lines = lines[: max(2, (6 * len(lines)) // 10)]
                elif c["mode"] == "stars":
                    import re
                    # the first number with a decimal point on a line with several of them, two thirds into the file
                    for i in range((2 * len(lines)) // 3, len(lines)):
                        toks = re.findall(r"-?\d+\.\d+(?:[EeDd][-+]?\d+)?", lines[i])
                        if len(toks) >= 2:
                            lines[i] = lines[i].replace(toks[0], "*" * len(toks[0]), 1)
                            break
                elif c["fmt"] == "wfx":
                    i0 = next(i for i, ln in enumerate(lines) if ln.strip() == "<Number of Electrons>")
                    del lines[i0:i0 + 3]            # a mandatory section is missing
                else:
                    i0 = len(lines) // 3
                    del lines[i0:i0 + 2]
                dam = os.path.join(tmp, "damaged." + c["id"] + "_" + threading.current_thread().name)
                with open(dam, "w") as fh:
                    fh.writelines(lines)
                return "obj:" + digest(api.load_one(dam, fmt=c["fmt"]))
            if k == "load_many":
                return "objs:" + hashlib.sha1(",".join(digest(o) for o in api.load_many(c["path"], fmt=c["fmt"])).encode()).hexdigest()
            # all outputs of a run live in one directory and differ only in their extension (like o2.molden, o2.fchk, o2.wfn)
            out = os.path.join(tmp, "out." + c["id"] + "_" + threading.current_thread().name)
            if k == "dump_one":
                obj = O.make(c["fmt"], random.Random(c["seed"]), c["variant"])
                api.dump_one(obj, out, fmt=c["fmt"], allow_changes=c["allow"])
            elif k == "dump_wfn":
                from . import c01
                cfg = dict(c["cfg"], shells=[(cc, [tuple(t) for t in cons]) for cc, cons in c["cfg"]["shells"]])
                api.dump_one(c01.build(cfg, c["seed"]), out, fmt=c["fmt"], allow_changes=True)
            elif k == "dump_many":
                rng = random.Random(c["seed"])
                objs = [O.make(c["fmt"], rng, "plain") for _ in range(c["n"])]
                api.dump_many(iter(objs), out, fmt=c["fmt"])
            elif k == "write_input":
                obj = O.make("xyz", random.Random(c["seed"]), "plain")
                api.write_input(obj, out, c["fmt"], **c.get("kwargs", {}))
            elif k == "convert":
                from iodata.__main__ import convert
                convert(c["path"], out, infmt=c["fmt"], outfmt=c["out"], allow_changes=True)
            with open(out, "rb") as fh:
                return "bytes:" + hashlib.sha1(fh.read()).hexdigest()
        except Exception as exc:  # noqa: BLE001
            msg = str(exc).replace(tmp, "<TMP>")
            msg = "".join(ch for ch in msg if ch.isprintable())
            import re
            msg = re.sub(r"<TMP>/\S+", "<TMP>/file", msg)
            return "exc:" + type(exc).__name__ + ":" + hashlib.sha1(msg.encode()).hexdigest()[:12]


def _child(mode, spec_path):
    """Entry point of the helper interpreters (python -m vf.props.c16 <mode> <spec>)."""
    spec = json.load(open(spec_path))
    tmp = tempfile.mkdtemp(prefix="c16c_")
    try:
        if mode == "ref":
            out = {c["id"]: run_call(c, tmp) for c in spec["calls"]} if spec.get("batch") else None
            if out is None:
                out = {spec["calls"][0]["id"]: run_call(spec["calls"][0], tmp)}
            print("RESULT " + json.dumps(out))
            return
        g0, items0 = glob_digest()
        events = []
        lock = threading.Lock()
        calls = {c["id"]: c for c in spec["calls"]}

        def do(cid):
            d = run_call(calls[cid], tmp)
            g, items = glob_digest() if mode == "seq" else (None, None)
            with lock:
                ev = {"call": cid, "digest": d, "glob": g if g is not None else g0}
                if g is not None and g != g0:
                    ev["changed"] = glob_diff(items0, items)
                events.append(ev)

        if mode == "seq":
            for cid in spec["order"]:
                do(cid)
        else:  # threads: every thread runs its own list; tables are digested when all threads are done
            barrier = threading.Barrier(len(spec["threads"]))
            if spec.get("switch"):
                import sys
                sys.setswitchinterval(spec["switch"])     # preempt threads inside the numerical kernels, not only at I/O
            if spec.get("forced"):
                _install_forced_schedule(spec["forced"])

            def worker(lst):
                barrier.wait()
                for cid in lst:
                    do(cid)
            ths = [threading.Thread(target=worker, args=(lst,), name=f"t{i}") for i, lst in enumerate(spec["threads"])]
            for t in ths:
                t.start()
            for t in ths:
                t.join()
            g, items = glob_digest()
            for ev in events:
                ev["glob"] = g
            if g != g0:
                events[-1]["changed"] = glob_diff(items0, items)
        print("RESULT " + json.dumps({"glob0": g0, "events": events}))
    finally:
        shutil.rmtree(tmp, ignore_errors=True)


def _install_forced_schedule(points):
    """Force two threads to alternate at the shim points (open / every k-th write / close)."""
    import builtins
    import iodata.api
    import iodata.utils
    turn = {"n": 0}
    cond = threading.Condition()
    names = ["t0", "t1"]

    def handoff():
        me = threading.current_thread().name
        if me not in names:
            return
        with cond:
            turn["n"] += 1
            cond.notify_all()
            cond.wait(timeout=0.02)  # let the other thread run up to its next point (never blocks for long)

    class F:
        def __init__(self, fh):
            self._fh = fh
            self._k = 0

        def write(self, s):
            self._k += 1
            if "write" in points and self._k % 7 == 1:
                handoff()
            return self._fh.write(s)

        def __iter__(self):
            return self

        def __next__(self):
            self._k += 1
            if "read" in points and self._k % 11 == 1:
                handoff()
            return next(self._fh)

        def close(self):
            if "close" in points:
                handoff()
            return self._fh.close()

        def __enter__(self):
            return self

        def __exit__(self, *a):
            self.close()

        def __getattr__(self, n):
            return getattr(self._fh, n)

    def fopen(path, mode="r", *a, **k):
        if "open" in points:
            handoff()
        return F(builtins.open(path, mode, *a, **k))

    iodata.api.open = fopen
    iodata.utils.open = fopen


def spawn(mode, spec, timeout=600):
    fd, path = tempfile.mkstemp(prefix="c16spec_", suffix=".json")
    with os.fdopen(fd, "w") as fh:
        json.dump(spec, fh)
    try:
        env = dict(os.environ, PYTHONPATH=f"{VERIF}:{REPO}", PYTHONHASHSEED="0", OMP_NUM_THREADS="1")
        p = subprocess.run(["/venv/bin/python", "-m", "vf.props.c16", mode, path], env=env, stdout=subprocess.PIPE,
                           stderr=subprocess.PIPE, text=True, timeout=timeout)
        for ln in p.stdout.splitlines():
            if ln.startswith("RESULT "):
                return json.loads(ln[7:])
        from ..core import MachineryError
        raise MachineryError(f"c16 helper ({mode}) failed: rc={p.returncode}\n{p.stderr[-2000:]}")
    finally:
        os.remove(path)


def _ref_one(c):
    return spawn("ref", {"calls": [c]})


def _seq(spec):
    return spawn("seq", spec)


def _thr(spec):
    return spawn("threads", spec)


def check(run: Run):
    rng = random.Random(run.seed)
    run.cov["rule"] = (
        "pool of API calls (load_one/load_many of corpus files of every module, dump_one of generated objects of every "
        "format incl. rejected and converted ones, dump_many, write_input, conversions, failing calls, the four operations with "
        "the format guessed from one shared file name, incl. names matching two formats of different capabilities); reference outcome "
        "from a fresh interpreter per call; histories = seeded permutations with repetitions in one interpreter; schedules "
        "= 2..16 threads on distinct files plus forced two-thread alternation at open/write/read/close; distinct by "
        "(history or schedule, call)")
    cfg = "MC_ApiGlobals_thorough.cfg" if run.thorough() else "MC_ApiGlobals_quick.cfg"
    st = run_tlc(run, "MC_ApiGlobals", cfg, workers=8, timeout=600, tag=cfg[:-4])
    run.add_model(st)
    calls = call_pool(rng, run.pick(1, 3))
    ids = [c["id"] for c in calls]
    refs = {}
    for r in pmap(_ref_one, calls, chunksize=1):
        refs.update(r)
    # sequential histories
    seqs = []
    for h in range(run.pick(6, 24)):
        order = [rng.choice(ids) for _ in range(len(ids))] if h % 2 else rng.sample(ids, len(ids)) + rng.sample(ids, len(ids) // 2)
        seqs.append({"calls": calls, "order": order})
    gids = [c["id"] for c in calls if c["kind"].startswith("guess_")]
    for h in range(run.pick(2, 8)):
        seqs.append({"calls": calls, "order": [rng.choice(gids) for _ in range(3 * len(gids))]})
    thr = []
    for nt in ([2, 4, 16] if not run.thorough() else [2, 3, 4, 8, 16, 16]):
        lists = [[rng.choice(ids) for _ in range(run.pick(12, 30))] for _ in range(nt)]
        thr.append({"calls": calls, "threads": lists})
    # compute-heavy calls (basis-set normalisation checks, overlap matrices, conversions) preempted at a fine switch interval
    heavy = [c["id"] for c in calls if c["fmt"] in ("molden", "molekel", "fchk", "wfn", "wfx", "mwfn") or c["kind"] in ("convert", "dump_wfn")]
    for nt in ([2, 4, 8] if not run.thorough() else [2, 2, 3, 4, 4, 8, 8, 16]):
        lists = [[rng.choice(heavy) for _ in range(run.pick(8, 20))] for _ in range(nt)]
        thr.append({"calls": calls, "threads": lists, "switch": 1e-5})
    io_calls = [c["id"] for c in calls if c["kind"] in ("dump_one", "dump_many", "load_one", "load_many", "convert", "dump_wfn") or c["kind"].startswith("guess_")]
    for pts in (["open"], ["write", "read"], ["open", "close"], ["open", "write", "read", "close"]):
        for rep in range(run.pick(2, 6)):
            lists = [[rng.choice(io_calls) for _ in range(10)] for _ in range(2)]
            thr.append({"calls": calls, "threads": lists, "forced": pts})
    seq_res = pmap(_seq, seqs, chunksize=1)
    thr_res = pmap(_thr, thr, chunksize=1)
    traces, meta = [], []
    for kind, specs, results in (("seq", seqs, seq_res), ("threads", thr, thr_res)):
        for spec, res in zip(specs, results):
            hdr = {"refs": refs, "glob0": res["glob0"]}
            evs = [{"call": e["call"], "digest": e["digest"], "glob": e["glob"]} for e in res["events"]]
            traces.append([hdr] + evs)
            meta.append((kind, spec, res))
    reached = validate_traces(run, "Trace_ApiGlobals", traces, chunk=50)
    byid = {c["id"]: c for c in calls}
    for tr, (kind, spec, res), r in zip(traces, meta, reached):
        for e in tr[1:]:
            run.count()
            run.distinct(hash((kind, json.dumps(spec.get("order") or spec.get("threads")), e["call"])))
        if r != len(tr):
            e = res["events"][r - 1]
            c = byid[e["call"]]
            desc = f"{c['kind']} {c.get('fmt') or c.get('name')}" + (f"->{c['out']}" if "out" in c else "")
            if e["glob"] != res["glob0"]:
                changed = e.get("changed") or next((x.get("changed") for x in res["events"] if x.get("changed")), [])
                key = f"{kind}: module-level table changed: {','.join(changed) or '?'}" + (f" after {desc}" if kind == "seq" else "")
                what = f"after {desc} the module-level tables {changed} differ from their state at import"
            else:
                key = f"{kind}: outcome of {desc} differs from its outcome alone in a fresh interpreter"
                what = f"call {c} returned {e['digest']} but {refs[e['call']]} when run alone"
            run.violation(key, what, {"kind": kind, "call": c, "event": e,
                                      "history": (spec.get("order") or spec.get("threads")), "forced": spec.get("forced")})
    run.notes["pool"] = len(calls)
    run.notes["sequential_histories"] = len(seqs)
    run.notes["threaded_runs"] = len(thr)
    run.sample({"call": calls[0], "ref": refs[calls[0]["id"]]})
    run.sample({"history_prefix": seqs[0]["order"][:10]})
    run.sample({"threads": [l[:4] for l in thr[0]["threads"]]})
    run.assumptions += [
        "only modifications made by API calls count; callers mutating shared convention dictionaries are outside the statement",
        "thread runs execute in a separate interpreter; Python's process-global warnings state is not one of the listed tables",
        "reference outcomes come from one fresh interpreter per call",
    ]


def replay(rec):
    print(json.dumps(rec["detail"], indent=1)[:3000])
    print("re-run ./check C16 with the recorded seed to re-execute the history")
    return 1


if __name__ == "__main__":
    _child(sys.argv[1], sys.argv[2])
