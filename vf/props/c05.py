"""C05 -- Molden / Molekel files from quirky programs load as the true wavefunction.

Spec: spec/Vendors.tla (every vendor encoding as a map shell type -> symbolic distortion, every correction of
the loader as the inverse map, the norm test abstracted as "the composite is the identity on the shells
present"; TLC checks StandardNeedsNoFix, CascadeSound, CascadeCompleteForVendor, NoFixOnlyIfIdentity over
every subset of shell types each vendor allows).  The harness builds true wavefunctions with complete
orthonormal orbital sets (reference overlap), writes them with an independent Molden / Molekel writer that
applies the vendor's distortion table (transcribed from the programs' documented deviations), loads them
with the real code and records (same wavefunction at probe points?, orbitals orthonormal w.r.t. the
returned basis?, warning text | LoadError); TLC validates each record against Admissible(vendor, types).
"""

from __future__ import annotations

import itertools
import json
import os
import random
import re
import shutil
import tempfile
import warnings
from math import pi, sqrt

import numpy as np

from ..core import Run
from ..par import pmap
from ..refeval import basis_values, cart_norm, orthonormal_orbitals, overlap as ref_overlap
from ..tlc import run_tlc, validate_traces

LEVEL = "exploration"
ANG = 1.0 / 0.529177210903

# function order of the Molden format (labels as in docs/basis.rst)
MOLDEN_ORDER = {
    (0, "c"): ["1"], (1, "c"): ["x", "y", "z"],
    (2, "c"): ["xx", "yy", "zz", "xy", "xz", "yz"],
    (3, "c"): ["xxx", "yyy", "zzz", "xyy", "xxy", "xxz", "xzz", "yzz", "yyz", "xyz"],
    (4, "c"): ["xxxx", "yyyy", "zzzz", "xxxy", "xxxz", "xyyy", "yyyz", "xzzz", "yzzz", "xxyy", "xxzz", "yyzz", "xxyz", "xyyz", "xyzz"],
    (2, "p"): ["c0", "c1", "s1", "c2", "s2"], (3, "p"): ["c0", "c1", "s1", "c2", "s2", "c3", "s3"],
    (4, "p"): ["c0", "c1", "s1", "c2", "s2", "c3", "s3", "c4", "s4"],
    (5, "p"): ["c0", "c1", "s1", "c2", "s2", "c3", "s3", "c4", "s4", "c5", "s5"],
}
TYPE_NAME = {(0, "c"): "s", (1, "c"): "p", (2, "c"): "dc", (2, "p"): "dp", (3, "c"): "fc", (3, "p"): "fp", (4, "c"): "gc", (4, "p"): "gp",
             (5, "p"): "hp"}
ALLOWED = {"standard": ["s", "p", "dc", "dp", "fc", "fp", "gc", "gp"], "unnormalized": ["s", "p", "dc", "dp", "fc", "fp", "gc", "gp"],
           "orca": ["s", "p", "dp", "fp", "gp", "hp"], "psi4_old": ["s", "p", "dp", "fp"], "turbomole": ["s", "p", "dc", "fc", "gc"],
           "cfour": ["s", "p", "dc", "fc", "gc"], "psi4_new": ["s", "p", "dc", "fc", "gc"]}
NAME_TYPE = {v: k for k, v in TYPE_NAME.items()}
LCHAR = "spdfgh"


def gobn(alpha, n):
    return cart_norm(alpha, n)


# ---- the documented deviations, applied in the forward direction (true wavefunction -> what the program writes)
def prim_factor(vendor, t, alpha):
    l, k = t
    if vendor in ("orca", "psi4_old"):
        mono = {(0, "c"): (0, 0, 0), (1, "c"): (1, 0, 0), (2, "p"): (1, 1, 0), (3, "p"): (1, 1, 1)}
        if vendor == "orca":
            mono.update({(4, "p"): (2, 1, 1), (5, "p"): (5, 0, 0)})
        if t in mono:
            f = gobn(alpha, mono[t])
            if vendor == "psi4_old" and t == (2, "p"):
                f /= sqrt(3.0)
            if vendor == "psi4_old" and t == (3, "p"):
                f /= sqrt(15.0)
            return f
    if vendor == "turbomole" and k == "c" and l in (2, 3, 4):
        return {2: 1 / sqrt(3.0), 3: 1 / sqrt(15.0), 4: 1 / sqrt(105.0)}[l]
    return 1.0


def mo_factors(vendor, t):
    l, k = t
    n = len(MOLDEN_ORDER[t])
    if k != "c" or l < 2:
        return np.ones(n)
    if vendor == "cfour":
        return {2: np.array([1 / sqrt(3.0)] * 3 + [1.0] * 3),
                3: np.array([1 / sqrt(15.0)] * 3 + [1 / sqrt(3.0)] * 6 + [1.0]),
                4: np.array([1 / sqrt(105.0)] * 3 + [1 / sqrt(15.0)] * 6 + [1 / 3.0] * 3 + [1 / sqrt(3.0)] * 3)}[l]
    if vendor == "psi4_new":
        return {2: np.sqrt([1] * 3 + [3] * 3), 3: np.sqrt([1] * 3 + [5] * 6 + [15]), 4: np.sqrt([1] * 3 + [7] * 6 + [35 / 3] * 3 + [35] * 3)}[l]
    return np.ones(n)


def sign_pattern(vendor, t):
    n = len(MOLDEN_ORDER[t])
    s = np.ones(n)
    if vendor == "orca" and t[1] == "p":
        for i, lab in enumerate(MOLDEN_ORDER[t]):
            m = int(lab[1:])
            if (t[0] in (3, 4) and m >= 3) or (t[0] == 5 and m in (3, 4)):
                s[i] = -1.0
    return s


def true_wavefunction(rng, types, natom, unrestricted, single_ok=False):
    """Basis (normalized contractions), atoms, complete orthonormal orbitals.  Shells have >= 2 primitives unless single_ok: with
    one primitive a vendor's primitive normalisation is an overall factor of the shell, which the renormalisation of contractions
    repairs as well (another admissible correction)."""
    from iodata.basis import MolecularBasis, Shell
    atnums = [rng.choice([1, 6, 8, 7]) for _ in range(natom)]
    xyz = np.array([[round(rng.uniform(-0.8, 0.8) + 2.3 * i, 6) for _ in range(3)] for i in range(natom)])
    shells = []
    # atoms that carry basis functions: any non-empty subset (a bare nucleus or point charge in the middle of the list is valid)
    allowed = sorted(rng.sample(range(natom), rng.randint(1, natom)))
    centers = sorted(rng.choice(allowed) for _ in types)
    for c, t in zip(centers, types):
        nexp = rng.choice([2, 2, 3] if not single_ok else [1, 2, 3])
        exps = sorted((round(10 ** rng.uniform(-0.5, 0.9), 7) for _ in range(nexp)), reverse=True)
        while len(set(exps)) < nexp:
            exps = sorted((round(10 ** rng.uniform(-0.5, 0.9), 7) for _ in range(nexp)), reverse=True)
        if rng.random() < 0.5:
            exps = exps[::-1] if rng.random() < 0.5 else rng.sample(exps, len(exps))   # diffuse-to-tight or any order: equally valid
        co = [[round(rng.uniform(0.3, 1.0), 7)] for _ in exps]
        shells.append(Shell(c, [t[0]], [t[1]], exps, co))
    ob = MolecularBasis(shells, dict(MOLDEN_ORDER), "L2")
    # normalise every contraction with the reference overlap (a standard file has normalised contractions)
    for i, sh in enumerate(shells):
        one = MolecularBasis([Shell(0, sh.angmoms, sh.kinds, sh.exponents, sh.coeffs)], dict(MOLDEN_ORDER), "L2")
        d = ref_overlap(one, np.zeros((1, 3)))[0, 0]
        sh.coeffs[:] = sh.coeffs / sqrt(d)
    ca = orthonormal_orbitals(rng, ob, xyz)
    cb = orthonormal_orbitals(rng, ob, xyz) if unrestricted else None
    n = ca.shape[1]
    ea = np.sort([round(rng.uniform(-2, 2), 6) for _ in range(n)])
    eb = np.sort([round(rng.uniform(-2, 2), 6) for _ in range(n)]) if unrestricted else None
    nocc = max(1, n // 2)
    return {"atnums": atnums, "xyz": xyz, "obasis": ob, "ca": ca, "cb": cb, "ea": ea, "eb": eb, "nocc": nocc}


def distorted(wf, vendor, rng, corrupt=False):
    """(file contraction coefficients per shell, file MO coefficient matrices) for the vendor's encoding."""
    ob = wf["obasis"]
    file_coeffs = []
    rowf = []
    for sh in ob.shells:
        t = (int(sh.angmoms[0]), str(sh.kinds[0]))
        col = np.array([c[0] for c in sh.coeffs])
        col = col * np.array([prim_factor(vendor, t, a) for a in sh.exponents])
        if vendor in ("unnormalized", "psi4_new"):
            col = col * round(rng.uniform(1.3, 2.7), 3)        # an arbitrary scale of the whole contraction
        file_coeffs.append(col)
        rowf.append(mo_factors(vendor, t) * sign_pattern(vendor, t))
    rowf = np.concatenate(rowf)
    if corrupt:
        rowf = rowf.copy()
        # one basis function scaled: no known correction undoes this ("slight": by so little that only a strict threshold notices)
        rowf[rng.randrange(len(rowf))] *= 1.37 if corrupt is True else 1.0 + 7e-5
    ca = wf["ca"] * rowf[:, None]
    cb = None if wf["cb"] is None else wf["cb"] * rowf[:, None]
    return file_coeffs, ca, cb


def write_molden(wf, file_coeffs, ca, cb, unit, title=True, mo_digits=None, interleave=False):
    ob = wf["obasis"]
    out = ["[Molden Format]"]
    if title:
        out += ["[Title]", " vendor file written by the independent writer"]
    f = 1.0 if "au" in unit.lower() else 1.0 / ANG       # the unit keyword is written as AU | Angs, by some programs as (AU) | (Angs)
    out.append(f"[Atoms] {unit}")
    sym = {1: "H", 6: "C", 7: "N", 8: "O"}
    for i, (z, r) in enumerate(zip(wf["atnums"], wf["xyz"])):
        out.append(f"{sym[z]:<3s} {i + 1:4d} {z:3d} {r[0] * f:18.10f} {r[1] * f:18.10f} {r[2] * f:18.10f}")
    out.append("[GTO]")
    for i in range(len(wf["atnums"])):
        out.append(f"{i + 1:4d} 0")
        for sh, col in zip(ob.shells, file_coeffs):
            if sh.icenter != i:
                continue
            out.append(f" {LCHAR[int(sh.angmoms[0])]}  {len(col):3d} 1.00")
            for a, c in zip(sh.exponents, col):
                out.append(f"  {a:20.10E} {c:20.10E}")
        out.append("")
    pure = {int(sh.angmoms[0]) for sh in ob.shells if sh.kinds[0] == "p"}
    if 2 in pure and 3 in pure:
        out.append("[5D]")
    elif 2 in pure:
        out.append("[5D10F]")
    elif 3 in pure:
        out.append("[7F]")
    if 4 in pure or 5 in pure:
        out.append("[9G]")
    out.append("[MO]")
    n = ca.shape[1]
    nocc = wf["nocc"]
    records = [("Alpha", ca, wf["ea"], j) for j in range(n)] + ([("Beta", cb, wf["eb"], j) for j in range(n)] if cb is not None else [])
    if interleave and cb is not None:
        # every orbital carries its own Spin= tag: alpha and beta records may alternate
        records = [r for j in range(n) for r in (("Alpha", ca, wf["ea"], j), ("Beta", cb, wf["eb"], j))]
    for spin, C, E, j in records:
        occ = (2.0 if cb is None else 1.0) if j < nocc else 0.0
        out += [f" Sym= {spin[0].lower()}{j + 1}", f" Ene= {E[j]:18.10f}", f" Spin= {spin}", f" Occup= {occ:10.6f}"]
        for mu in range(C.shape[0]):
            out.append(f" {mu + 1:5d} {C[mu, j]:22.14E}" if mo_digits is None else f" {mu + 1:5d} {C[mu, j]:12.{mo_digits}f}")
    return "\n".join(out) + "\n"


def write_molekel(wf, file_coeffs, ca, cb):
    ob = wf["obasis"]
    n = ca.shape[1]
    nocc = wf["nocc"]
    nel = (2 * nocc)
    out = ["$MKL", "#", "# written by the independent writer", "#", "$CHAR_MULT", f" {sum(wf['atnums']) - nel} 1", "$END", "", "$COORD"]
    for z, r in zip(wf["atnums"], wf["xyz"]):
        out.append(f"  {z:3d} {r[0] / ANG:14.8f} {r[1] / ANG:14.8f} {r[2] / ANG:14.8f}")
    out += ["$END", "", "$BASIS"]
    for i in range(len(wf["atnums"])):
        if i > 0:
            out.append("$$")
        for sh, col in zip(ob.shells, file_coeffs):
            if sh.icenter != i:
                continue
            t = (int(sh.angmoms[0]), str(sh.kinds[0]))
            out.append(f" {len(MOLDEN_ORDER[t])} {LCHAR[t[0]].upper()} 1.00")
            for a, c in zip(sh.exponents, col):
                out.append(f"{a:22.12f} {c:20.12f}")
    out += ["", "$END", ""]

    def block(C, E):
        lines = []
        for j in range(0, n, 5):
            lines.append(" ".join("a1g" for _ in range(j, min(n, j + 5))))
            lines.append(" ".join(f"{e:18.10f}" for e in E[j:j + 5]))
            for mu in range(C.shape[0]):
                lines.append(" ".join(f"{c:18.12f}" for c in C[mu, j:j + 5]))
        return lines

    def occ(val):
        o = [val if j < nocc else 0.0 for j in range(n)]
        return [" ".join(f"{x:12.7f}" for x in o[j:j + 5]) for j in range(0, n, 5)]
    out += ["$COEFF_ALPHA"] + block(ca, wf["ea"]) + [" $END", "", "$OCC_ALPHA"] + occ(2.0 if cb is None else 1.0) + [" $END", ""]
    if cb is not None:
        out += ["$COEFF_BETA"] + block(cb, wf["eb"]) + [" $END", "", "$OCC_BETA"] + occ(1.0) + [" $END", ""]
    return "\n".join(out) + "\n"


PROBE = np.array([[0.3, -0.2, 0.5], [-0.7, 0.9, 0.1], [1.5, 0.4, -0.6], [2.1, 1.7, 2.0], [0.05, 0.02, -0.03], [-1.1, -1.3, 0.8],
                  [3.9, 3.5, 4.4], [0.9, 2.2, 1.0], [2.8, 0.3, 1.9], [1.0, 1.0, 1.0]])


def correction_named(msg):
    """Which correction a LoadWarning names (by the program it mentions, not by the wording of the sentence)."""
    low = msg.lower()
    if "orca" in low:
        return "ORCA"
    if "psi4" in low:
        return "PSI4 <= 1.3.2" if "1.3" in low else "PSI4 < 1.0"
    if "turbomole" in low:
        return "Turbomole"
    if "cfour" in low:
        return "CFOUR 2.1"
    if "normaliz" in low and "contraction" in low:
        return "unnormalized contractions"
    return None


def vendor_case(task):
    vendor, tnames, fmt, unit, unres, thr, seed, corrupt = task[:8]
    mo_digits = task[8] if len(task) > 8 else None     # orbital coefficients printed with few decimals (as many programs do)
    from iodata import api
    from iodata.utils import LoadError, LoadWarning
    rng = random.Random(seed)
    types = [NAME_TYPE[n] for n in tnames]
    natom = rng.choice([1, 2, 2, 3, 3])
    ev = {"op": "Vendor", "vendor": "corrupt" if corrupt else vendor, "encoding": vendor, "types": sorted(set(tnames)), "fmt": fmt, "unit": unit,
          "unrestricted": unres, "norm_threshold": thr, "mo_digits": mo_digits or 0, "seed": seed, "out": "loaded", "same": True, "orthonormal": True, "irreps_ok": True, "warning": "none", "msg": ""}
    tmp = tempfile.mkdtemp(prefix="c05_")
    try:
        wf = true_wavefunction(rng, types, natom, unres, single_ok=vendor in ("standard", "unnormalized"))
        fc, ca, cb = distorted(wf, vendor, rng, corrupt)
        interleave = unres and seed % 2 == 1
        text = write_molden(wf, fc, ca, cb, unit, mo_digits=mo_digits, interleave=interleave) if fmt == "molden" else write_molekel(wf, fc, ca, cb)
        path = os.path.join(tmp, "v.molden" if fmt == "molden" else "v.mkl")
        open(path, "w").write(text)
        if mo_digits:
            # what the printed digits leave of the normalisation: when the rounded orbitals (the vendor's factors undone) miss unit
            # norm by more than half the threshold asked for, refusing the file is as right as loading it -- not a case
            rowf_ = np.concatenate([mo_factors(vendor, (int(sh.angmoms[0]), str(sh.kinds[0]))) * sign_pattern(vendor, (int(sh.angmoms[0]), str(sh.kinds[0])))
                                    for sh in wf["obasis"].shells])
            S0 = ref_overlap(wf["obasis"], wf["xyz"])
            worst = 0.0
            for C in (ca, cb):
                if C is None:
                    continue
                Cr = np.array([[float(f"{x:.{mo_digits}f}") for x in row] for row in C]) / rowf_[:, None]
                worst = max(worst, float(np.abs(np.einsum("ij,ik,kj->j", Cr, S0, Cr) - 1.0).max()))
            ev["rounding_norm_error"] = worst
            if worst > 0.5 * thr:
                ev["out"] = "skip"
                return ev
        with warnings.catch_warnings(record=True) as wl:
            warnings.simplefilter("always")
            try:
                obj = api.load_one(path, norm_threshold=thr)
            except LoadError as exc:
                ev["out"] = "LoadError"
                ev["msg"] = str(exc)[:100].replace(tmp, "")
                return ev
            except Exception as exc:  # noqa: BLE001
                ev["out"] = "other:" + type(exc).__name__
                ev["msg"] = str(exc)[:100]
                return ev
        names = []
        for w in wl:
            if issubclass(w.category, LoadWarning):
                nm = correction_named(str(w.message))
                if nm:
                    names.append(nm)
        ev["warning"] = names[0] if names else "none"
        if len(names) > 1:
            ev["warning"] = "several:" + ",".join(names)
        if fmt == "molden":
            # the symmetry label of every orbital stays with its orbital (alpha orbitals first, then beta)
            nmo = wf["ca"].shape[1]
            want = [f"a{j + 1}" for j in range(nmo)] + ([f"b{j + 1}" for j in range(nmo)] if wf["cb"] is not None else [])
            got = [] if obj.mo.irreps is None else [str(x) for x in obj.mo.irreps]
            ev["irreps_ok"] = got == want
        # same orbitals as functions of space, orthonormal w.r.t. the returned basis
        B0 = basis_values(wf["obasis"], wf["xyz"], PROBE)
        B1 = basis_values(obj.obasis, obj.atcoords, PROBE)
        tol = 2e-5 if fmt == "molekel" else 2e-6
        extra = 0.0
        if mo_digits:
            # every printed coefficient is off by up to half a unit of the last decimal; undoing the vendor's factor of a basis
            # function divides that error by the factor
            rowf = np.concatenate([mo_factors(vendor, (int(sh.angmoms[0]), str(sh.kinds[0]))) for sh in wf["obasis"].shells])
            extra = 2.0 * (0.5 * 10.0 ** (-mo_digits) / np.abs(rowf)) @ np.abs(B0)
        for C0, C1 in ((wf["ca"], obj.mo.coeffsa), (wf["cb"], obj.mo.coeffsb if wf["cb"] is not None else None)):
            if C0 is None:
                continue
            v0, v1 = C0.T @ B0, C1.T @ B1
            sc = np.abs(C0).T @ np.abs(B0)
            if v0.shape != v1.shape or not np.all(np.abs(v0 - v1) <= tol * (sc + 1e-3) + 1e-9 + extra):
                ev["same"] = False
            S = ref_overlap(obj.obasis, obj.atcoords)
            if not np.allclose(C1.T @ S @ C1, np.eye(C1.shape[1]), atol=50 * tol + (thr if mo_digits else 0.0)):
                ev["orthonormal"] = False
        return ev
    except Exception as exc:  # noqa: BLE001
        ev["out"] = "harness:" + type(exc).__name__
        ev["msg"] = str(exc)[:200]
        return ev
    finally:
        shutil.rmtree(tmp, ignore_errors=True)


def plan(run, rng):
    tasks = []
    for vendor, allowed in ALLOWED.items():
        subsets = [list(s) for n in (1, 2, 3) for s in itertools.combinations(allowed, n)]
        if not run.thorough():
            subsets = [s for s in subsets if len(s) == 1] + rng.sample([s for s in subsets if len(s) > 1], min(10, len(subsets)))
        subsets = [x for x in subsets if not any(a in x and b in x for a, b in (("dc", "dp"), ("fc", "fp"), ("gc", "gp")))]
        for i, sub in enumerate(subsets):
            # a deviation must be visible: at least one shell type on which the vendor deviates (else the file is standard)
            for fmt in ("molden", "molekel"):
                combos = [(rng.choice(["AU", "Angs", "(AU)", "(Angs)", "ANGS", "au"]), rng.random() < 0.5)]
                if run.thorough():
                    combos = [(u, r) for u in ("AU", "Angs", "(AU)", "(Angs)") for r in (False, True)]
                for k, (unit, unres) in enumerate(combos):
                    thr = rng.choice([1e-4, 1e-5, 1e-3])
                    tnames = list(sub) + ([rng.choice(sub)] if rng.random() < 0.4 else [])
                    if fmt == "molekel" and any(t in ("hp",) for t in tnames):
                        continue
                    tasks.append((vendor, tnames, fmt, unit, unres, thr, rng.randint(0, 10**9), False))
    # files with orbital coefficients printed to three decimals, loaded with the correspondingly wider norm_threshold the
    # loader offers for this purpose: the same vendor must be recognised
    for vendor, allowed in ALLOWED.items():
        singles = [[t] for t in allowed]
        for i, sub in enumerate(singles if run.thorough() else singles[:: 2]):
            if any(t == "hp" for t in sub):
                continue
            tasks.append((vendor, list(sub) + ["s"], "molden", "AU", bool(i % 2), 2e-2, rng.randint(0, 10**9), False, 3))
        # several shell types at once (a correction that repairs one type need not repair another), and a single-primitive shell
        for _ in range(run.pick(3, 12)):
            sub = rng.sample(allowed, min(len(allowed), rng.randint(2, 3)))
            if any(a in sub and b in sub for a, b in (("dc", "dp"), ("fc", "fp"), ("gc", "gp"))) or "hp" in sub:
                continue
            tasks.append((vendor, sub, "molden", "AU", rng.random() < 0.5,
                          rng.choice([1e-2, 2e-2]), rng.randint(0, 10**9), False, 3))
    # a defect of 7e-5 in one basis function and the strict threshold a user asks for: every correction attempt has to honour it
    for vendor, allowed in ALLOWED.items():
        for _ in range(run.pick(2, 10)):
            sub = rng.sample([t for t in allowed if t != "hp"], 2)
            if any(a in sub and b in sub for a, b in (("dc", "dp"), ("fc", "fp"), ("gc", "gp"))):
                sub = sub[:1]
            tasks.append((vendor, sub, rng.choice(["molden", "molden", "molekel"]), "AU", rng.random() < 0.5, 1e-6, rng.randint(0, 10**9), "slight"))
    # every mixture of pure and Cartesian d / f / g shells in one file: the [5D] / [5D10F] / [7F] / [9G] tags of Molden (and the
    # function counts of Molekel) must be read for what they say about each angular momentum separately
    for kinds in itertools.product("cp", repeat=3):
        full = ["d" + kinds[0], "f" + kinds[1], "g" + kinds[2]]
        for sub in (full, full[:2]) if run.thorough() or kinds[0] != kinds[1] else (full[:2],):
            for fmt in ("molden", "molekel"):
                tasks.append(("standard", sub, fmt, "AU", False, 1e-4, rng.randint(0, 10**9), False))
    for i in range(run.pick(6, 200)):
        vendor = rng.choice(["standard", "orca", "turbomole"])
        sub = rng.sample(ALLOWED[vendor], 2)
        if any(a in sub and b in sub for a, b in (("dc", "dp"), ("fc", "fp"), ("gc", "gp"))):
            sub = sub[:1]
        tasks.append((vendor, sub, rng.choice(["molden", "molekel"]), "AU", False, 1e-4, rng.randint(0, 10**9), True))
    return tasks


def check(run: Run):
    rng = random.Random(run.seed)
    run.cov["rule"] = (
        "files = vendor encoding (standard, ORCA, PSI4 < 1.0, Turbomole, CFOUR 2.1, unnormalised contractions, PSI4 <= 1.3.2) x "
        "subsets of <= 3 shell types the vendor allows (all singletons; all subsets in thorough) x {Molden, Molekel} x {AU, Angs} x "
        "restricted / unrestricted x norm_threshold in {1e-5, 1e-4, 1e-3}, plus corrupted encodings; complete orthonormal orbital "
        "sets on 1-2 atoms with 2-3 primitives per shell; distinct by content")
    st = run_tlc(run, "Vendors", "MC_Vendors.cfg", workers=8, timeout=300, tag="MC_Vendors")
    run.add_model(st)
    tasks = plan(run, rng)
    events = pmap(vendor_case, tasks, chunksize=1)
    run.notes["low_precision_files_beyond_their_threshold"] = sum(1 for e in events if e["out"] == "skip")
    events = [e for e in events if e["out"] != "skip"]
    reached = validate_traces(run, "Trace_Vendors", [[e] for e in events], chunk=2000)
    stats = {}
    for e, r in zip(events, reached):
        run.count()
        run.distinct(json.dumps(e, sort_keys=True))
        k = f"{e['encoding']}:{e['warning'] if e['out'] == 'loaded' else e['out']}"
        stats[k] = stats.get(k, 0) + 1
        if r != 1:
            key = (f"{e['fmt']} {e['vendor']}({e['encoding']}) types={'+'.join(e['types'])} -> {e['out']} same={e['same']} "
                   f"orthonormal={e['orthonormal']} warning={e['warning']}" + ("" if e.get("irreps_ok", True) else " irreps-misplaced"))
            run.violation(key, json.dumps(e), {"event": e})
    run.notes["outcomes"] = stats
    run.sample(events[0])
    run.sample(next(e for e in events if e["encoding"] == "orca"))
    run.sample(events[-1])
    run.assumptions += ["the vendor deviations are transcribed from the documentation of the corrections (the inverse maps are applied forwards)",
                        "whether a numerical near-coincidence lets an earlier correction pass within norm_threshold is sampled, not decided"]


def replay(rec):
    e = rec["detail"]["event"]
    print(json.dumps(e, indent=1))
    return 1
