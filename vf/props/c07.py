"""C07 -- loading any file content ends in a valid object or a LoadError, nothing else.

Spec: spec/ApiLoad.tla (protocol: select -> open -> parse* -> close; outcome classes; descriptor
closed on every path; termination under weak fairness).  Every corpus file, truncated at line
boundaries and byte offsets and mutated (delete / duplicate / swap lines, character substitution,
numeric overflow, count inflation, empty, binary, foreign content), is loaded with load_one and
load_many under explicit and name-derived format selection, in worker processes with a wall-clock
alarm and an address-space limit; every recorded trace is validated by Trace_ApiLoad.
"""

from __future__ import annotations

import hashlib
import itertools
import json
import os
import random
import re
import resource
import shutil
import signal
import tempfile
import warnings

from ..core import Run
from ..corpus import consistent, corpus
from ..par import pmap
from ..shims import Tracer
from ..tlc import run_tlc, validate_traces

LEVEL = "model_checking"
TIMEOUT_S = 120         # CPU seconds of the loading process (the largest corpus file needs ~10): robust against a busy machine
WALL_S = 1800           # wall-clock backstop for a load that blocks without using the CPU


class LoadTimeout(BaseException):
    pass


def _alarm(signum, frame):
    raise LoadTimeout()


def classify_exc(exc):
    from iodata.utils import FileFormatError, LoadError
    if type(exc) is LoadError:
        return "LoadError"
    if type(exc) is FileFormatError:
        return "FileFormatError"
    return "other:" + type(exc).__name__


def load_exec(task):
    """task = (text_bytes, basename, fmtarg, many, sel, note, src) -> (trace, info)"""
    data, basename, fmtarg, many, sel, note, src, module = task
    from iodata import api
    try:
        resource.setrlimit(resource.RLIMIT_AS, (6 << 30, 6 << 30))
    except Exception:
        pass
    tmp = tempfile.mkdtemp(prefix="c07_")
    path = os.path.join(tmp, basename)
    with open(path, "wb") as fh:
        fh.write(data)
    tr = Tracer(only=path)
    out, n, msg = None, 0, ""
    namesfile, lineno = True, []
    # the line cursor of this call (shim on LineIterator.__enter__, no source change): at an error, LineIter!LinenoLaw says
    # lineno = lines delivered by the file - lines pushed back
    import iodata.utils as _U
    lits = []
    _enter0 = _U.LineIterator.__enter__

    def _enter(self):
        lits.append(self)
        return _enter0(self)
    _U.LineIterator.__enter__ = _enter
    stack_len = []
    # a cursor that reads ahead (takes the whole file in at once) is as good as one that reads line by line; the law is only
    # meaningful for the latter: when the cursor hands out its first line, the file has handed out exactly one
    first_nread = []
    _next0 = _U.LineIterator.__next__

    def _next(self):
        line = _next0(self)
        if not first_nread:
            first_nread.append(tr.nread)
        return line
    _U.LineIterator.__next__ = _next
    valid_flags = []
    signal.signal(signal.SIGALRM, _alarm)
    signal.signal(signal.SIGPROF, _alarm)
    signal.setitimer(signal.ITIMER_PROF, TIMEOUT_S)
    signal.alarm(WALL_S)
    try:
        with warnings.catch_warnings():
            warnings.simplefilter("ignore")
            with tr:
                try:
                    if many:
                        for obj in api.load_many(path, fmt=fmtarg):
                            n += 1
                            bad = consistent(obj)
                            tr.log({"ev": "yield", "i": n, "same": True, "valid": not bad})
                            if bad:
                                msg = "inconsistent: " + "; ".join(bad)[:150]
                            if n >= 200:
                                break
                        out = "return" if n < 200 else "discarded"
                    else:
                        obj = api.load_one(path, fmt=fmtarg)
                        n = 1
                        bad = consistent(obj)
                        valid_flags.append(not bad)
                        if bad:
                            msg = "inconsistent: " + "; ".join(bad)[:150]
                        out = "return"
                except LoadTimeout:
                    out = "timeout"
                except Exception as exc:  # noqa: BLE001
                    out = classify_exc(exc)
                    msg = f"{type(exc).__name__}: {exc} <- {type(exc.__cause__).__name__ if exc.__cause__ else ''}"[:200]
                    namesfile = path in str(exc)
                    ln = getattr(exc, "lineno", None)
                    lineno = [] if ln is None else [int(ln)]
                    if lits and ln and first_nread and first_nread[0] <= 1:
                        # (line 0 is no line: a reader that takes the whole file from the handle, like the JSON one, never advanced
                        #  the cursor, and the law below is about cursors that did)
                        stack_len = [len(lits[-1].stack)]
    except LoadTimeout:
        out = "timeout"
    finally:
        signal.setitimer(signal.ITIMER_PROF, 0)
        signal.alarm(0)
        _U.LineIterator.__enter__ = _enter0
        _U.LineIterator.__next__ = _next0
        shutil.rmtree(tmp, ignore_errors=True)
    events = list(tr.events)
    if not many and out == "return":
        ci = max(i for i, e in enumerate(events) if e["ev"] == "close")
        events.insert(ci, {"ev": "yield", "i": 1, "same": True, "valid": valid_flags[0]})
    # the frame kinds are inferred from what was observed (unknown for arbitrary content): the protocol
    # order, outcome class, message, line number, validity and descriptor clauses are what binds here
    frames = ["ok"] * n
    if out == "LoadError":
        frames = frames + ["bad"]
    discard = 200 if out == "discarded" else 0
    sc = {"many": bool(many), "sel": sel, "frames": frames, "cutWarns": False, "discardAfter": discard, "neverStarted": False}
    end = {"ev": "end", "out": out, "yielded": n, "fd": tr.open_handles() > 0, "warned": False,
           "namesfile": bool(namesfile), "lineno": lineno, "nread": tr.nread, "stack": stack_len}
    info = {"src": src, "note": note, "msg": msg, "fmt": fmtarg, "basename": basename, "many": many, "module": module}
    return [{"sc": sc}] + events + [end], info


# ------------------------------------------------------------------ mutations
NUM = re.compile(rb"-?\d+\.\d+(?:[EeDd][+-]?\d+)?|-?\d+")


def mutations(data: bytes, rng, n):
    lines = data.splitlines(keepends=True)
    out = []
    if not lines:
        return out
    kinds = ["delete", "duplicate", "swap", "char", "overflow", "inflate", "blank", "multi", "blankfield", "blankfield"]
    for k in range(n):
        kind = kinds[k % len(kinds)]
        ls = list(lines)
        i = rng.randrange(len(ls))
        if kind == "delete":
            del ls[i]
        elif kind == "duplicate":
            ls.insert(i, ls[i])
        elif kind == "swap":
            j = rng.randrange(len(ls))
            ls[i], ls[j] = ls[j], ls[i]
        elif kind == "char":
            b = bytearray(ls[i])
            if b:
                p = rng.randrange(len(b))
                b[p] = rng.choice(b"xZ*-.9 \t#@")
            ls[i] = bytes(b)
        elif kind in ("overflow", "inflate"):
            cand = [x for x in range(len(ls)) if NUM.search(ls[x])]
            if cand:
                i = rng.choice(cand[:40] if kind == "inflate" else cand)
                ms = list(NUM.finditer(ls[i]))
                m = rng.choice(ms)
                if kind == "overflow":
                    rep = rng.choice([b"99999999999999999999", b"1e999", b"-1", b"nan", b"1.0D+400", b"********"])
                else:
                    val = m.group()
                    smaller = [str(int(val) - d).encode() for d in (1, 2) if val.isdigit() and int(val) - d > 0]     # a count that is too small
                    rep = rng.choice([b"1000000", b"0", b"1000000000000000", b"4000000000"] + smaller + smaller + [str(int(float(m.group().replace(b"D", b"E").replace(b"d", b"e")) if b"." not in m.group() else 7) + 1).encode()])
                ls[i] = ls[i][:m.start()] + rep + ls[i][m.end():]
        elif kind == "blank":
            ls[i] = b"\n"
        elif kind == "blankfield":
            # a run of columns of one record garbled to spaces (fixed-width formats: a whole field disappears)
            cand = [x for x in range(len(ls)) if len(ls[x].rstrip()) > 12]
            if cand:
                i = rng.choice(cand)
                body = ls[i].rstrip(b"\r\n")
                w = rng.randint(3, 14)
                p = rng.randrange(0, max(1, len(body) - w))
                ls[i] = body[:p] + b" " * w + body[p + w:] + ls[i][len(body):]
        else:
            for _ in range(3):
                a = rng.randrange(len(ls))
                if rng.random() < 0.5 and len(ls) > 1:
                    del ls[a]
                else:
                    ls.insert(a, ls[rng.randrange(len(ls))])
        out.append((b"".join(ls), f"mutation:{kind}"))
    return out


def file_tasks(args):
    """All load tasks for one corpus file."""
    path, fmt, pat_selects, has_many, seed, ntrunc, nmut, nbytes, foreign = args
    rng = random.Random(seed)
    data = open(path, "rb").read()
    base = os.path.basename(path)
    lines = data.splitlines(keepends=True)
    variants = [(data, "intact")]
    nl = len(lines)
    cuts = list(range(0, nl)) if nl <= ntrunc else sorted(set(list(range(0, min(nl, ntrunc // 2))) + rng.sample(range(nl), ntrunc // 2)))
    for j in cuts:
        variants.append((b"".join(lines[:j]), f"truncate-line"))
    for _ in range(nbytes):
        if len(data) > 2:
            variants.append((data[:rng.randrange(1, len(data))], "truncate-byte"))
    # a writer that crashed inside the last records: every second byte offset of the last two lines
    tail = sum(len(x) for x in lines[-2:])
    for off in range(max(1, len(data) - tail), len(data), 2)[:120]:
        variants.append((data[:off], "truncate-byte"))
    # one field at a time garbled to spaces, systematically over the columns of a few records (first, last and random ones)
    recs = [x for x in range(nl) if len(lines[x].rstrip()) > 12]
    if recs:
        picks = {recs[0], recs[-1], recs[len(recs) // 2]} | {rng.choice(recs) for _ in range(3)}
        for i in sorted(picks):
            body = lines[i].rstrip(b"\r\n")
            for w in (6, 8, 12):
                for p0 in range(0, max(1, len(body) - w + 1), 3):
                    new = body[:p0] + b" " * w + body[p0 + w:] + lines[i][len(body):]
                    if new != lines[i]:
                        variants.append((b"".join(lines[:i]) + new + b"".join(lines[i + 1:]), "mutation:blankfield"))
    # every line of the head of the file (where the counts, the scalars and the section headers of most formats live) deleted and
    # doubled, one at a time
    head = min(nl, 60 if nmut <= 60 else 400)
    for i in range(head):
        variants.append((b"".join(lines[:i] + lines[i + 1:]), "mutation:delete"))
        variants.append((b"".join(lines[:i + 1] + lines[i:]), "mutation:duplicate"))
    # every count in the head of the file (a line that is one integer, an `N=` field of an FCHK array header) off by one, both ways:
    # the arrays of the object are then sized from counters that disagree
    for i in range(head):
        mcount = re.search(rb"N=\s*(\d+)\s*$", lines[i]) or re.fullmatch(rb"\s*(\d+)\s*", lines[i])
        if mcount:
            val = int(mcount.group(1))
            for new_val in (val - 1, val + 1):
                if new_val > 0:
                    txt = str(new_val).encode().rjust(len(mcount.group(1)))
                    new_line = lines[i][:mcount.start(1)] + txt + lines[i][mcount.end(1):]
                    variants.append((b"".join(lines[:i]) + new_line + b"".join(lines[i + 1:]), "mutation:count"))
    variants += mutations(data, rng, nmut)
    # an empty line where a record or a frame is expected: after the last line, before the first, doubled
    variants.append((data + b"\n", "mutation:blank"))
    variants.append((data + b"\n\n", "mutation:blank"))
    variants.append((b"\n" + data, "mutation:blank"))
    variants.append((b"", "empty"))
    variants.append((bytes(rng.randrange(256) for _ in range(300)), "binary"))
    variants.append((b"\n" * 5, "blank-lines"))
    if foreign is not None:
        variants.append((foreign, "foreign-content"))
    tasks = []
    for idx, (content, note) in enumerate(variants):
        explicit = (idx % 2 == 0) or not pat_selects
        fmtarg, sel = (fmt, "explicit") if explicit else (None, "match")
        bn = base if pat_selects else "file.data"
        if explicit and not pat_selects:
            bn = base
        tasks.append((content, bn, fmtarg, False, sel, note, base, fmt))
        if has_many and (idx % 3 == 0 or note in ("intact", "mutation:count")):
            tasks.append((content, bn, fmtarg, True, sel, note, base, fmt))
    # selection failures: nothing may be opened
    tasks.append((data, "file.unknownext", None, False, "nomatch", "selection:nomatch", base, fmt))
    tasks.append((data, base, "no_such_format", False, "unknown", "selection:unknown", base, fmt))
    if not has_many:
        tasks.append((data, base, fmt, True, "unsupported", "selection:unsupported", base, fmt))
    return tasks


# ------------------------------------------------------------------ the line cursor itself (spec/LineIter.tla)
LI_NLINES = 6


def lineiter_trace(ops, path):
    """Run one operation sequence on the real LineIterator; ops: 'enter' | 'exit' | 'next' | ('back', k) | 'back_last' | 'error' | 'warn'."""
    from iodata.utils import LineIterator, LoadError, LoadWarning
    lit = LineIterator(path)
    tr = []
    handed = []          # ids handed out and not pushed back, most recent last
    is_open = False
    for op in ops:
        if op == "enter":
            if is_open or lit.fh is not None:
                continue
            lit.__enter__()
            is_open = True
            tr.append({"op": "enter"})
        elif op == "exit":
            if not is_open:
                continue
            lit.__exit__(None, None, None)
            is_open = False
            tr.append({"op": "exit", "closed": bool(lit.fh.closed)})
        elif not is_open:
            continue
        elif op == "next":
            try:
                line = next(lit)
                k = int(line.split()[1])
                handed.append(k)
            except StopIteration:
                k = 0
            tr.append({"op": "next", "res": k, "lineno": int(lit.lineno)})
        elif op == "back_last" or (isinstance(op, tuple) and op[0] == "back"):
            if op == "back_last":
                if not handed:
                    continue
                k = handed.pop()
            else:
                k = op[1]
            lit.back(f"line {k} of the file\n")
            tr.append({"op": "back", "line": k, "lineno": int(lit.lineno)})
        elif op in ("error", "warn"):
            exc = LoadError("problem", lit) if op == "error" else LoadWarning("problem", lit)
            m = re.search(r":(-?\d+)\)$", str(exc))
            tr.append({"op": "error", "reported": int(m.group(1)) if m else -999, "named": os.path.basename(path) in str(exc)})
    return tr


def lineiter_traces(run, rng):
    path = os.path.join(run.work, "lineiter.txt")
    with open(path, "w") as f:
        for k in range(1, LI_NLINES + 1):
            f.write(f"line {k} of the file\n")
    seqs = []
    # every sequence of up to 5 operations after opening (disciplined and undisciplined push-backs, errors)
    alphabet = ["next", "back_last", ("back", 1), ("back", 3), "error"]
    for depth in range(1, run.pick(5, 6) + 1):
        for combo in itertools.product(alphabet, repeat=depth):
            seqs.append(["enter", *combo, "exit"])
    # long random walks, mostly disciplined (the look-ahead pattern of the readers), to the end of the file and beyond
    for _ in range(run.pick(400, 4000)):
        n = rng.randint(4, 30)
        ops = ["enter"]
        for _i in range(n):
            x = rng.random()
            ops.append("next" if x < 0.55 else "back_last" if x < 0.8 else ("back", rng.randint(1, LI_NLINES)) if x < 0.85 else
                       "error" if x < 0.93 else "warn")
        ops.append("exit")
        seqs.append(ops)
    return [lineiter_trace(ops, path) for ops in seqs]


def describe(tr, r, info):
    end = tr[-1]
    r = max(r, 1)
    ev = tr[r] if r < len(tr) else {}
    flags = []
    if end["out"].startswith("other") or end["out"] == "timeout":
        flags.append("escapes=" + end["out"])
    if end["fd"]:
        flags.append("descriptor-open")
    if end["out"] in ("LoadError", "FileFormatError") and not end["namesfile"]:
        flags.append("message-without-file")
    if end["lineno"] and not (0 <= end["lineno"][0] <= end["nread"]):
        flags.append("lineno-not-a-read-line")
    elif end["lineno"] and end.get("stack") and end["lineno"][0] != end["nread"] - end["stack"][0]:
        flags.append("lineno-not-the-last-line-read")
    if ev.get("ev") == "yield" and not ev.get("valid", True):
        attrs_ = sorted(set(re.findall(r"(?:inconsistent: |; )([\w.]+(?:\[\w+\])?)", info["msg"])))
        flags.append("inconsistent-shapes(" + "+".join(attrs_) + ")")
    if not flags:
        flags.append("protocol-order")
    key = f"{info['module']}.{'load_many' if info['many'] else 'load_one'} {info['note'].split(':')[0]} {','.join(flags)}"
    what = (f"{info['src']} [{info['note']}] as {info['basename']}: not a behaviour of ApiLoad.tla at event {r + 1} ({ev}); "
            f"events={[e.get('ev') for e in tr[1:]][:12]}; end={end}; {info['msg']}")
    return key, what


def _nframes(path, fmt):
    from iodata import api
    try:
        with warnings.catch_warnings():
            warnings.simplefilter("ignore")
            n = 0
            for _ in api.load_many(path, fmt=fmt):
                n += 1
                if n > 1:
                    break
            return n
    except Exception:  # noqa: BLE001
        return 0


def check(run: Run):
    rng = random.Random(run.seed)
    run.cov["rule"] = (
        "corpus file x {intact, truncation at line boundaries, truncation at byte offsets, seeded mutations (delete, "
        "duplicate, swap, character substitution, numeric overflow, count inflation, blank line, multi-line), empty, "
        "binary, blank lines, content of another format} x {load_one, load_many} x {explicit, name-derived} format, plus "
        "selection failures; distinct by (file, content, call); non-trivial = content differs from the intact file")
    cfg = "MC_ApiLoad_thorough.cfg" if run.thorough() else "MC_ApiLoad_quick.cfg"
    st = run_tlc(run, "MC_ApiLoad", cfg, workers=16, timeout=900, coverage=True, tag=cfg[:-4])
    run.add_model(st)
    from iodata.api import FORMAT_MODULES
    files = corpus()
    by = {}
    for p, fmt, sel in files:
        by.setdefault(fmt, []).append((os.path.getsize(p), p, sel))
    chosen = []
    for fmt, lst in sorted(by.items()):
        lst.sort()
        take = lst if run.thorough() else lst[:2]
        for size, p, sel in take:
            if not run.thorough() and size > 100000:
                continue
            chosen.append((p, fmt, sel))
        if not run.thorough() and hasattr(FORMAT_MODULES[fmt], "load_many"):
            # ... and the smallest file of the format that really holds several frames (the two smallest ones seldom do)
            for size, p, sel in lst[2:]:
                if size > 120000:
                    break
                if _nframes(p, fmt) > 1:
                    chosen.append((p, fmt, sel))
                    break
    foreign_pool = [open(p, "rb").read() for p, f, s in files if os.path.getsize(p) < 5000][:40]
    args = []
    for i, (p, fmt, sel) in enumerate(chosen):
        has_many = hasattr(FORMAT_MODULES[fmt], "load_many")
        size = os.path.getsize(p)
        ntr = run.pick(150, 600) if size < 200000 else run.pick(30, 150)
        nmut = run.pick(40, 300) if size < 200000 else run.pick(8, 60)
        args.append((p, fmt, sel, has_many, run.seed * 7919 + i, ntr, nmut, run.pick(6, 40), rng.choice(foreign_pool)))
    task_lists = pmap(file_tasks, args, chunksize=1)
    tasks = [t for tl in task_lists for t in tl]
    rng.shuffle(tasks)
    results = pmap(load_exec, tasks, chunksize=8)
    traces = [r[0] for r in results]
    reached = validate_traces(run, "Trace_ApiLoad", traces, chunk=3000)
    pass
    outcomes = {}
    for (tr, info), r in zip(results, reached):
        run.count()
        outcomes[tr[-1]["out"]] = outcomes.get(tr[-1]["out"], 0) + 1
        if info["note"] != "intact":
            run.distinct(hashlib.sha1(repr((info["src"], info["many"], info["fmt"], [e.get("ev") for e in tr[1:]], tr[-1])).encode()).hexdigest())
        if r != len(tr):
            key, what = describe(tr, r, info)
            run.violation(key, what, {"src": info["src"], "note": info["note"], "fmt": info["fmt"], "many": info["many"],
                                      "basename": info["basename"], "trace": tr, "failing_event": r + 1})
    # the line cursor: model, then recorded operation sequences of the real class
    st = run_tlc(run, "MC_LineIter", "MC_LineIter.cfg", workers=4, timeout=300, coverage=True, tag="MC_LineIter")
    run.add_model(st)
    if run.thorough():
        # unbounded in the file length (symbolic integers): the cursor invariant is inductive
        from ..tlc import run_apalache
        apa = [run_apalache(run, "LineIterInd", init="Init", inv="IndInv", length=0, cinit="CInit"),
               run_apalache(run, "LineIterInd", init="IndInit", inv="IndInv", length=1, cinit="CInit")]
        run.notes["apalache"] = [{k: a[k] for k in ("name", "ok", "wall_s")} for a in apa]
        for a in apa:
            if a["violated"]:
                run.violation("LineIter: the cursor invariant is not inductive (Apalache)", a["output"][-600:], {"apalache": a["output"]})
    ltraces = [t for t in lineiter_traces(run, rng) if t]
    lreached = validate_traces(run, "Trace_LineIter", ltraces, chunk=4000)
    for tr, r in zip(ltraces, lreached):
        run.count()
        run.distinct("li" + hashlib.sha1(repr(tr).encode()).hexdigest())
        bad = r != len(tr)
        unnamed = [e for e in tr if e["op"] == "error" and not e["named"]]
        unclosed = [e for e in tr if e["op"] == "exit" and not e["closed"]]
        if bad or unnamed or unclosed:
            ev = tr[max(r, 0)] if bad else (unnamed or unclosed)[0]
            what = ("message does not name the file" if (not bad and unnamed) else "file not closed on exit" if not bad else
                    f"{ev['op']} not explained by the cursor model")
            run.violation(f"LineIterator {what}", json.dumps({"event": ev, "index": r + 1, "before": [e["op"] for e in tr[:max(r, 0)]][-6:]}),
                          {"lineiter": True, "trace": tr, "failing_event": r + 1})
    run.notes["lineiterator_sequences"] = len(ltraces)
    run.notes["corpus_files"] = len(chosen)
    run.notes["outcomes"] = outcomes
    for i in (0, len(results) // 2, len(results) - 1):
        run.sample({"file": results[i][1]["src"], "note": results[i][1]["note"], "trace": results[i][0]})
    run.assumptions += [
        "frame kinds of arbitrary content are inferred from the observed yields (the protocol order, outcome class, "
        "message, line-number, validity and descriptor clauses are what the specification binds)",
        f"termination: a budget of {TIMEOUT_S} CPU seconds (ITIMER_PROF) plus a {WALL_S}s wall-clock backstop and a 6 GiB address-space limit per load",
        "shape consistency is computed from the data model only (vf/corpus.py: consistent)",
    ]


def replay(rec):
    print("replay: the failing content is derived from the corpus file by a seeded mutation; re-run ./check C07 "
          f"with VERIF_SEED={rec.get('seed')} --tier {rec.get('tier')}; recorded trace follows")
    d = rec["detail"]
    print(d["src"], d["note"], d["fmt"], "many" if d["many"] else "one")
    for e in d["trace"]:
        print("  ", e)
    return 1
