"""C18 -- the command-line converter does exactly what the API does.

Spec: spec/Cli.tla (iodata-convert = ParseArgs; Load; Dump; Exit composed of the API steps;
CliEqualsApi, NoFalseSuccess, FailureNamesProblem, PreflightSparesOutput, termination).  For
(input file, target format) pairs x {-i/-o given or inferred} x {-c} x {-m}, onto absent and
pre-existing outputs, three executions are recorded: `python -m iodata` as a subprocess, the
convert() function in process, and the API composition in a fresh interpreter; TLC validates each
triple against the specification.
"""

from __future__ import annotations

import hashlib
import json
import os
import random
import shutil
import subprocess
import sys
import tempfile
import warnings

from .. import objects as O
from ..core import REPO, VERIF, Run
from ..corpus import corpus
from ..par import pmap
from ..tlc import run_tlc, validate_traces

LEVEL = "model_checking"
OLD = b"PRE-EXISTING OUTPUT\n"
ENV = None


def _env():
    return dict(os.environ, PYTHONPATH=f"{VERIF}:{REPO}", PYTHONHASHSEED="0", OMP_NUM_THREADS="1", OPENBLAS_NUM_THREADS="1")


def file_state(path, existed):
    if not os.path.exists(path):
        return "absent", ""
    data = open(path, "rb").read()
    if existed and data == OLD:
        return "old", ""
    return "changed", hashlib.sha1(data).hexdigest()


def classify(exc):
    if exc is None:
        return "return"
    return type(exc).__name__


def api_compose(infn, outfn, many, infmt, outfmt, allow):
    from iodata import api
    with warnings.catch_warnings():
        warnings.simplefilter("ignore")
        try:
            if many:
                api.dump_many(api.load_many(infn, fmt=infmt), outfn, allow_changes=allow, fmt=outfmt)
            else:
                api.dump_one(api.load_one(infn, fmt=infmt), outfn, allow_changes=allow, fmt=outfmt)
            return "return"
        except Exception as exc:  # noqa: BLE001
            return classify(exc)


def _child(spec_path):
    spec = json.load(open(spec_path))
    out = api_compose(spec["infn"], spec["outfn"], spec["many"], spec["infmt"], spec["outfmt"], spec["allow"])
    print("RESULT " + json.dumps({"out": out}))


def run_case(task):
    infn, infmt_explicit, target, give_i, give_o, allow, many, existed = task[:8]
    link = task[8] if len(task) > 8 else ""       # "out": the output path is a symbolic link; "in": the input path is one
    infn0 = infn
    tmp = tempfile.mkdtemp(prefix="c18_")
    try:
        res = {}
        outname = O.SUFFIX[target] if not give_o or target != "json_qcschema" else "out.json"
        if give_o:
            outname = "converted.dat"
        for who in ("api", "cli", "fn"):
            d = os.path.join(tmp, who)
            os.makedirs(d)
            outfn = os.path.join(d, outname)
            if link == "out":
                # a link named like one format pointing to a file named like another: the name the user gave decides
                other = ".pdb" if not outname.endswith(".pdb") else ".xyz"
                os.makedirs(os.path.join(d, "slots"))
                real = os.path.join(d, "slots", "slot_a" + other)
                with open(real, "wb") as fh:
                    fh.write(OLD)
                os.symlink(real, outfn)
            elif existed:
                with open(outfn, "wb") as fh:
                    fh.write(OLD)
            if link == "in":
                os.makedirs(os.path.join(d, "blobs"))
                blob = os.path.join(d, "blobs", "7f3a9c01")
                shutil.copy(infn0, blob)
                infn = os.path.join(d, os.path.basename(infn0))
                os.symlink(blob, infn)
            infmt = infmt_explicit if give_i else None
            outfmt = target if give_o else None
            if who == "api":
                spec = {"infn": infn, "outfn": outfn, "many": many, "infmt": infmt, "outfmt": outfmt, "allow": allow}
                sp = os.path.join(d, "spec.json")
                json.dump(spec, open(sp, "w"))
                p = subprocess.run(["/venv/bin/python", "-m", "vf.props.c18", sp], env=_env(), stdout=subprocess.PIPE,
                                   stderr=subprocess.PIPE, text=True, timeout=300)
                os.remove(sp)
                out = None
                for ln in p.stdout.splitlines():
                    if ln.startswith("RESULT "):
                        out = json.loads(ln[7:])["out"]
                if out is None:
                    return {"error": f"api helper failed: {p.stderr[-500:]}", "task": list(task)}
                st, h = file_state(outfn, existed)
                res["api"] = {"out": out, "file": st, "hash": h}
            elif who == "cli":
                args = ["/venv/bin/python", "-m", "iodata"]
                if give_i:
                    args += ["-i", infmt_explicit]
                if give_o:
                    args += ["--outfmt", target]
                if allow:
                    args += ["-c"]
                if many:
                    args += ["--many"]
                args += [infn, outfn]
                p = subprocess.run(args, env=_env(), stdout=subprocess.PIPE, stderr=subprocess.PIPE, text=True, timeout=300, cwd=d)
                st, h = file_state(outfn, existed)
                res["cli"] = {"code": p.returncode, "stderr": bool(p.stderr.strip()), "file": st, "hash": h,
                              "fptrap": "FloatingPointError" in p.stderr, "tail": p.stderr.strip().splitlines()[-1][:160] if p.stderr.strip() else ""}
            else:
                from iodata.__main__ import convert
                exc = None
                with warnings.catch_warnings():
                    warnings.simplefilter("ignore")
                    try:
                        convert(infn, outfn, many, infmt, outfmt, allow)
                    except Exception as e:  # noqa: BLE001
                        exc = e
                st, h = file_state(outfn, existed)
                res["fn"] = {"out": classify(exc), "file": st, "hash": h}
        res["args"] = {"input": os.path.basename(infn), "infmt": infmt_explicit if give_i else "", "outfmt": target if give_o else "",
                       "target": target, "allow": allow, "many": many, "existed": existed or link == "out", "link": link}
        return res
    finally:
        shutil.rmtree(tmp, ignore_errors=True)


def cases(run, rng):
    from iodata.api import FORMAT_MODULES
    files = [(p, f, sel) for p, f, sel in corpus() if os.path.getsize(p) < 250000]
    by = {}
    for p, f, sel in files:
        by.setdefault(f, []).append((p, sel))
    tasks = []
    per = run.pick(1, 8)
    for f, lst in sorted(by.items()):
        lst = sorted(lst, key=lambda x: os.path.getsize(x[0]))
        for p, sel in (lst[:per] if not run.thorough() else lst):
            targets = list(O.DUMP_ONE) if run.thorough() else rng.sample(list(O.DUMP_ONE), 4)
            for t in targets:
                give_i = (not sel) or rng.random() < 0.5
                give_o = t == "json_qcschema" or rng.random() < 0.5
                tasks.append((p, f, t, give_i, give_o, rng.random() < 0.5, False, rng.random() < 0.5))
            if hasattr(FORMAT_MODULES[f], "load_many"):
                for t in O.DUMP_MANY:
                    tasks.append((p, f, t, (not sel) or rng.random() < 0.5, rng.random() < 0.5, rng.random() < 0.5, True,
                                  rng.random() < 0.5))
    # inputs that need an announced conversion (SP shells from FCHK, generalized contractions from CP2K): both -c settings
    for f in ("fchk", "cp2klog", "mwfn"):
        for p, sel in sorted(by.get(f, []), key=lambda x: os.path.getsize(x[0]))[: run.pick(2, 6)]:
            for t in ("molden", "molekel", "wfn", "wfx", "fchk"):
                for allow in (False, True):
                    tasks.append((p, f, t, not sel, rng.random() < 0.5, allow, False, rng.random() < 0.5))
    # inputs that lack an attribute the target requires (GRO / CHARMM files have no atomic numbers), with and without -c, onto an
    # existing output: a pre-flight rejection either way
    for f in ("gromacs", "charmm"):
        for p, sel in sorted(by.get(f, []), key=lambda x: os.path.getsize(x[0]))[: run.pick(1, 3)]:
            for t in ("xyz", "poscar", "cube", "sdf"):
                for allow in (False, True):
                    tasks.append((p, f, t, not sel, False, allow, False, True))
    # symbolic links: the format is derived from the name the user gave, not from where the link points
    for f in ("xyz", "mol2", "poscar", "fchk", "sdf"):
        for p, sel in sorted(by.get(f, []), key=lambda x: os.path.getsize(x[0]))[: run.pick(1, 3)]:
            if not sel:
                continue
            for t in ("xyz", "pdb", "sdf"):
                tasks.append((p, f, t, False, False, False, False, True, "out"))
                tasks.append((p, f, t, False, False, False, False, False, "in"))
    # inputs that cannot be loaded / unknown formats
    data = os.path.join(REPO, "iodata", "test", "data")
    tasks.append((os.path.join(data, "water.xyz"), "fchk", "xyz", True, False, False, False, True))
    tasks.append((os.path.join(data, "water.xyz"), "nonexistent", "xyz", True, False, False, False, True))
    tasks.append((os.path.join(data, "water.xyz"), "xyz", "wfn", False, False, True, False, True))
    tasks.append((os.path.join(data, "water.xyz"), "xyz", "cube", False, False, False, True, True))
    return tasks


def check(run: Run):
    rng = random.Random(run.seed)
    run.cov["rule"] = (
        "conversions = (corpus input of every readable module, target among the 13 dump formats) x {-i given or inferred} x "
        "{-o given or inferred} x {-c} x {-m with the 4 dump_many targets} x {absent, pre-existing output}; each run three "
        "ways (subprocess CLI, convert() in process, API composition in a fresh interpreter); distinct by argument tuple; "
        "non-trivial = at least one of the three runs did not simply succeed, or options were given")
    st = run_tlc(run, "Cli", "MC_Cli.cfg", workers=4, timeout=300, tag="MC_Cli")
    run.add_model(st)
    tasks = cases(run, rng)
    results = pmap(run_case, tasks, chunksize=1)
    events = []
    for r in results:
        if "error" in r:
            from ..core import MachineryError
            raise MachineryError(r["error"])
        events.append(r)
    reached = validate_traces(run, "Trace_Cli", [[e] for e in events], chunk=500)
    stats = {"both_succeed": 0, "both_fail": 0, "cli_only_failure": 0, "fptrap": 0}
    for e, r in zip(events, reached):
        run.count()
        run.distinct(json.dumps(e["args"], sort_keys=True))
        if e["cli"]["code"] == 0 and e["api"]["out"] == "return":
            stats["both_succeed"] += 1
        elif e["cli"]["code"] != 0 and e["api"]["out"] != "return":
            stats["both_fail"] += 1
        elif e["cli"]["code"] != 0:
            stats["cli_only_failure"] += 1
            stats["fptrap"] += int(e["cli"]["fptrap"])
        if r != 1:
            a = e["args"]
            key = (f"convert {a['input'].rsplit('.', 1)[-1]}->{a['target']} many={a['many']} -c={a['allow']} existed={a['existed']}: "
                   f"api={e['api']['out']}/{e['api']['file']} cli=exit{e['cli']['code']}/{e['cli']['file']} fn={e['fn']['out']}/{e['fn']['file']} "
                   f"same_bytes={e['cli']['hash'] == e['api']['hash']}")
            run.violation(key, f"CLI / convert() / API composition disagree in a way Cli.tla does not allow: {e}", {"event": e})
    run.notes["outcomes"] = stats
    for e in events[:3]:
        run.sample(e)
    run.assumptions += ["a CLI-only failure (argument error, the floating-point trap iodata-convert installs) is allowed by the "
                        "statement as long as the exit status is non-zero with a message and a pre-flight rejection spares the output",
                        "subprocesses run with OMP_NUM_THREADS=1"]


def replay(rec):
    print(json.dumps(rec["detail"], indent=1)[:3000])
    return 1


if __name__ == "__main__":
    _child(sys.argv[1])
