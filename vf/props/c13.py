"""C13 -- trajectories keep every frame, in order, each identical to a single load.

Specs: spec/ApiLoad.tla (load_many: frames in order, malformed/cut frames, discarded iterators) and
spec/ApiDump.tla (dump_many: lazy, exactly once, in order).  TLC checks both protocol models; real
dump_many / load_many executions on generated frame sequences (and independently rendered GRO and
extended-XYZ trajectories), with truncation at every line, corruption of a numeric field in every
frame, trailing blank lines and discarded iterators, are recorded through the tracing shims and
validated by Trace_ApiLoad / Trace_ApiDump.
"""

from __future__ import annotations

import json
import os
import random
import shutil
import tempfile
import warnings

import numpy as np

from .. import objects as O
from ..core import Run
from ..corpus import consistent
from ..digest import digest
from ..par import pmap
from ..shims import BudgetExceeded, cpu_budget, LoggingIterable, Tracer
from ..tlc import run_tlc, validate_traces

LEVEL = "model_checking"
SUFFIX = {"xyz": "t.xyz", "pdb": "t.pdb", "mol2": "t.mol2", "sdf": "t.sdf", "gromacs": "t.gro", "extxyz": "t.extxyz", "fchk": "t.fchk"}
CUT_WARNS = {"pdb": True}


# ------------------------------------------------------------------ frame sources
def writer_frames(fmt, rng, n):
    """n objects with differing atom counts / compositions / optional attributes."""
    objs = []
    for i in range(n):
        natom = rng.randint(1, 5)
        o = O.make(fmt, rng, "plain", natom=natom)
        r = rng.random()
        if r < 0.25:
            o.title = None
        elif r < 0.4:
            o.title = str(rng.randint(1, 9))  # a title that looks like an atom count
        elif r < 0.5:
            o.title = "END of story MODEL 2"  # looks like a record name
        objs.append(o)
        # the next frame may be the same molecule with only some values changed (another resonance structure, another charge model):
        # same atoms, same bonded pairs, other bond types / charges / title
        if i + 1 < n and natom >= 2 and rng.random() < 0.35 and getattr(o, "bonds", None) is not None and len(o.bonds):
            import copy
            o2 = copy.deepcopy(o)
            b = np.array(o2.bonds)
            b[:, 2] = [[1, 2, 3][(int(t) + 1 + k) % 3] for k, t in enumerate(b[:, 2])]
            o2.bonds = b
            if o2.atcharges:
                o2.atcharges = {k: np.asarray(v) + 0.125 for k, v in o2.atcharges.items()}
            objs.append(o2)
    return objs[:n]


def render_gro(rng, n):
    texts = []
    for k in range(n):
        natom = rng.randint(1, 5)
        lines = [f"frame {k} of generated trajectory, t= {k * 0.5:.1f}", f"{natom:5d}"]
        for i in range(natom):
            x, y, z = (round(rng.uniform(-5, 9), 3) for _ in range(3))
            vx, vy, vz = (round(rng.uniform(-2, 2), 4) for _ in range(3))
            lines.append(f"{i // 3 + 1:5d}{'WAT':<5s}{'OW' + str(i % 3):>5s}{i + 1:5d}{x:8.3f}{y:8.3f}{z:8.3f}{vx:8.4f}{vy:8.4f}{vz:8.4f}")
        lines.append(f"{1.8 + k:10.5f}{2.1:10.5f}{2.2:10.5f}")
        texts.append("\n".join(lines) + "\n")
    return texts


EXTXYZ_EXPECT = {}       # frame text -> per-atom extra columns the frame must come back with (independent of any load)


def render_extxyz(rng, n):
    texts = []
    if rng.random() < 0.4:
        # every frame carries the very same title line; what differs are the per-atom columns, two of which go to `extra`
        natom = rng.randint(1, 4)
        for k in range(n):
            lines = [str(natom), 'Properties=species:S:1:pos:R:3:tag:I:1:q:R:1 pbc="F F F"']
            tags, qs = [], []
            for i in range(natom):
                tags.append(10 * k + i)
                qs.append(round(0.25 * k - 0.125 * i, 4))
                lines.append(f"{['H', 'O', 'C', 'N'][(i + k) % 4]} {0.5 * i + k:12.6f} {-0.25 * i:12.6f} {0.125 * k:12.6f} {tags[-1]:5d} {qs[-1]:10.4f}")
            text = "\n".join(lines) + "\n"
            EXTXYZ_EXPECT[text] = {"tag": tags, "q": qs}
            texts.append(text)
        return texts
    for k in range(n):
        natom = rng.randint(1, 5)
        # frames of one trajectory may declare different per-atom columns: species only, or species next to atomic numbers (Z)
        with_z = k % 2 == 1
        props = "species:S:1:pos:R:3" + (":Z:I:1" if with_z else "")
        lines = [str(natom), f"Properties={props} energy={-1.5 * k - 0.25:.4f} charge={k % 3 - 1}"]
        for i in range(natom):
            sym = rng.choice(["H", "O", "C", "N"])
            x, y, z = (round(rng.uniform(-9, 9), 6) for _ in range(3))
            lines.append(f"{sym} {x:12.6f} {y:12.6f} {z:12.6f}" + (f" {dict(H=1, O=8, C=6, N=7)[sym]:3d}" if with_z else ""))
        texts.append("\n".join(lines) + "\n")
    return texts


def render_sdf(rng, n):
    """SDF molecules as other programs write them: blank name lines, program/comment lines, properties."""
    texts = []
    for k in range(n):
        natom = rng.randint(1, 5)
        style = rng.choice(["named", "blank-name", "blank-name-comment", "all-blank"])
        l1 = f"mol{k}" if style == "named" else ""
        l2 = "  RDKit          3D" if style in ("named", "blank-name") else ""
        l3 = "a comment" if style == "blank-name-comment" else ""
        nbond = natom - 1
        lines = [l1, l2, l3, f"{natom:3d}{nbond:3d}  0  0  0  0  0  0  0  0999 V2000"]
        for i in range(natom):
            x, y, z = (round(rng.uniform(-9, 9), 4) for _ in range(3))
            lines.append(f"{x:10.4f}{y:10.4f}{z:10.4f} {rng.choice(['C', 'H', 'O', 'N', 'Cl']):<3s} 0  0  0  0  0  0  0  0  0  0  0  0")
        for i in range(nbond):
            lines.append(f"{i + 1:3d}{i + 2:3d}{rng.choice([1, 2, 3]):3d}  0")
        lines.append("M  END")
        if rng.random() < 0.5:
            lines += [">  <PROP>", f"{k}", ""]
        lines.append("$$$$")
        texts.append("\n".join(lines) + "\n")
    return texts


def render_xyz(rng, n):
    texts = []
    for k in range(n):
        natom = rng.randint(1, 5)
        title = rng.choice(["", f"frame {k}", str(natom), "  "])
        lines = [f"{natom}", title]
        for i in range(natom):
            x, y, z = (round(rng.uniform(-9, 9), 5) for _ in range(3))
            lines.append(f"{rng.choice(['C', 'H', 'O', 'N']):2s} {x:12.5f} {y:12.5f} {z:12.5f}")
        texts.append("\n".join(lines) + "\n")
    return texts


def classify_fragment(fmt, frag):
    """What the lines left over after the last complete frame are: none | cut | skip."""
    if all(ln.strip() == "" for ln in frag):
        return "none"
    if fmt == "pdb":
        return "cut" if any(ln.startswith(("ATOM", "HETATM")) for ln in frag) else "none"
    if fmt == "mol2":
        idx = [i for i, ln in enumerate(frag) if ln.startswith("@<TRIPOS>MOLECULE")]
        if not idx:
            return "none"
        rest = frag[idx[0]:]
        if len(rest) < 3:
            return "cut"
        natoms, nbonds = int(rest[2].split()[0]), int(rest[2].split()[1])
        ia = [i for i, ln in enumerate(rest) if ln.startswith("@<TRIPOS>ATOM")]
        if not ia or len(rest) - ia[0] - 1 < natoms:
            return "cut"
        ib = [i for i, ln in enumerate(rest) if ln.startswith("@<TRIPOS>BOND")]
        if nbonds > 0 and not ib:
            return "skip"  # MOL2 has no end marker and record sections are optional
        if ib and len(rest) - ib[0] - 1 < nbonds:
            return "cut"
        return "skip"
    return "cut"


def corrupt(fmt, text, rng):
    """Make one numeric field of the frame unparsable. Returns new text or None."""
    lines = text.splitlines(keepends=True)
    if fmt in ("xyz", "extxyz"):
        i = rng.randrange(2, len(lines))
        w = lines[i].split()
        w[rng.randint(1, 3)] = "1.2.3x"
        lines[i] = " ".join(w) + "\n"
    elif fmt == "sdf":
        natom = int(lines[3][0:3])
        i = 4 + rng.randrange(natom)
        lines[i] = "   1.2.3x" + lines[i][9:]
    elif fmt == "pdb":
        cand = [i for i, ln in enumerate(lines) if ln.startswith("ATOM")]
        i = rng.choice(cand)
        lines[i] = lines[i][:30] + "  1.2.3x" + lines[i][38:]
    elif fmt == "mol2":
        ia = [i for i, ln in enumerate(lines) if ln.startswith("@<TRIPOS>ATOM")][0]
        natoms = int(lines[ia - 1].split()[0]) if False else int([ln for ln in lines if ln.strip()][3].split()[0])
        i = ia + 1 + rng.randrange(natoms)
        w = lines[i].split()
        w[2] = "1.2.3x"
        lines[i] = " ".join(w) + "\n"
    elif fmt == "gromacs":
        natom = int(lines[1])
        i = 2 + rng.randrange(natom)
        lines[i] = lines[i][:20] + "  1.2.3x" + lines[i][28:]
    return "".join(lines)


def corrupt_count(fmt, text):
    lines = text.splitlines(keepends=True)
    if fmt in ("xyz", "extxyz"):
        lines[0] = "n3\n"
    elif fmt == "gromacs":
        lines[1] = "   xx\n"
    elif fmt == "sdf":
        lines[3] = " xx" + lines[3][3:]
    else:
        return None
    return "".join(lines)


# ------------------------------------------------------------------ executing loads
def render_fchk_trajectory(rng, nsteps, natom, irc):
    """A formatted checkpoint file of an optimisation / IRC job: arrays of all geometries of every point.
    -> (text, expected frames [(ipoint, istep, energy, second result, coords, gradient)])"""
    prefix = "IRC point" if irc else "Opt point"

    def arr(label, vals, real=True):
        out = [f"{label:<40s}   {'R' if real else 'I'}   N={len(vals):12d}"]
        per = 5 if real else 6
        for c in range(0, len(vals), per):
            out.append("".join((f"{v:16.8E}" if real else f"{int(v):12d}") for v in vals[c:c + per]))
        return out

    z = [rng.choice([1, 6, 7, 8, 9, 17]) for _ in range(natom)]
    lines = [f"trajectory {natom} atoms {len(nsteps)} points", f"{'Opt' if not irc else 'IRC':<10s}{'RHF':<30s}{'STO-3G':>30s}",
             f"{'Number of atoms':<40s}   I     {natom:12d}"]
    lines += arr("Atomic numbers", z, False) + arr("Nuclear charges", [float(x) for x in z])
    cur = [round(0.1 * (i + 1), 8) for i in range(3 * natom)]
    lines += arr("Current cartesian coordinates", cur)
    lines += arr(("IRC" if irc else "Optimization") + " Number of geometries", nsteps, False)
    frames = []
    tag = 0
    for ip, ns in enumerate(nsteps):
        res, geo, grad = [], [], []
        for st in range(ns):
            tag += 1
            e = float(f"{-75.0 - 0.013 * tag:.8E}")
            r2 = float(f"{0.05 * tag * (-1) ** tag:.8E}")
            xyz = np.array([[float(f"{(-1) ** (i + k) * (0.5 + 0.01 * tag + 0.13 * i + 0.007 * k):.8E}") for k in range(3)] for i in range(natom)])
            g = np.array([[float(f"{(-1) ** (i + k + tag) * (0.001 * tag + 0.0001 * (3 * i + k)):.8E}") for k in range(3)] for i in range(natom)])
            res += [e, r2]
            geo += list(xyz.ravel())
            grad += list(g.ravel())
            frames.append({"ipoint": ip, "istep": st, "nstep": ns, "npoint": len(nsteps), "energy": e, "recor": r2, "xyz": xyz, "grad": g, "z": z})
        lines += arr(f"{prefix} {ip + 1:7d} Results for each geome", res)
        lines += arr(f"{prefix} {ip + 1:7d} Geometries", geo)
        lines += arr(f"{prefix} {ip + 1:7d} Gradient at each geome", grad)
    return "\n".join(lines) + "\n", frames


def fchk_frame_same(data, exp, irc):
    ex = data.extra or {}
    ok = (np.array_equal(np.asarray(data.atnums), np.asarray(exp["z"])) and np.allclose(data.atcoords, exp["xyz"], rtol=1e-12, atol=0)
          and np.allclose(data.atgradient, exp["grad"], rtol=1e-12, atol=0) and abs(data.energy - exp["energy"]) <= 1e-12 * abs(exp["energy"])
          and ex.get("ipoint") == exp["ipoint"] and ex.get("istep") == exp["istep"] and ex.get("nstep") == exp["nstep"]
          and ex.get("npoint") == exp["npoint"])
    if irc:
        ok = ok and abs(ex.get("reaction_coordinate", 1e99) - exp["recor"]) <= 1e-12 * max(1.0, abs(exp["recor"]))
    return bool(ok)


def fchk_trajectory_tasks(rng, thorough):
    tasks = []
    shapes = [[1], [2], [1, 1], [3, 1, 2], [2, 5]] if not thorough else [[1], [2], [1, 1], [3, 1, 2], [2, 5], [7, 1, 1, 4], [12], [1] * 6, [5, 6, 7]]
    for nsteps in shapes:
        for natom in ([1, 2, 5] if not thorough else [1, 2, 3, 5, 6, 11]):
            for irc in (False, True):
                text, frames = render_fchk_trajectory(rng, nsteps, natom, irc)
                total = len(frames)
                base = {"fmt": "fchk", "many": True, "text": text, "frames": ["ok"] * total, "cutwarns": False, "singles": [],
                        "expect": frames, "irc": irc}
                tasks.append(dict(base, discard=0, note=f"fchk trajectory {nsteps} x {natom} atoms"))
                tasks.append(dict(base, discard=-1, note="fchk trajectory, iterator dropped before the first frame"))
                for k in sorted({1, total // 2, total} - {0}):
                    tasks.append(dict(base, discard=k, note=f"fchk trajectory, discard after {k}"))
    return tasks


def classify_exc(exc):
    from iodata.utils import FileFormatError, LoadError
    if type(exc) is LoadError:
        return "LoadError"
    if type(exc) is FileFormatError:
        return "FileFormatError"
    return "other:" + type(exc).__name__


def load_exec(task):
    """task: dict(fmt, many, text, frames, cutwarns, discard, singles, note) -> (trace, info)"""
    from iodata import api
    from iodata.utils import LoadWarning
    fmt = task["fmt"]
    tmp = tempfile.mkdtemp(prefix="c13_")
    try:
        path = os.path.join(tmp, SUFFIX[fmt])
        with open(path, "w") as fh:
            fh.write(task["text"])
        sc = {"many": task["many"], "sel": "match", "frames": task["frames"], "cutWarns": task["cutwarns"],
              "discardAfter": max(task["discard"], 0), "neverStarted": task["discard"] < 0}
        tr = Tracer(only=path)
        out = None
        n = 0
        with warnings.catch_warnings(record=True) as wl:
            warnings.simplefilter("always")
            with tr, cpu_budget(120):
                try:
                    if task["many"]:
                        gen = api.load_many(path)
                        if task["discard"] < 0:   # dropped before the first frame is requested
                            gen.close()
                            del gen
                            out = "discarded"
                        for data in ([] if out else gen):
                            n += 1
                            if "expect" in task:
                                same = n <= len(task["expect"]) and fchk_frame_same(data, task["expect"][n - 1], task["irc"])
                            else:
                                same = n <= len(task["singles"]) and digest(data) == task["singles"][n - 1]
                                want = task.get("expect_extra", [None] * n)[n - 1] if n <= len(task.get("expect_extra", [])) else None
                                if want is not None:   # values known from the renderer: a leak between frames cannot hide behind the single loads
                                    same = same and all(np.array_equal(np.asarray((data.extra or {}).get(k)).ravel(), np.asarray(v)) for k, v in want.items())
                            tr.log({"ev": "yield", "i": n, "same": bool(same), "valid": not consistent(data)})
                            if task["discard"] == n:
                                gen.close()
                                out = "discarded"
                                break
                        out = out or "return"
                    else:
                        data = api.load_one(path)
                        n = 1
                        same = digest(data) == task["singles"][0] if task["singles"] else False
                        # the yield of load_one is its return; it happens after the close
                        out = "return"
                except BudgetExceeded:
                    out, msg, namesfile, lineno = "other:does-not-terminate", "CPU budget exceeded", False, []
                except Exception as exc:  # noqa: BLE001
                    out = classify_exc(exc)
                    msg = f"{type(exc).__name__}: {exc}"[:160]
                    namesfile = path in str(exc)
                    ln = getattr(exc, "lineno", None)
                    lineno = [] if ln is None else [int(ln)]
                else:
                    msg = ""
                    namesfile, lineno = True, []
        events = list(tr.events)
        if not task["many"] and out == "return":
            # place the (unlogged) parse result before the close event, as the spec orders it
            ci = max(i for i, e in enumerate(events) if e["ev"] == "close")
            events.insert(ci, {"ev": "yield", "i": 1, "same": bool(same), "valid": not consistent(data)})
        warned = any(issubclass(w.category, LoadWarning) for w in wl)
        end = {"ev": "end", "out": out, "yielded": n, "fd": tr.open_handles() > 0, "warned": warned,
               "namesfile": bool(namesfile), "lineno": lineno, "nread": tr.nread}
        return [{"sc": sc}] + events + [end], {"fmt": fmt, "note": task["note"], "msg": msg, "task": task}
    finally:
        shutil.rmtree(tmp, ignore_errors=True)


def single_digest(fmt, text):
    from iodata import api
    tmp = tempfile.mkdtemp(prefix="c13s_")
    try:
        path = os.path.join(tmp, SUFFIX[fmt])
        with open(path, "w") as fh:
            fh.write(text)
        with warnings.catch_warnings():
            warnings.simplefilter("ignore")
            return digest(api.load_one(path))
    finally:
        shutil.rmtree(tmp, ignore_errors=True)


def build_sequence(args):
    """One frame sequence: returns (dump_trace | None, list of load tasks)."""
    fmt, n, seed, thorough, gen_kind = args
    from iodata import api
    rng = random.Random(seed)
    tasks = []
    dump_trace = None
    tmp = tempfile.mkdtemp(prefix="c13b_")
    try:
        if fmt in O.DUMP_MANY and gen_kind != "rendered":
            objs = writer_frames(fmt, rng, n)
            texts = []
            with warnings.catch_warnings():
                warnings.simplefilter("ignore")
                for o in objs:
                    p = os.path.join(tmp, "one_" + SUFFIX[fmt])
                    api.dump_one(o, p)
                    texts.append(open(p).read())
                path = os.path.join(tmp, SUFFIX[fmt])
                tr = Tracer(only=path)
                it = LoggingIterable(tr, objs, as_generator=(gen_kind == "gen"))
                exc = None
                with tr:
                    try:
                        api.dump_many(it if gen_kind != "list" else _ListProbe(tr, objs), path)
                    except Exception as e:  # noqa: BLE001
                        exc = e
                full = open(path).read() if os.path.exists(path) else ""
            sc = {"op": "dump_many", "sel": "match", "allow": False, "existed": False, "frames": ["ok"] * n,
                  "iterRaises": False, "wpf": 1, "faultAt": 0, "openFails": False}
            end = {"ev": "end", "out": "return" if exc is None else "other:" + type(exc).__name__, "file": "changed",
                   "fd": tr.open_handles() > 0, "warned": False, "complete": full == "".join(texts), "ret": "none"}
            dump_trace = [{"sc": sc}] + tr.events + [end]
        else:
            texts = {"gromacs": render_gro, "extxyz": render_extxyz, "sdf": render_sdf, "xyz": render_xyz}[fmt](rng, n)
            full = "".join(texts)
        singles = [single_digest(fmt, t) for t in texts]
        cw = CUT_WARNS.get(fmt, False)

        expect_extra = [EXTXYZ_EXPECT.get(t) for t in texts] if fmt == "extxyz" else []

        def add(many, text, frames, note, discard=0, sing=None):
            tasks.append({"fmt": fmt, "many": many, "text": text, "frames": frames, "cutwarns": cw, "discard": discard,
                          "singles": singles if sing is None else sing, "note": note, "expect_extra": expect_extra})

        add(True, full, ["ok"] * n, "full")
        add(True, full, ["ok"] * n, "iterator dropped before the first frame", discard=-1)
        add(False, full, ["ok"] * n, "load_one of a multi-frame file")
        if fmt != "gromacs":  # a blank line is a legal GRO title line, so trailing blank lines are not well-formed GRO
            add(True, full + "\n\n", ["ok"] * n, "trailing blank lines")
        for k in range(1, n + 1):
            if k <= 3 or thorough:
                add(True, full, ["ok"] * n, f"discard after {k}", discard=k)
        # truncation at every line
        lines = full.splitlines(keepends=True)
        bounds = [0]
        for t in texts:
            bounds.append(bounds[-1] + len(t.splitlines()))
        for j in range(1, len(lines)):
            m = max(i for i, b in enumerate(bounds) if b <= j)
            frag = lines[bounds[m]:j]
            cls = "none" if bounds[m] == j else classify_fragment(fmt, [x for x in frag])
            if cls == "skip":
                continue
            frames = ["ok"] * m + (["cut"] if cls == "cut" else [])
            if not frames:
                continue
            add(True, "".join(lines[:j]), frames, f"cut at line {j} ({cls})")
        # corruption of one numeric field in each frame
        for m in range(n):
            for how in ("field", "count"):
                bad = corrupt(fmt, texts[m], rng) if how == "field" else corrupt_count(fmt, texts[m])
                if bad is None:
                    continue
                text = "".join(texts[:m]) + bad + "".join(texts[m + 1:])
                add(True, text, ["ok"] * m + ["bad"] + ["ok"] * (n - m - 1), f"corrupt {how} in frame {m + 1}")
                if m == 0:
                    add(False, text, ["bad"] + ["ok"] * (n - 1), f"load_one, corrupt {how} in frame 1")
        return dump_trace, tasks
    finally:
        shutil.rmtree(tmp, ignore_errors=True)


class _ListProbe(list):
    """A real list of frames (dump_many turns it into an iterator itself); pulls are not observable,
    so the dump trace of a list input carries no pull events -- handled by logging them here."""

    def __init__(self, tr, items):
        super().__init__(items)
        self._tr = tr

    def __iter__(self):
        n = len(self)
        tr = self._tr
        base = list.__iter__(self)

        class It:
            def __init__(s):
                s.i = 0

            def __iter__(s):
                return s

            def __next__(s):
                s.i += 1
                tr.log({"ev": "pull", "i": s.i})
                return next(base)
        return It()


def describe(tr, r, info):
    sc = tr[0]["sc"]
    r = max(r, 1)
    end = tr[-1]
    if "op" in sc:
        return (f"{info['fmt']}.dump_many frames={len(sc['frames'])} iterable={info['note']} -> out={end['out']} complete={end['complete']}",
                f"dump_many execution is not a behaviour of ApiDump.tla at event {r + 1}: events={[e.get('ev') for e in tr[1:]]}")
    note = info["note"]
    import re
    cls = re.sub(r"\d+", "N", note)
    ev = tr[r] if r < len(tr) else {}
    key = (f"{info['fmt']}.{'load_many' if sc['many'] else 'load_one'} [{cls}] frames={'/'.join(sorted(set(sc['frames'])))} "
           f"-> out={end['out']} warned={end['warned']} fd={end['fd']}" + (" frame-differs-from-single-load" if ev.get('ev') == 'yield' and not ev.get('same', True) else ""))
    what = (f"execution is not a behaviour of ApiLoad.tla at event {r + 1} ({ev}): scenario frames={sc['frames']} "
            f"discardAfter={sc['discardAfter']} note={note}; events={[e.get('ev') for e in tr[1:]]}; end={end}; {info['msg']}")
    return key, what


def check(run: Run):
    rng = random.Random(run.seed)
    run.cov["rule"] = (
        "frame sequences (1..6 quick / 1..50 thorough frames, differing atom counts, titles incl. separator look-alikes, "
        "bonds, charges) written by dump_many (xyz, pdb, mol2, sdf; list / iterator / generator) or rendered "
        "independently (gro, extxyz); per sequence: full load, load_one, trailing blank lines, discarded iterator, "
        "truncation at every line, one corrupted numeric field or count per frame; distinct by (format, file text, call)")
    for cfg, mod in ((("MC_ApiLoad_thorough.cfg" if run.thorough() else "MC_ApiLoad_quick.cfg"), "MC_ApiLoad"),
                     (("MC_ApiDump_thorough.cfg" if run.thorough() else "MC_ApiDump_quick.cfg"), "MC_ApiDump")):
        st = run_tlc(run, mod, cfg, workers=16, timeout=1800, tag=cfg[:-4])
        run.add_model(st)
    seqs = []
    fmts = ["xyz", "pdb", "mol2", "sdf", "gromacs", "extxyz"]
    sizes = [1, 2, 3, 4, 6] if not run.thorough() else [1, 2, 3, 5, 8, 13, 21, 34, 50]
    for fmt in fmts:
        for n in sizes:
            for rep, gk in enumerate(("list", "iter", "gen")):
                if fmt not in O.DUMP_MANY and rep > 0 and not run.thorough():
                    continue
                for _again in range(run.pick(1, 4)):
                    seqs.append((fmt, n, rng.randint(0, 10**9), run.thorough() and n <= 8, gk))
            if fmt in ("sdf", "xyz"):
                for rep in range(run.pick(2, 12)):
                    seqs.append((fmt, n, rng.randint(0, 10**9), run.thorough() and n <= 8, "rendered"))
    built = pmap(build_sequence, seqs, chunksize=1)
    dump_traces, dump_infos, tasks = [], [], []
    for (fmt, n, seed, th, gk), (dt, ts) in zip(seqs, built):
        if dt is not None:
            dump_traces.append(dt)
            dump_infos.append({"fmt": fmt, "note": gk, "msg": "", "task": [fmt, n, seed, th, gk]})
        tasks += ts
    ftasks = fchk_trajectory_tasks(rng, run.thorough())
    tasks += ftasks
    run.notes["fchk_trajectory_executions"] = len(ftasks)
    results = pmap(load_exec, tasks)
    ltraces = [r[0] for r in results]
    reached = validate_traces(run, "Trace_ApiLoad", ltraces, chunk=2000)
    for (tr, info), r in zip(results, reached):
        run.count()
        run.distinct(hash((info["fmt"], info["task"]["text"], info["task"]["many"], info["task"]["discard"])))
        if r != len(tr):
            key, what = describe(tr, r, info)
            t = dict(info["task"])
            run.violation(key, what, {"task": t, "trace": tr, "failing_event": r + 1})
    dreached = validate_traces(run, "Trace_ApiDump", dump_traces, chunk=2000)
    for tr, info, r in zip(dump_traces, dump_infos, dreached):
        run.count()
        run.distinct(hash(("dump", json.dumps(info["task"]))))
        if r != len(tr):
            key, what = describe(tr, r, info)
            run.violation(key, what, {"seq": info["task"], "trace": tr, "failing_event": r + 1})
    run.notes["sequences"] = len(seqs)
    run.notes["load_executions"] = len(tasks)
    run.notes["dump_many_executions"] = len(dump_traces)
    for i in (0, len(results) // 2, len(results) - 1):
        run.sample({"format": results[i][1]["fmt"], "note": results[i][1]["note"], "trace": results[i][0]})
    run.sample({"dump_many": dump_traces[0]})
    run.assumptions += [
        "MOL2 has no end marker and optional record sections: a cut between sections is a valid shorter file (not generated)",
        "PDB: a trailing fragment without ATOM/HETATM records is trailing material, not a frame; a cut frame is reported by the documented 'END is not found' warning",
        "FCHK optimisation / IRC trajectories (arrays of all geometries per point) are rendered independently; every frame is compared "
        "with the slice of the arrays it must come from (energy, coordinates, gradient, reaction coordinate, point / step counters)",
    ]


def replay(rec):
    d = rec["detail"]
    if "task" not in d:
        print("dump-side replay: re-run ./check C13")
        return 1
    tr, info = load_exec(d["task"])
    run = Run("C13", "quick", 0, LEVEL)
    r = validate_traces(run, "Trace_ApiLoad", [tr])
    print("events:", [e.get("ev") for e in tr[1:]], tr[-1], info["msg"])
    if r[0] != len(tr):
        print("REPRODUCED:", describe(tr, r[0], info)[0])
        return 1
    print("not reproduced on the current tree")
    return 0
