"""C01 -- wavefunction conversion never silently changes the wavefunction.

Spec: spec/Wavefunction.tla (structural denotation; MC_Wavefunction: convention change, segmentation and
sorting shells *with their rows* preserve the denotation in every reachable state; sorting without the
rows does not) and Trace_Wavefunction!DumpOK (outcome contract).  Generated wavefunctions (1-3 atoms
incl. ghost / ECP centres, every shell type the target supports, segmented / SP / generalized
contractions, every permutation of shell order, convention dictionaries of every format module and random
signed permutations, restricted / open-shell / unrestricted / occs_aminusb / generalized orbitals, with
and without virtuals, density matrices) with orbitals orthonormal w.r.t. the reference overlap are
dumped to FCHK, Molden, Molekel, WFN, WFX (API and, for a sub-sample, the CLI); the file is projected
through load_one and -- for WFN/WFX -- through an independent reader; orbitals and densities are
evaluated at probe points with the reference evaluator and compared; TLC validates every record.
"""

from __future__ import annotations

import itertools
import json
import os
import random
import re
import shutil
import subprocess
import tempfile
import warnings

import numpy as np

from ..core import REPO, VERIF, Run
from ..par import pmap
from ..refeval import basis_values, orthonormal_orbitals, value_bounds
from ..tlc import run_tlc, validate_traces

LEVEL = "exploration"
FORMATS = ["fchk", "molden", "molekel", "wfn", "wfx"]
SUFFIX = {"fchk": "w.fchk", "molden": "w.molden", "molekel": "w.mkl", "wfn": "w.wfn", "wfx": "w.wfx"}
# shell types each target can hold (l, kind)
SUPPORTED = {
    "fchk": [(0, "c"), (1, "c"), (2, "c"), (2, "p"), (3, "c"), (3, "p"), (4, "c"), (4, "p"), (5, "p")],
    "molden": [(0, "c"), (1, "c"), (2, "c"), (2, "p"), (3, "c"), (3, "p"), (4, "c"), (4, "p")],
    "molekel": [(0, "c"), (1, "c"), (2, "c"), (2, "p"), (3, "c"), (3, "p"), (4, "c"), (4, "p")],
    "wfn": [(0, "c"), (1, "c"), (2, "c"), (3, "c"), (4, "c")],
    "wfx": [(0, "c"), (1, "c"), (2, "c"), (3, "c"), (4, "c")],
}


def conventions(choice, rng):
    from iodata.convert import CCA_CONVENTIONS, HORTON2_CONVENTIONS
    from iodata.formats import fchk, molden, wfn
    base = {k: v for k, v in HORTON2_CONVENTIONS.items() if k[0] <= 5}
    if choice == "horton2":
        return dict(base)
    if choice == "cca":
        return {k: v for k, v in CCA_CONVENTIONS.items() if k[0] <= 5}
    if choice in ("fchk", "molden", "wfn"):
        tab = {"fchk": fchk.CONVENTIONS, "molden": molden.CONVENTIONS, "wfn": wfn.CONVENTIONS}[choice]
        return {**base, **{k: v for k, v in tab.items() if k[0] <= 5}}
    out = {}
    for k, v in base.items():
        labs = list(v)
        if choice == "reversed":
            labs = labs[::-1]
        elif choice == "signs":
            labs = ["-" + x for x in labs]
        else:  # random signed permutation
            rng.shuffle(labs)
            labs = [("-" if rng.random() < 0.5 else "") + x for x in labs]
        out[k] = labs
    return out


def build(cfg, seed):
    """cfg: dict(natom, ghost, shells=[(center, [(l,kind),...]), ...], conv, mo, virtuals, rdms, fmt)"""
    from iodata import IOData
    from iodata.basis import MolecularBasis, Shell
    from iodata.orbitals import MolecularOrbitals
    rng = random.Random(seed)
    natom = cfg["natom"]
    atnums = np.array([rng.choice([1, 6, 8, 7, 3]) for _ in range(natom)])
    atcoords = np.array([[round(rng.uniform(-1.5, 1.5) + 1.9 * i, 5) for _ in range(3)] for i in range(natom)])
    if cfg.get("big"):
        atcoords += 2100.0   # beyond 1000 angstrom: wide numbers in every coordinate field
    atcorenums = atnums.astype(float)
    if cfg["ghost"] == "ghost" and natom > 1:
        atcorenums[-1] = 0.0
    elif cfg["ghost"] == "ecp":
        atcorenums[0] = max(1.0, atcorenums[0] - 2.0)
    shells = []
    for c, cons in cfg["shells"]:
        nexp = max(rng.choice([1, 2, 3]), max(cons.count(t) for t in cons))   # repeated types need independent contractions
        exps = sorted((round(10 ** rng.uniform(-0.7, 1.2), 6) for _ in range(nexp)), reverse=True)
        if rng.random() < 0.5:
            rng.shuffle(exps)                             # the order of the primitives of a contraction carries no meaning
        coeffs = [[round(rng.uniform(0.2, 1.0) * rng.choice([1, 1, -1]), 6) for _ in cons] for _ in range(nexp)]
        shells.append(Shell(c, [t[0] for t in cons], [t[1] for t in cons], exps, coeffs))
    obasis = MolecularBasis(shells, conventions(cfg["conv"], rng), "L2")
    nb = obasis.nbasis
    norb = nb if cfg["virtuals"] else max(1, min(nb, 2))
    norb = min(norb, orthonormal_orbitals(random.Random(0), obasis, atcoords).shape[1])
    kind = cfg["mo"]
    if kind == "generalized":
        q, _ = np.linalg.qr(np.array([[rng.gauss(0, 1) for _ in range(2 * nb)] for _ in range(2 * nb)]))
        occs = np.zeros(2 * nb)
        occs[:1] = 1.0
        mo = MolecularOrbitals("generalized", None, None, occs, q, np.arange(2 * nb) * 0.1 - 1.0)
    elif kind == "unres":
        ca = orthonormal_orbitals(rng, obasis, atcoords, norb)
        cb = orthonormal_orbitals(rng, obasis, atcoords, norb)
        occs = np.zeros(2 * norb)
        occs[: min(2, norb)] = 1.0
        occs[norb: norb + 1] = 1.0
        en = np.concatenate([np.sort([round(rng.uniform(-3, 2), 6) for _ in range(norb)]), np.sort([round(rng.uniform(-3, 2), 6) for _ in range(norb)])])
        nbeta = norb
        if norb >= 2 and seed % 2:
            # fewer beta than alpha orbitals are stored (programs print only part of the virtual space)
            nbeta = norb - 1
            cb, occs, en = cb[:, :nbeta], np.delete(occs, 2 * norb - 1), np.delete(en, 2 * norb - 1)
        if seed % 7 == 3:
            # a one-electron system stored without any beta orbital (what the WFN reader returns for H or H2+)
            nbeta = 0
            cb, occs, en = ca[:, :0], np.zeros(norb), en[:norb]
            occs[0] = 1.0
        cab = np.concatenate([ca, cb], axis=1)
        if seed % 3 == 1:
            cab = np.asfortranarray(cab)                 # the memory layout of the coefficient matrix is the caller's business
        irreps = np.array([f"a{j + 1}" for j in range(norb)] + [f"b{j + 1}" for j in range(nbeta)])
        mo = MolecularOrbitals("unrestricted", norb, nbeta, occs, cab, en, irreps)
    else:
        c = orthonormal_orbitals(rng, obasis, atcoords, norb)
        occs = np.zeros(norb)
        occs[: min(2, norb)] = 2.0
        amb = None
        if kind == "ropen" and norb >= 2:
            occs[1] = 1.0
        if kind == "amb":
            occs[: min(2, norb)] = [2.0, 1.0][: min(2, norb)]
            amb = np.zeros(norb)
            amb[min(2, norb) - 1] = 1.0 if norb >= 2 else 0.0
        if kind == "ambzero":
            # spin-unpolarised orbitals with singly occupied levels: occs_aminusb is present and identically zero, i.e. every
            # orbital holds occs/2 alpha and occs/2 beta electrons (not the high-spin reading of integer occupations)
            occs[: min(3, norb)] = [2.0, 1.0, 1.0][: min(3, norb)] if norb >= 2 else [1.0]
            amb = np.zeros(norb)
        en = np.sort([round(rng.uniform(-3, 2), 6) for _ in range(norb)])
        if cfg.get("big"):
            en[0] = -1234.5678   # a core orbital energy beyond -1000 hartree
        if seed % 3 == 1:
            c = np.asfortranarray(c)
        elif seed % 3 == 2:
            big = np.zeros((2 * c.shape[0], 2 * c.shape[1]))
            big[::2, ::2] = c
            c = big[::2, ::2]                            # a strided view
        mo = MolecularOrbitals("restricted", norb, norb, occs, c, en, np.array([f"r{j + 1}" for j in range(norb)]), amb)
    kw = dict(atnums=atnums, atcoords=atcoords, atcorenums=atcorenums, obasis=obasis, mo=mo, energy=-3.25 * natom, title="c01 wavefunction",
              lot="RHF", obasis_name="custom")
    if cfg.get("rdms") and kind != "generalized":
        # a symmetric matrix in the conventions of the source object (not necessarily the SCF density: it is stored data)
        m = np.array([[0.3 + 0.1 * min(a, b) + 0.01 * max(a, b) for b in range(nb)] for a in range(nb)])
        kw["one_rdms"] = {"scf": np.asfortranarray(m) if seed % 2 else m}
    return IOData(**kw)


PROBE0 = np.array([[0.3, -0.2, 0.5], [-0.7, 0.9, 0.1], [1.5, 0.4, -0.6], [2.1, 1.7, 2.0], [0.05, 0.02, -0.03], [-1.1, -1.3, 0.8],
                  [3.9, 3.5, 4.4], [0.9, 2.2, 1.0], [2.8, 0.3, 1.9], [1.0, 1.0, 1.0], [-0.4, 1.6, 2.5], [4.6, 4.9, 3.1]])


PROBE = PROBE0


ANG = 1.8897261246257702

# what one unit in the last printed digit of each writer is worth (read off the format strings of the writers)
PREC = {
    "wfn": dict(reld=5e-9, rela=5e-8, dR=5e-9, relc=5e-9),
    "wfx": dict(reld=5e-15, rela=5e-15, relR=5e-15, relc=5e-15),
    "molden": dict(absd=5e-11, absa=5e-11, dR=5e-19, relc=1e-16),
    "molekel": dict(absd=5e-11, absa=5e-11, dR=5e-7 * ANG, absc=5e-13),
    "fchk": dict(reld=5e-9, rela=5e-9, relR=5e-9, relc=5e-9),
}
SAFETY = 4.0


def tolerances(obj, coeffs, fmt):
    """Per orbital and probe point: how far the printed precision of the format may move the orbital value (first order, times
    SAFETY), plus floating-point noise."""
    prec = dict(PREC.get(fmt) or PREC["wfn"])
    prec["dR"] = prec.get("dR", 0.0) + prec.get("relR", 0.0) * float(np.abs(obj.atcoords).max())
    A, E = value_bounds(obj.obasis, obj.atcoords, PROBE, prec)
    c = np.abs(coeffs)
    return SAFETY * ((prec.get("absc", 0.0) + prec.get("relc", 0.0) * c).T @ A + c.T @ E) + 1e-9 * (c.T @ A) + 1e-12


def channels(obj, fmt=None):
    """[(spin, occupation, energy, orbital values at the probe points, tolerance)] for every orbital of obj."""
    mo = obj.mo
    B = basis_values(obj.obasis, obj.atcoords, PROBE)
    out = []
    if mo.kind == "restricted":
        vals = mo.coeffs.T @ B
        scale = tolerances(obj, mo.coeffs, fmt)
        for j in range(mo.norba):
            out.append(("ab", float(mo.occs[j]), float(mo.energies[j]) if mo.energies is not None else 0.0, vals[j], scale[j],
                        float(mo.occsa[j]), float(mo.occsb[j])))
    else:
        for spin, c, occ, en in (("a", mo.coeffsa, mo.occsa, mo.energiesa), ("b", mo.coeffsb, mo.occsb, mo.energiesb)):
            vals = c.T @ B
            scale = tolerances(obj, c, fmt)
            for j in range(c.shape[1]):
                out.append((spin, float(occ[j]), float(en[j]) if en is not None else 0.0, vals[j], scale[j],
                            float(occ[j]) if spin == "a" else 0.0, float(occ[j]) if spin == "b" else 0.0))
    return out, B


def spin_orbitals(chs):
    """Expand to spin orbitals: (spin a|b, occupation in that spin, energy, values, scale)."""
    out = []
    for spin, _occ, en, v, sc, oa, ob in chs:
        if spin in ("ab", "a"):
            out.append(("a", oa, en, v, sc))
        if spin in ("ab", "b"):
            out.append(("b", ob, en, v, sc))
    return out


def compare(src, back, fmt):
    """Compare source and loaded wavefunction as sets of spin orbitals (occupied ones must all be present)."""
    res = {"nuclei_same": True, "orbitals_same": True, "occs_same": True, "energies_same": True, "spin_same": True, "density_same": True,
           "irreps_same": True}
    if not (np.array_equal(src.atnums, back.atnums) and np.allclose(src.atcoords, back.atcoords, atol=2e-5)
            and np.allclose(src.atcorenums, back.atcorenums, atol=1e-5)):
        res["nuclei_same"] = False
    s_ch, sB = channels(src, fmt)
    b_ch, bB = channels(back, fmt)
    S, Bk = spin_orbitals(s_ch), spin_orbitals(b_ch)
    stores_virtuals = fmt in ("fchk", "molden", "molekel")
    # a WFN file without the Multiwfn spin extension is ambiguous when no occupation exceeds 1 (documented heuristic)
    ignore_spin = fmt == "wfn" and max(o for _, o, *_ in S) <= 1.0 + 1e-9
    used = set()
    for spin, occ, en, v, sc in S:
        if occ == 0.0 and not stores_virtuals:
            continue
        cands = [k for k, (sp2, _o2, _e2, v2, _s2) in enumerate(Bk) if k not in used and (ignore_spin or sp2 == spin)
                 and np.all(np.abs(v2 - v) <= sc)]
        if not cands:
            # is it there under the other spin label / with another occupation?
            anyspin = [k for k, (sp2, _o2, _e2, v2, _s2) in enumerate(Bk) if k not in used and np.all(np.abs(v2 - v) <= sc)]
            if anyspin:
                res["spin_same"] = False
                used.add(anyspin[0])
            else:
                res["orbitals_same"] = False
            continue
        best = [k for k in cands if abs(Bk[k][1] - occ) <= 1e-6 and abs(Bk[k][2] - en) <= 2e-5 * max(1.0, abs(en))]
        k = (best or cands)[0]
        used.add(k)
        if abs(Bk[k][1] - occ) > 1e-6:
            res["occs_same"] = False
        if abs(Bk[k][2] - en) > 2e-5 * max(1.0, abs(en)):
            res["energies_same"] = False
    # symmetry labels stay with their orbitals (Molden and Molekel store them; the orbital order of these files is the source's)
    if fmt in ("molden", "molekel") and src.mo.irreps is not None and src.mo.kind == back.mo.kind:
        got = None if back.mo.irreps is None else [str(x) for x in back.mo.irreps]
        if got != [str(x) for x in src.mo.irreps]:
            res["irreps_same"] = False
    # no occupied spin orbital may appear from nowhere
    for k, (sp2, o2, *_r) in enumerate(Bk):
        if k not in used and o2 != 0.0:
            res["occs_same"] = False
    # stored density matrices denote the same density
    # (a file without beta orbitals and with unequal electron counts is a restricted open-shell file to the reader, whatever wrote it:
    #  also an unrestricted one-electron wavefunction stored without beta orbitals)
    open_shell = any(m.kind == "restricted" and abs(float(m.occsa.sum()) - float(m.occsb.sum())) > 1e-9 for m in (src.mo, back.mo))
    for key, dm in (src.one_rdms or {}).items():
        if fmt == "fchk" and key == "scf" and open_shell and key not in (back.one_rdms or {}):
            continue   # documented in fchk.py: the SCF density of restricted open-shell files is dropped by the reader
        if key in (back.one_rdms or {}) and fmt == "fchk":
            d0 = np.einsum("ab,ap,bp->p", dm, sB, sB)
            d1 = np.einsum("ab,ap,bp->p", back.one_rdms[key], bB, bB)
            if not np.allclose(d0, d1, rtol=1e-6, atol=1e-8):
                res["density_same"] = False
        elif fmt == "fchk":
            res["density_same"] = False
    return res


# ------------------------------------------------------------------ independent readers (WFN, WFX)
def _wfn_types():
    t = [(0, 0, 0), (1, 0, 0), (0, 1, 0), (0, 0, 1),
         (2, 0, 0), (0, 2, 0), (0, 0, 2), (1, 1, 0), (1, 0, 1), (0, 1, 1),
         (3, 0, 0), (0, 3, 0), (0, 0, 3), (2, 1, 0), (2, 0, 1), (0, 2, 1), (1, 2, 0), (1, 0, 2), (0, 1, 2), (1, 1, 1),
         (4, 0, 0), (0, 4, 0), (0, 0, 4), (3, 1, 0), (3, 0, 1), (1, 3, 0), (0, 3, 1), (1, 0, 3), (0, 1, 3), (2, 2, 0), (2, 0, 2), (0, 2, 2),
         (2, 1, 1), (1, 2, 1), (1, 1, 2)]
    # h functions (types 36-56) in the order of the AIM programs: z^5, yz^4, y^2z^3, ..., x^5
    t += [(0, 0, 5), (0, 1, 4), (0, 2, 3), (0, 3, 2), (0, 4, 1), (0, 5, 0), (1, 0, 4), (1, 1, 3), (1, 2, 2), (1, 3, 1), (1, 4, 0),
          (2, 0, 3), (2, 1, 2), (2, 2, 1), (2, 3, 0), (3, 0, 2), (3, 1, 1), (3, 2, 0), (4, 0, 1), (4, 1, 0), (5, 0, 0)]
    return t


def independent_wfn(text):
    """Primitive expansion of a WFN file per the AIMPAC format: orbitals as functions of space."""
    lines = text.splitlines()
    m = re.search(r"(\d+) MOL ORBITALS\s+(\d+) PRIMITIVES\s+(\d+) NUCLEI", lines[1])
    nmo, nprim, nnuc = int(m.group(1)), int(m.group(2)), int(m.group(3))
    xyz = []
    for ln in lines[2:2 + nnuc]:
        xyz.append([float(ln[24:36]), float(ln[36:48]), float(ln[48:60])])
    xyz = np.array(xyz)
    i = 2 + nnuc
    cent, typ, expo = [], [], []
    while lines[i].startswith("CENTRE ASSIGNMENTS"):
        cent += [int(lines[i][20 + 3 * k: 23 + 3 * k]) for k in range((len(lines[i]) - 20) // 3)]
        i += 1
    while lines[i].startswith("TYPE ASSIGNMENTS"):
        typ += [int(lines[i][20 + 3 * k: 23 + 3 * k]) for k in range((len(lines[i]) - 20) // 3)]
        i += 1
    while lines[i].startswith("EXPONENTS"):
        expo += [float(w.replace("D", "E")) for w in re.findall(r"[-+]?\d\.\d+[DE][-+]\d+", lines[i])]
        i += 1
    orbs = []
    while i < len(lines) and lines[i].startswith("MO"):
        mm = re.search(r"OCC NO =\s*([-\d.]+)\s+ORB\. ENERGY =\s*([-\d.]+)", lines[i])
        occ, en = float(mm.group(1)), float(mm.group(2))
        i += 1
        co = []
        while len(co) < nprim:
            co += [float(w.replace("D", "E")) for w in re.findall(r"[-+]?\d\.\d+[DE][-+]\d+", lines[i])]
            i += 1
        orbs.append((occ, en, np.array(co)))
    types = _wfn_types()
    vals = []
    for occ, en, co in orbs:
        v = np.zeros(len(PROBE))
        for c, ic, it, a in zip(co, cent, typ, expo):
            rel = PROBE - xyz[ic - 1]
            nx, ny, nz = types[it - 1]
            v += c * rel[:, 0] ** nx * rel[:, 1] ** ny * rel[:, 2] ** nz * np.exp(-a * (rel * rel).sum(axis=1))
        vals.append((occ, en, v))
    return vals


def independent_wfx(text):
    def sec(name):
        m = re.search(rf"<{name}>(.*?)</{name}>", text, re.S)
        return m.group(1) if m else None
    xyz = np.array(sec("Nuclear Cartesian Coordinates").split(), dtype=float).reshape(-1, 3)
    cent = [int(w) for w in sec("Primitive Centers").split()]
    typ = [int(w) for w in sec("Primitive Types").split()]
    expo = [float(w) for w in sec("Primitive Exponents").split()]
    occs = [float(w) for w in sec("Molecular Orbital Occupation Numbers").split()]
    ens = [float(w) for w in sec("Molecular Orbital Energies").split()]
    body = sec("Molecular Orbital Primitive Coefficients")
    parts = re.split(r"<MO Number>\s*\d+\s*</MO Number>", body)[1:]
    types = _wfn_types()
    vals = []
    for occ, en, p in zip(occs, ens, parts):
        co = np.array(p.split(), dtype=float)
        v = np.zeros(len(PROBE))
        for c, ic, it, a in zip(co, cent, typ, expo):
            rel = PROBE - xyz[ic - 1]
            nx, ny, nz = types[it - 1]
            v += c * rel[:, 0] ** nx * rel[:, 1] ** ny * rel[:, 2] ** nz * np.exp(-a * (rel * rel).sum(axis=1))
        vals.append((occ, en, v))
    return vals


def fchk_fields(text):
    """Formatted checkpoint file: label in columns 1-40, type letter in column 44, 'N=' and a count for arrays (values on the
    following lines, whitespace separated except for the 12-character string words), else the scalar in columns 50-."""
    out = {}
    lines = text.splitlines()
    i = 2
    while i < len(lines):
        ln = lines[i]
        label, typ = ln[:40].strip(), ln[43:44]
        i += 1
        if typ not in "IRCLH" or not label:
            continue
        if ln[47:49] == "N=":
            n = int(ln[49:].split()[0])
            vals = []
            while len(vals) < n and i < len(lines):
                vals += lines[i].split()
                i += 1
            out[label] = [int(v) for v in vals[:n]] if typ == "I" else ([float(v) for v in vals[:n]] if typ == "R" else vals[:n])
        else:
            w = ln[49:].split()
            out[label] = (int(w[0]) if typ == "I" else float(w[0]) if typ == "R" else " ".join(w)) if w else None
    return out


# Gaussian's order of the functions of a shell (Cartesian d, f: its own lists; g and higher: x last varying slowest from z^l)
def _gauss_cart(l):
    if l == 0:
        return ["1"]
    if l == 1:
        return ["x", "y", "z"]
    if l == 2:
        return ["xx", "yy", "zz", "xy", "xz", "yz"]
    if l == 3:
        return ["xxx", "yyy", "zzz", "xyy", "xxy", "xxz", "xzz", "yzz", "yyz", "xyz"]
    return ["x" * a + "y" * b + "z" * (l - a - b) for a in range(l + 1) for b in range(l - a + 1)]


def _gauss_pure(l):
    out = ["c0"]
    for m in range(1, l + 1):
        out += [f"c{m}", f"s{m}"]
    return out


def independent_fchk(text):
    """Orbitals of a formatted checkpoint file as functions of space: [(spin, energy, values at the probe points)], electrons (na, nb)."""
    from iodata.basis import MolecularBasis, Shell
    f = fchk_fields(text)
    xyz = np.array(f["Current cartesian coordinates"]).reshape(-1, 3)
    types, nprims, s2a = f["Shell types"], f["Number of primitives per shell"], f["Shell to atom map"]
    expo, con = f["Primitive exponents"], f["Contraction coefficients"]
    pcon = f.get("P(S=P) Contraction coefficients")
    shells, conv = [], {}
    off = 0
    for t, npr, at in zip(types, nprims, s2a):
        e = expo[off:off + npr]
        c = con[off:off + npr]
        if t == -1:
            shells.append(Shell(at - 1, [0, 1], ["c", "c"], e, np.array([c, pcon[off:off + npr]]).T))
        else:
            l, kind = abs(t), ("p" if t < -1 else "c")
            shells.append(Shell(at - 1, [l], [kind], e, np.array([c]).T))
            conv[(l, kind)] = _gauss_pure(l) if kind == "p" else _gauss_cart(l)
        off += npr
    conv.setdefault((0, "c"), ["1"])
    conv.setdefault((1, "c"), ["x", "y", "z"])
    ob = MolecularBasis(shells, conv, "L2")
    B = basis_values(ob, xyz, PROBE)
    nb = B.shape[0]
    out = []
    for spin, key_e, key_c in (("a", "Alpha Orbital Energies", "Alpha MO coefficients"), ("b", "Beta Orbital Energies", "Beta MO coefficients")):
        if key_c not in f:
            continue
        C = np.array(f[key_c]).reshape(-1, nb)          # one orbital after the other
        for j, row in enumerate(C):
            out.append((spin, f[key_e][j], row @ B))
    return out, (f["Number of alpha electrons"], f["Number of beta electrons"]), ob, xyz


def independent_mwfn(text):
    """Multiwfn .mwfn file: plain '$Section' arrays; shell types and function order as in a formatted checkpoint file (no SP shells).
    -> [(occupation, energy, values)] per orbital."""
    from iodata.basis import MolecularBasis, Shell
    lines = text.splitlines()

    def scalar(key, cast=float):
        for ln in lines:
            if ln.startswith(key + "="):
                return cast(ln.split("=", 1)[1].split()[0])
        raise KeyError(key)

    def section(tag, n, cast):
        i = next(k for k, ln in enumerate(lines) if ln.strip() == tag) + 1
        vals = []
        while len(vals) < n:
            vals += lines[i].split()
            i += 1
        return [cast(v) for v in vals[:n]]

    ncen, nshell, nprimshell, nbasis = (scalar(k, lambda x: int(float(x))) for k in ("Ncenter", "Nshell", "Nprimshell", "Nbasis"))
    i0 = next(k for k, ln in enumerate(lines) if ln.strip() == "$Centers") + 1
    xyz = np.array([[float(w) for w in lines[i0 + a].split()[4:7]] for a in range(ncen)]) * ANG
    types = section("$Shell types", nshell, int)
    centers = section("$Shell centers", nshell, int)
    degrees = section("$Shell contraction degrees", nshell, int)
    expo = section("$Primitive exponents", nprimshell, float)
    con = section("$Contraction coefficients", nprimshell, float)
    shells, conv, off = [], {(0, "c"): ["1"], (1, "c"): ["x", "y", "z"]}, 0
    for t, c, d in zip(types, centers, degrees):
        l, kind = abs(t), ("p" if t < -1 else "c")
        shells.append(Shell(c - 1, [l], [kind], expo[off:off + d], np.array([con[off:off + d]]).T))
        conv[(l, kind)] = _gauss_pure(l) if kind == "p" else _gauss_cart(l)
        off += d
    ob = MolecularBasis(shells, conv, "L2")
    B = basis_values(ob, xyz, PROBE)
    out = []
    idx = [k for k, ln in enumerate(lines) if ln.startswith("Index=")]
    for k in idx:
        blk = lines[k:k + 8]
        typ = int(blk[1].split("=")[1])
        en = float(blk[2].split("=")[1])
        occ = float(blk[3].split("=")[1])
        j = next(q for q in range(k, len(lines)) if lines[q].strip() == "$Coeff") + 1
        vals = []
        while len(vals) < nbasis:
            vals += lines[j].split()
            j += 1
        out.append((occ, en, np.array([float(v) for v in vals[:nbasis]]) @ B, typ))
    return out


def independent_check_fchk(src, text):
    """Every source orbital is in the file; with aufbau occupations implied by the electron counts."""
    try:
        vals, (na, nbeta), _ob, _xyz = independent_fchk(text)
    except Exception:  # noqa: BLE001
        return False
    restricted = not any(sp == "b" for sp, _e, _v in vals)
    s_ch, _ = channels(src, "fchk")
    S = spin_orbitals(s_ch)
    nalpha_orbs = sum(1 for sp, _e, _v in vals if sp == "a")
    for spin, occ, en, v, sc in S:
        # position of the matching orbital in the file (alpha list is shared by both spins in a restricted file)
        want_spin = "a" if restricted else spin
        idx = [j for j, (sp, _e, v2) in enumerate(vals) if sp == want_spin and np.all(np.abs(v2 - v) <= sc)]
        if not idx:
            return False
        j = idx[0] if want_spin == "a" else idx[0] - nalpha_orbs
        nocc = na if spin == "a" else nbeta
        # aufbau: occupied iff among the first n orbitals (degenerate duplicates of the same function are all acceptable)
        pos = [(k if want_spin == "a" else k - nalpha_orbs) for k in idx]
        if (occ > 0.5) != any(q < nocc for q in pos) and (occ > 0.5) != all(q < nocc for q in pos):
            return False
    return True


def independent_check(src, text, fmt):
    """Every occupied spatial orbital of the source appears in the file (as read by the independent reader)."""
    try:
        vals = independent_wfn(text) if fmt == "wfn" else independent_wfx(text)
    except Exception:
        return False
    s_ch, _ = channels(src, fmt)
    for spin, occ, en, v, sc, oa, ob in s_ch:
        if occ == 0.0:
            continue
        # a spatial orbital may be stored once (restricted) or as an alpha and a beta orbital: the occupations add up
        # ... and an alpha and a beta orbital of the source may be the same function of space
        tot = sum(o2 for o2, _e2, v2 in vals if np.all(np.abs(v2 - v) <= sc))
        want = sum(c2[1] for c2 in s_ch if np.all(np.abs(c2[3] - v) <= sc))
        if abs(tot - want) > 1e-6:
            return False
    return True


# ------------------------------------------------------------------ one configuration
def run_config(task):
    cfg, seed, via_cli = task
    from iodata import api
    from iodata.utils import DumpError, FileFormatError, PrepareDumpError, PrepareDumpWarning
    fmt, allow = cfg["fmt"], cfg["allow"]
    ev = {"op": "Dump", "cfg": {k: (v if k != "shells" else [[c, [list(t) for t in cons]] for c, cons in v]) for k, v in cfg.items()},
          "seed": seed, "allow": allow, "cli": via_cli, "out": "written", "readable": True, "warned": False, "converted": False,
          "nuclei_same": True, "orbitals_same": True, "occs_same": True, "energies_same": True, "spin_same": True, "density_same": True,
          "irreps_same": True, "independent_same": True, "msg": ""}
    tmp = tempfile.mkdtemp(prefix="c01_")
    global PROBE
    PROBE = PROBE0 + (2100.0 if cfg.get("big") else 0.0)
    try:
        src = build(cfg, seed)
        path = os.path.join(tmp, SUFFIX[fmt])
        with warnings.catch_warnings(record=True) as wl:
            warnings.simplefilter("always")
            try:
                ret = api.dump_one(src, path, fmt=fmt, allow_changes=allow)
                ev["converted"] = ret is not src
            except (PrepareDumpError, DumpError, FileFormatError) as exc:
                ev["out"] = type(exc).__name__
                ev["msg"] = str(exc)[:120].replace(tmp, "")
                return ev
            except Exception as exc:  # noqa: BLE001
                ev["out"] = "other:" + type(exc).__name__
                ev["msg"] = str(exc)[:120]
                return ev
        ev["warned"] = any(issubclass(w.category, PrepareDumpWarning) for w in wl)
        if via_cli:
            # the command-line converter must produce the same bytes from the same source file
            src_file = path
            out2 = os.path.join(tmp, "cli_" + SUFFIX[fmt])
            env = dict(os.environ, PYTHONPATH=REPO, OMP_NUM_THREADS="1")
            p = subprocess.run(["/venv/bin/python", "-m", "iodata", "-c", src_file, out2], env=env, capture_output=True, text=True, timeout=300)
            if p.returncode == 0:
                with warnings.catch_warnings():
                    warnings.simplefilter("ignore")
                    api.dump_one(api.load_one(src_file), os.path.join(tmp, "api_" + SUFFIX[fmt]), allow_changes=True)
                if open(out2, "rb").read() != open(os.path.join(tmp, "api_" + SUFFIX[fmt]), "rb").read():
                    ev["independent_same"] = False
                    ev["msg"] = "CLI output differs from API output"
        with warnings.catch_warnings():
            warnings.simplefilter("ignore")
            try:
                back = api.load_one(path, fmt=fmt)
            except Exception as exc:  # noqa: BLE001
                ev["readable"] = False
                ev["msg"] = f"{type(exc).__name__}: {str(exc.__cause__ or exc)[:120]}".replace(tmp, "")
                return ev
        ev.update(compare(src, back, fmt))
        if fmt in ("wfn", "wfx"):
            ev["independent_same"] = ev["independent_same"] and independent_check(src, open(path).read(), fmt)
        elif fmt == "fchk":
            ev["independent_same"] = ev["independent_same"] and independent_check_fchk(src, open(path).read())
        return ev
    except Exception as exc:  # noqa: BLE001 - a failure of the harness itself must not look like a verdict
        ev["out"] = "harness:" + type(exc).__name__
        ev["msg"] = str(exc)[:200]
        return ev
    finally:
        shutil.rmtree(tmp, ignore_errors=True)


def render_wfn(rng):
    """A WFN file in the layout Gaussian writes (AIMPAC format): per shell, per Cartesian component, all primitives of the
    contraction.  Contraction lengths of 1..6 for every angular momentum (the regrouping of the reader must not assume that a
    contraction has as many primitives as the shell has components).  The primitive coefficients are contraction coefficient x
    orbital coefficient x normalisation, printed numbers: the file itself is the specification of the orbitals."""
    from ..refeval import cart_norm
    types = _wfn_types()
    first = {0: 0, 1: 1, 2: 4, 3: 10, 4: 20}
    ncomp = {0: 1, 1: 3, 2: 6, 3: 10, 4: 15}
    natom = rng.randint(1, 3)
    xyz = [[round(rng.uniform(-1.0, 1.0) + 1.7 * i, 6) for _ in range(3)] for i in range(natom)]
    z = [rng.choice([1, 6, 8, 7]) for _ in range(natom)]
    shells = []
    for _ in range(rng.randint(1, 4)):
        l = rng.choice([0, 1, 1, 2, 2, 3])
        shells.append((rng.randrange(natom), l, rng.choice([1, 2, 2, 3, 4, 6]) if l else rng.choice([1, 3, 6])))
    shells.sort(key=lambda t: t[0])
    cent, typ, expo, pinfo = [], [], [], []
    nb = 0
    for ic, l, nprim in shells:
        ex = sorted((round(10 ** rng.uniform(-0.6, 1.3), 5) for _ in range(nprim)), reverse=True)
        dk = [round(rng.uniform(0.2, 0.9), 5) for _ in range(nprim)]
        comps = list(range(ncomp[l]))
        if l and rng.random() < 0.5:     # the type codes carry the meaning: a shell may list its components in any order
            rng.shuffle(comps)
        for c in comps:
            for k in range(nprim):
                cent.append(ic + 1)
                typ.append(first[l] + c + 1)
                expo.append(ex[k])
                pinfo.append((nb + c, dk[k] * cart_norm(ex[k], types[first[l] + c])))
        nb += ncomp[l]
    nmo = max(1, min(nb, 3))
    C = [[round(rng.uniform(-1.0, 1.0), 6) for _ in range(nmo)] for _ in range(nb)]

    def d(v, w, dec):
        sgn = "-" if v < 0 else " "
        if v == 0:
            return (sgn + "0." + "0" * dec + "D+00").rjust(w)
        import math
        e = int(math.floor(math.log10(abs(v)))) + 1
        mant = round(abs(v) / 10.0 ** e, dec)
        if mant >= 1.0:
            mant, e = mant / 10.0, e + 1
        return (sgn + f"{mant:.{dec}f}D{'+' if e >= 0 else '-'}{abs(e):02d}").rjust(w)

    sym = {1: "H", 6: "C", 7: "N", 8: "O"}
    lines = [" generated in the layout of a Gaussian WFN file", f"GAUSSIAN {nmo:14d} MOL ORBITALS {len(cent):6d} PRIMITIVES {natom:8d} NUCLEI"]
    for i in range(natom):
        lines.append(f"  {sym[z[i]]:<3s}{i + 1:3d}    (CENTRE{i + 1:3d}) {xyz[i][0]:12.8f}{xyz[i][1]:12.8f}{xyz[i][2]:12.8f}  CHARGE ={float(z[i]):5.1f}")
    for s0 in range(0, len(cent), 20):
        lines.append("CENTRE ASSIGNMENTS  " + "".join(f"{v:3d}" for v in cent[s0:s0 + 20]))
    for s0 in range(0, len(typ), 20):
        lines.append("TYPE ASSIGNMENTS    " + "".join(f"{v:3d}" for v in typ[s0:s0 + 20]))
    for s0 in range(0, len(expo), 5):
        lines.append("EXPONENTS " + "".join(d(v, 14, 7) for v in expo[s0:s0 + 5]))
    for j in range(nmo):
        lines.append(f"MO{j + 1:5d}     MO 0.0        OCC NO ={2.0 if j < max(1, nmo - 1) else 0.0:13.7f}  ORB. ENERGY ={-3.0 + 0.71 * j:12.6f}")
        co = [C[fn][j] * f for fn, f in pinfo]
        for s0 in range(0, len(co), 5):
            lines.append("".join(d(v, 16, 8) for v in co[s0:s0 + 5]))
    lines += ["END DATA", f" TOTAL ENERGY =  {-74.965901217080:20.12f} THE VIRIAL(-V/T)={2.00600239:13.8f}"]
    return "\n".join(lines) + "\n"


def render_mwfn(rng):
    """A Multiwfn .mwfn file in the layout Multiwfn 3.7 writes (transcribed from the sample files): Cartesian s..h and pure d..h
    shells (types 0..5 and -2..-5, functions in the order of a formatted checkpoint file), all orbitals incl. virtual ones,
    restricted or unrestricted.  Coefficients refer to normalised contractions of normalised primitives."""
    from ..refeval import overlap as ref_overlap
    from iodata.basis import MolecularBasis, Shell
    natom = rng.randint(1, 3)
    xyz = [[round(rng.uniform(-0.8, 0.8) + 1.1 * i, 8) for _ in range(3)] for i in range(natom)]       # angstrom
    z = [rng.choice([1, 6, 8, 7, 2]) for _ in range(natom)]
    sym = {1: "H", 2: "He", 6: "C", 7: "N", 8: "O"}
    nfun = {0: 1, 1: 3, 2: 6, 3: 10, 4: 15, 5: 21, -2: 5, -3: 7, -4: 9, -5: 11}
    shells = []
    while not shells or (len(shells) < 4 and rng.random() < 0.6 and sum(nfun[t] for _c, t, _n in shells) < 24):
        t = rng.choice([0, 0, 1, 1, 2, -2, -2, 3, -3, -3, -4, -4, 4, -5, 5])
        shells.append((rng.randrange(natom), t, rng.randint(1, 3)))
    shells.sort(key=lambda q: q[0])
    expo, con = [], []
    for _c, t, npr in shells:
        ex = sorted({round(10 ** rng.uniform(-0.6, 1.2), 6) for _ in range(npr)}, reverse=True)
        while len(ex) < npr:
            ex.append(round(ex[-1] * 0.37, 6))
        dk = np.array([round(rng.uniform(0.2, 0.9), 6) for _ in range(npr)])
        l, kind = abs(t), ("p" if t < 0 else "c")
        conv = {(l, kind): _gauss_pure(l) if kind == "p" else _gauss_cart(l)}
        one = MolecularBasis([Shell(0, [l], [kind], np.array(ex), dk[:, None])], conv, "L2")
        dk = dk / float(np.sqrt(ref_overlap(one, np.zeros((1, 3)))[0, 0]))          # a normalised contraction, as the programs store it
        expo += list(ex)
        con += [float(f"{v:.8E}") for v in dk]
    nbasis = sum(nfun[t] for _c, t, _n in shells)
    unres = rng.random() < 0.4
    # linearly dependent functions removed by the program: fewer orbitals (Nindbasis) than basis functions (Nbasis)
    nind = nbasis if (nbasis < 3 or rng.random() < 0.7) else nbasis - rng.randint(1, 2)
    nocc_a = rng.randint(1, nind)
    nocc_b = rng.randint(0, nocc_a) if unres else nocc_a

    def e8(v):
        return f"{v:16.8E}"

    def chunks(vals, per, fmt):
        return ["".join(fmt(v) for v in vals[c:c + per]) for c in range(0, len(vals), per)]

    lines = ["# Generated by the independent writer", f"Wfntype={1 if unres else 0:4d}", f"Charge={float(sum(z) - nocc_a - nocc_b):15.6f}",
             f"Naelec={float(nocc_a):15.6f}", f"Nbelec={float(nocc_b):15.6f}", f"E_tot={-39.0770088 - 0.01 * nbasis:16.8E}", f"VT_ratio={2.00168405:12.8f}", "",
             "# Atom information", f"Ncenter={natom:8d}", "$Centers"]
    lines += [f"{i + 1:6d} {sym[z[i]]:<2s}{z[i]:5d}{float(z[i]):6.1f}{r[0]:16.8f}{r[1]:16.8f}{r[2]:16.8f}" for i, r in enumerate(xyz)]
    lines += ["", "# Basis function information", f"Nbasis={nbasis:12d}", f"Nindbasis={nind:9d}", f"Nprims={sum(abs(nfun[abs(t)]) * n for _c, t, n in shells):12d}",
              f"Nshell={len(shells):12d}", f"Nprimshell={len(expo):8d}", "$Shell types"] + chunks([t for _c, t, _n in shells], 25, lambda v: f"{v:3d}")
    lines += ["$Shell centers"] + chunks([c + 1 for c, _t, _n in shells], 10, lambda v: f"{v:8d}")
    lines += ["$Shell contraction degrees"] + chunks([n for _c, _t, n in shells], 20, lambda v: f"{v:4d}")
    lines += ["$Primitive exponents"] + chunks(expo, 5, e8) + ["$Contraction coefficients"] + chunks(con, 5, e8)
    lines += ["", f"# Orbital information ({2 if unres else 1}*nindbasis orbitals)", " "]
    idx = 0
    for typ, nocc in (((1, nocc_a), (2, nocc_b)) if unres else ((0, nocc_a),)):
        for j in range(nind):
            idx += 1
            occ = (1.0 if unres else 2.0) if j < nocc else 0.0
            co = [float(f"{rng.uniform(-1.0, 1.0):.8E}") for _ in range(nbasis)]
            lines += [f"Index={idx:10d}", f"Type={typ:2d}", f"Energy={-11.0 + 0.731 * j + 0.013 * typ:16.8E}", f"Occ={occ:10.6f}", "Sym= ?", "$Coeff"]
            lines += chunks(co, 5, e8) + [" "]
    lines += ["", "# Various matrices", ""]
    return "\n".join(lines) + "\n"


def foreign_load(task):
    """A WFN / WFX file written by another program: the loaded orbitals are the functions the file's primitive expansion denotes."""
    path, fmt = task
    from iodata import api
    ev = {"op": "ForeignLoad", "file": os.path.basename(path), "fmt": fmt, "readable": True, "count_same": True, "orbitals_same": True,
          "occs_same": True, "energies_same": True, "msg": ""}
    global PROBE
    PROBE = PROBE0
    try:
        text = open(path).read()
        if fmt == "fchk":
            orbs, (na, nbeta), _ob, _xyz = independent_fchk(text)
            al = [o for o in orbs if o[0] == "a"]
            be = [o for o in orbs if o[0] == "b"]
            if be:
                vals = [(float(j < na), en, v) for j, (_s, en, v) in enumerate(al)] + [(float(j < nbeta), en, v) for j, (_s, en, v) in enumerate(be)]
            else:
                vals = [(float(j < na) + float(j < nbeta), en, v) for j, (_s, en, v) in enumerate(al)]
        elif fmt == "mwfn":
            vals = [(o, e, v) for o, e, v, _t in independent_mwfn(text)]
        else:
            vals = independent_wfn(text) if fmt == "wfn" else independent_wfx(text)
        with warnings.catch_warnings():
            warnings.simplefilter("ignore")
            try:
                obj = api.load_one(path, fmt=fmt)
            except Exception as exc:  # noqa: BLE001
                ev["readable"] = False
                ev["msg"] = f"{type(exc).__name__}: {str(exc)[:100]}"
                return ev
        chs, _ = channels(obj, fmt)
        ev["count_same"] = len(chs) == len(vals)
        used = set()
        for occ, en, v in vals:
            cands = [k for k, c in enumerate(chs) if k not in used and np.all(np.abs(c[3] - v) <= c[4] + 1e-10 * np.abs(v))]
            if not cands:
                ev["orbitals_same"] = False
                continue
            best = [k for k in cands if abs(chs[k][1] - occ) <= 1e-6 and abs(chs[k][2] - en) <= 1e-6 * max(1.0, abs(en))]
            k = (best or cands)[0]
            used.add(k)
            if abs(chs[k][1] - occ) > 1e-6:
                ev["occs_same"] = False
            if abs(chs[k][2] - en) > 1e-6 * max(1.0, abs(en)):
                ev["energies_same"] = False
        return ev
    except Exception as exc:  # noqa: BLE001
        ev["readable"] = False
        ev["msg"] = "harness:" + type(exc).__name__ + ":" + str(exc)[:150]
        return ev


def corpus_invariant(task):
    """A wavefunction file of the test corpus, whatever program wrote it: the loaded orbitals are orthonormal with respect to the
    reference overlap of the loaded basis (SCF and natural orbitals are), and they hold the electrons the nuclei and the charge
    account for.  A reader that misplaces a coefficient, an exponent or a normalisation breaks the first."""
    path, fmt, nbmax = task
    from iodata import api
    from ..refeval import overlap as ref_overlap
    ev = {"op": "CorpusInvariant", "file": os.path.basename(path), "fmt": fmt, "checked": False, "orthonormal": True, "nelec_ok": True, "dev": 0.0}
    try:
        with warnings.catch_warnings():
            warnings.simplefilter("ignore")
            try:
                obj = api.load_one(path, fmt=fmt)
            except Exception:  # noqa: BLE001 - some corpus files are damaged on purpose; loading them is C07's business
                return ev
        mo = obj.mo
        if obj.obasis is None or mo is None or mo.coeffs is None or mo.kind == "generalized" or obj.obasis.nbasis > nbmax or np.isnan(mo.coeffs).any():
            return ev
        S = ref_overlap(obj.obasis, obj.atcoords)
        dev = 0.0
        for C in ([mo.coeffs] if mo.kind == "restricted" else [mo.coeffsa, mo.coeffsb]):
            G = C.T @ S @ C
            dev = max(dev, float(np.abs(G - np.eye(G.shape[0])).max()))
        ev.update(checked=True, dev=dev, orthonormal=bool(dev <= 5e-4))       # the corpus itself deviates by at most 3.5e-5
        if obj.charge is not None and mo.nelec is not None:
            ev["nelec_ok"] = bool(abs(float(mo.nelec) - (float(np.sum(obj.atcorenums)) - float(obj.charge))) <= 1e-6)
        return ev
    except Exception as exc:  # noqa: BLE001
        ev.update(checked=True, orthonormal=False, msg="harness:" + type(exc).__name__ + ":" + str(exc)[:120])
        return ev


def shell_sets(fmt, rng, n):
    """Shell lists (center, contractions) within what the target supports (after an allowed conversion)."""
    sup = SUPPORTED[fmt]
    kinds_per_l = {}
    out = []
    for _ in range(n):
        t = rng.choice(sup)
        if fmt in ("molden", "molekel") and t[0] >= 2:
            # one kind per angular momentum in a Molden/Molekel file
            t = (t[0], kinds_per_l.setdefault(t[0], t[1]))
        style = rng.random()
        if style < 0.6:
            cons = [t]
        elif style < 0.75:
            cons = [(0, "c"), (1, "c")]
        elif style < 0.8:
            cons = [(1, "c"), (0, "c")]      # a generalized contraction that is *not* an SP shell (order matters)
        else:
            cons = [(0, "c"), t, (1, "c")] if rng.random() < 0.5 else [t, t]
        out.append(cons)
    return out


def plan(run, rng):
    tasks = []
    convs = ["fchk", "molden", "wfn", "horton2", "cca", "reversed", "signs", "random"]
    mos = ["rclosed", "ropen", "unres", "amb", "generalized", "ambzero"]
    n = run.pick(120, 4000)
    for fmt in FORMATS:
        for i in range(n):
            natom = rng.choice([1, 2, 2, 3])
            nsh = rng.choice([1, 2, 3, 3])
            cons_list = shell_sets(fmt, rng, nsh)
            centers = [rng.randrange(natom) for _ in range(nsh)]
            order = rng.choice(["sorted", "sorted", "reverse", "shuffled"])
            if order == "sorted":
                centers.sort()
            elif order == "reverse":
                centers.sort(reverse=True)
            # every dimension is drawn independently (cyclic index patterns tie dimensions together: stored densities used to
            # meet random conventions only with restricted open-shell orbitals, whose SCF density the FCHK reader drops)
            cfg = {"fmt": fmt, "allow": bool(i % 2), "natom": natom, "ghost": rng.choice(["none", "none", "ghost", "ecp"]),
                   "shells": list(zip(centers, cons_list)), "order": order, "conv": rng.choice(convs), "mo": rng.choice(mos),
                   "virtuals": rng.random() < 0.5, "rdms": fmt == "fchk" and rng.random() < 0.45, "big": rng.random() < 0.08}
            tasks.append((cfg, rng.randint(0, 10**9), run.thorough() and i % 40 == 0))
    # every permutation of a 3-shell multiset that mixes centres, for every format (thorough)
    if run.thorough():
        for fmt in FORMATS:
            base = [(0, [(0, "c")]), (1, [(1, "c")]), (0, [(2, "c")])]
            for perm in itertools.permutations(range(3)):
                for conv in ("wfn", "molden", "random"):
                    for mo in ("rclosed", "unres"):
                        cfg = {"fmt": fmt, "allow": True, "natom": 2, "ghost": "none", "shells": [base[k] for k in perm], "order": "perm",
                               "conv": conv, "mo": mo, "virtuals": True, "rdms": False}
                        tasks.append((cfg, rng.randint(0, 10**9), False))
    return tasks


def describe(e):
    cfg = e["cfg"]
    flags = [k for k in ("nuclei_same", "orbitals_same", "occs_same", "energies_same", "spin_same", "density_same", "irreps_same", "independent_same") if not e[k]]
    gen = any(len(cons) > 1 for _c, cons in cfg["shells"])
    centers = [c for c, _ in cfg["shells"]]
    sorted_ = centers == sorted(centers)
    pure = any(t[1] == "p" for _c, cons in cfg["shells"] for t in cons)
    if e["out"].startswith(("other", "harness")):
        what = f"escapes={e['out']}"
    elif not e["readable"]:
        what = "written file cannot be read back: " + e["msg"].split(":")[0] + ":" + re.sub(r"[\d.]+", "#", e["msg"].split(":", 1)[1][:50] if ":" in e["msg"] else "")
    elif e["converted"] and not (e["allow"] and e["warned"]):
        what = "unannounced conversion"
    else:
        what = "differs: " + ",".join(flags)
    native = {"fchk": "fchk", "molden": "molden", "molekel": "molden", "wfn": "wfn", "wfx": "wfn"}[cfg["fmt"]]
    causes = []
    if cfg["conv"] != native:
        causes.append("foreign-conventions")
    if not sorted_:
        causes.append("unsorted-shells")
    if cfg["mo"] not in ("rclosed",):
        causes.append("mo=" + cfg["mo"])
    if gen:
        causes.append("generalized-contractions")
    if not e["readable"]:
        # the reader's message names the cause
        key = f"{cfg['fmt']} dump {what}"
    elif flags == ["nuclei_same"]:
        key = f"{cfg['fmt']} dump differs: core charges of {cfg['ghost']} centres are not stored"
    else:
        if cfg["ghost"] != "none" and "nuclei_same" in flags:
            causes.append(cfg["ghost"])
        key = f"{cfg['fmt']} dump {what} | {' '.join(causes) or 'plain'}"
    return key, json.dumps(e)[:1800]


def check(run: Run):
    rng = random.Random(run.seed)
    run.cov["rule"] = (
        "configurations = 5 formats x allow_changes x 1-3 atoms (ghost / ECP centres) x 1-3 shells of the types the target holds "
        "(Cartesian and pure, segmented / SP / generalized) x shell order (sorted, reversed, shuffled; all permutations in "
        "thorough) x conventions (fchk, molden, wfn tables, HORTON2, CCA, reversed, all signs flipped, random signed "
        "permutation) x orbitals (restricted closed / open shell / unrestricted / occs_aminusb / generalized) x virtuals x "
        "stored density matrix; distinct by configuration; non-trivial = a file was written and read back")
    cfg = "MC_Wavefunction_thorough.cfg" if run.thorough() else "MC_Wavefunction_quick.cfg"
    st = run_tlc(run, "MC_Wavefunction", cfg, workers=16, timeout=2400, tag=cfg[:-4])
    run.add_model(st)
    tasks = plan(run, rng)
    events = pmap(run_config, tasks, chunksize=2)
    from ..corpus import corpus
    # (h2o_error.wfx is a deliberately damaged file of the test suite)
    foreign = [(p, f) for p, f, _ in corpus() if f in ("wfn", "wfx", "fchk", "mwfn") and "error" not in os.path.basename(p)
               and (run.thorough() or os.path.getsize(p) < 400000)]
    gdir = os.path.join(run.work, "genwfn")
    os.makedirs(gdir, exist_ok=True)
    for k in range(run.pick(40, 600)):
        gp = os.path.join(gdir, f"generated_{k:03d}.wfn")
        with open(gp, "w") as fh:
            fh.write(render_wfn(random.Random(run.seed * 7717 + k)))
        foreign.append((gp, "wfn"))
    for k in range(run.pick(40, 600)):
        gp = os.path.join(gdir, f"generated_{k:03d}.mwfn")
        with open(gp, "w") as fh:
            fh.write(render_mwfn(random.Random(run.seed * 9923 + k)))
        foreign.append((gp, "mwfn"))
    fevents = pmap(foreign_load, foreign, chunksize=1)
    events = events + fevents
    run.notes["foreign_files_loaded"] = len(fevents)
    ctasks = [(p, f, run.pick(60, 130)) for p, f, _ in corpus() if f in ("fchk", "molden", "molekel", "wfn", "wfx", "mwfn", "cp2klog")
              and os.path.getsize(p) < run.pick(150000, 600000)]
    cevents = pmap(corpus_invariant, ctasks, chunksize=1)
    events = events + cevents
    run.notes["corpus_wavefunctions_checked"] = sum(1 for e in cevents if e["checked"])
    run.notes["corpus_worst_orthonormality_deviation"] = max([e["dev"] for e in cevents] or [0.0])
    reached = validate_traces(run, "Trace_Wavefunction", [[e] for e in events], chunk=3000)
    outs = {}
    for e, r in zip(events, reached):
        run.count()
        if e["op"] == "CorpusInvariant":
            run.distinct("corpusinv:" + e["file"])
            if r != 1:
                run.violation(f"{e['fmt']} corpus file: loaded orbitals orthonormal={e['orthonormal']} electron-count-consistent={e['nelec_ok']} ({e['file']})",
                              json.dumps(e), {"event": e})
            continue
        if e["op"] == "ForeignLoad":
            run.distinct("foreign:" + e["file"])
            if r != 1:
                flags = [k for k in ("readable", "count_same", "orbitals_same", "occs_same", "energies_same") if not e[k]]
                fname = "generated file" if e["file"].startswith("generated_") else e["file"]
                run.violation(f"{e['fmt']} file of another program loads differently from its primitive expansion: {','.join(flags)} ({fname})",
                              json.dumps(e), {"event": e})
            continue
        outs[e["out"]] = outs.get(e["out"], 0) + 1
        if e["out"] == "written" and e["readable"]:
            run.distinct(json.dumps(e["cfg"], sort_keys=True))
        if r != 1:
            key, what = describe(e)
            run.violation(key, what, {"event": e})
    run.notes["outcomes"] = outs
    run.sample(next(e for e in events if e["out"] == "written"))
    run.sample(next(e for e in events if e["out"] != "written"))
    run.assumptions += [
        "orbital values at 12 probe points are compared with a tolerance of 2e-6 times the sum of |coefficient x basis value|",
        "virtual orbitals are compared only for formats that store them (FCHK, Molden, Molekel); spin labels of WFN files are "
        "compared only when an occupation exceeds 1 or the loaded kind equals the source kind",
        "independent readers exist for WFN, WFX (primitive expansions) and FCHK (Gaussian's shell types and function order, aufbau "
        "occupations from the electron counts); Molden / Molekel are projected through load_one only (their independent writers are in C05)",
        "corpus WFN / WFX / FCHK / MWFN files written by other programs are loaded and compared with their independent reading",
    ]


def replay(rec):
    e = rec["detail"]["event"]
    cfg = dict(e["cfg"])
    cfg["shells"] = [(c, [tuple(t) for t in cons]) for c, cons in cfg["shells"]]
    new = run_config((cfg, e["seed"], False))
    print(json.dumps({k: new[k] for k in new if k != "cfg"}, indent=1))
    ok = new["out"] != "written" or all(new[k] for k in ("readable", "nuclei_same", "orbitals_same", "occs_same", "energies_same", "spin_same", "density_same", "independent_same"))
    return 0 if ok else 1
