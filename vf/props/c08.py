"""C08 -- dump failures follow the error contract; pre-flight errors spare existing files.

Spec: spec/ApiDump.tla.  TLC checks the protocol invariants and termination on every scenario of a
bounded model (MC_ApiDump); every concrete scenario (format x operation x selection outcome x
missing-attribute subset x rejection reason x allow_changes x path state x faulty-frame index x
iterable kind x write-fault position x open failure) is executed against the real API through the
tracing shims and the recorded trace is validated by Trace_ApiDump.
"""

from __future__ import annotations

import hashlib
import itertools
import os
import random
import shutil
import tempfile
import warnings

import numpy as np

from .. import objects as O
from ..core import Run
from ..par import pmap
from ..shims import IterBoom, LoggingIterable, Tracer
from ..tlc import run_tlc, validate_traces

LEVEL = "model_checking"
OLD = b"OLD CONTENT that must survive a pre-flight failure\n"


class NotIOData:
    """A frame that is not an IOData object at all (pre-flight code crashes on it)."""


def classify_exc(exc):
    from iodata.utils import DumpError, FileFormatError, PrepareDumpError, WriteInputError
    if exc is None:
        return "return"
    for cls, name in ((FileFormatError, "FileFormatError"), (PrepareDumpError, "PrepareDumpError"),
                      (DumpError, "DumpError"), (WriteInputError, "WriteInputError")):
        if type(exc) is cls:
            return name
    if isinstance(exc, IterBoom):
        return "IterError"
    if isinstance(exc, OSError):
        return "OSError"
    return "other:" + type(exc).__name__


def required_of(fmt, op):
    from iodata.api import FORMAT_MODULES
    return list(getattr(FORMAT_MODULES[fmt], op).required)


def make_frame(fmt, op, kind, rng, detail=None):
    """-> (object, actual kind). detail: for 'missing' the subset of required attrs to clear;
    for fatal/convertible the variant name."""
    if kind == "crash":
        return NotIOData(), "crash"
    if kind in ("fatal", "convertible"):
        return O.make(fmt, rng, detail), kind
    obj = O.make(fmt, rng, "plain")
    if kind == "missing":
        for a in detail:
            try:
                setattr(obj, a, None)
            except Exception:
                pass
        req = required_of(fmt, op)
        actual = "missing" if any(getattr(obj, a) is None for a in req) else "ok"
        return obj, actual
    if kind == "wfail":
        # an element number outside the periodic table: the writer fails on it
        obj.atnums = np.array([200] * len(obj.atnums))
        return obj, "wfail"
    return obj, "ok"


def file_state(path, existed):
    if not os.path.exists(path):
        return "absent"
    with open(path, "rb") as fh:
        data = fh.read()
    if existed and data == OLD:
        return "old"
    return "changed"


def execute(task):
    """Run one scenario against the real API; returns (trace, info)."""
    (idx, fmt, op, sel, allow, existed, frames_spec, iter_raises, iter_gen, fault_at, open_fails, seed, bogus_kw) = task
    from iodata import api
    rng = random.Random(seed)
    tmp = tempfile.mkdtemp(prefix="c08_", dir=os.environ.get("VERIF_TMP", "/tmp"))
    try:
        frames = []
        kinds = []
        for kind, detail in frames_spec:
            obj, actual = make_frame(fmt, op if op != "write_input" else "dump_one", kind, rng, detail) \
                if op != "write_input" else (_input_frame(kind, rng), kind)
            frames.append(obj)
            kinds.append(actual)
        if bogus_kw:
            kinds[0] = "wfail" if kinds[0] == "ok" else kinds[0]
        # file name and fmt argument realising the selection outcome
        if op == "write_input":
            fname, fmtarg = "job.in", (fmt if sel == "explicit" else "no_such_program")
        elif sel == "match":
            fname, fmtarg = O.SUFFIX[fmt], None
        elif sel == "explicit":
            fname, fmtarg = "out.bin", fmt
        elif sel == "nomatch":
            fname, fmtarg = "out.unknownext", None
        elif sel == "unknown":
            fname, fmtarg = O.SUFFIX[fmt], "no_such_format"
        else:  # unsupported
            fname, fmtarg = O.SUFFIX[fmt], ("gaussianlog" if op == "dump_one" else "cube")
        path = os.path.join(tmp, fname)
        if existed:
            with open(path, "wb") as fh:
                fh.write(OLD)
        sc = {"op": op, "sel": sel, "allow": bool(allow), "existed": bool(existed), "frames": kinds,
              "iterRaises": bool(iter_raises), "wpf": 1, "faultAt": int(fault_at or 0), "openFails": bool(open_fails)}
        # reference bytes of a clean run (only needed to decide `complete`)
        tr = Tracer(fault_at=fault_at, open_fails=open_fails, only=path)
        exc = None
        ret = None
        kwargs = {"no_such_keyword": 1} if bogus_kw else {}
        with warnings.catch_warnings(record=True) as wlist:
            warnings.simplefilter("always")
            with tr:
                try:
                    if op == "dump_one":
                        ret = api.dump_one(frames[0], path, fmt=fmtarg, allow_changes=allow, **kwargs)
                    elif op == "dump_many":
                        it = LoggingIterable(tr, frames, raises=iter_raises, as_generator=iter_gen)
                        api.dump_many(it, path, fmt=fmtarg, allow_changes=allow, **kwargs)
                    else:
                        if frames_spec[0][0] == "wfail":
                            kwargs = dict(kwargs, template="{no_such_field} {geometry}")
                        api.write_input(frames[0], path, fmtarg, **kwargs)
                except Exception as e:  # noqa: BLE001 - every class is classified
                    exc = e
        out = classify_exc(exc)
        from iodata.utils import PrepareDumpWarning
        warned = any(issubclass(w.category, PrepareDumpWarning) for w in wlist)
        end = {"ev": "end", "out": out, "file": file_state(path, existed), "fd": tr.open_handles() > 0,
               "warned": warned, "complete": True, "ret": "none"}
        if out == "return":
            if op == "dump_one":
                end["ret"] = "same" if ret is frames[0] else "new"
            # completeness: the bytes equal those of an undisturbed run to a fresh path
            ref = os.path.join(tmp, "ref_" + fname)
            with warnings.catch_warnings():
                warnings.simplefilter("ignore")
                if op == "dump_one":
                    api.dump_one(frames[0], ref, fmt=fmt, allow_changes=allow)
                elif op == "dump_many":
                    api.dump_many(list(frames), ref, fmt=fmt, allow_changes=allow)
                else:
                    api.write_input(frames[0], ref, fmt)
            with open(ref, "rb") as f1, open(path, "rb") as f2:
                end["complete"] = f1.read() == f2.read()
        trace = [{"sc": sc}] + tr.events + [end]
        msg = "" if exc is None else f"{type(exc).__name__}: {exc}"[:200]
        return trace, {"idx": idx, "fmt": fmt, "op": op, "frames_spec": frames_spec, "nwrite": tr.nwrite, "msg": msg,
                       "task": list(task)}
    finally:
        shutil.rmtree(tmp, ignore_errors=True)


def _input_frame(kind, rng):
    return O.make("xyz", rng, "plain")


def count_writes(fmt, op, nframes, seed):
    t = (0, fmt, op, "explicit", True, False, [("ok", None)] * nframes, False, False, None, False, seed, False)
    tr, info = execute(t)
    return info["nwrite"]


def scenarios(run: Run, rng):
    tasks = []
    thorough = run.thorough()

    def add(fmt, op, sel="explicit", allow=False, existed=True, frames=(("ok", None),), iter_raises=False,
            iter_gen=False, fault_at=None, open_fails=False, bogus_kw=False):
        tasks.append((len(tasks), fmt, op, sel, allow, existed, list(frames), iter_raises, iter_gen, fault_at,
                      open_fails, rng.randint(0, 10**9), bogus_kw))

    sels = ["match", "explicit", "nomatch", "unknown", "unsupported"]
    for fmt in O.DUMP_ONE:
        req = required_of(fmt, "dump_one")
        for sel in sels:
            if fmt == "json_qcschema" and sel == "match":
                continue
            for existed in (False, True):
                add(fmt, "dump_one", sel=sel, existed=existed)
        # every subset of required attributes set to None
        subsets = [s for n in range(1, len(req) + 1) for s in itertools.combinations(req, n)]
        for s in subsets:
            for existed in (False, True):
                add(fmt, "dump_one", existed=existed, frames=[("missing", list(s))], allow=bool(len(s) % 2))
        # every rejection reason x allow_changes
        for var in O.VARIANTS.get(fmt, []):
            if var == "plain":
                continue
            for allow in (False, True):
                for existed in (False, True):
                    add(fmt, "dump_one", allow=allow, existed=existed, frames=[(O.frame_kind(var), var)])
        add(fmt, "dump_one", frames=[("crash", None)], existed=True)
        add(fmt, "dump_one", frames=[("crash", None)], existed=False, sel="match" if fmt != "json_qcschema" else "explicit")
        add(fmt, "dump_one", bogus_kw=True, existed=True)
        add(fmt, "dump_one", open_fails=True, existed=True)
        add(fmt, "dump_one", open_fails=True, existed=False)
        if fmt in ("xyz", "pdb", "mol2", "sdf"):
            add(fmt, "dump_one", frames=[("wfail", None)], existed=True)
        # write faults: k-th write call raises
        for _obj in range(4 if thorough else 1):     # several objects: the number of write calls depends on the object
            seed = rng.randint(0, 10**9)
            nw = count_writes(fmt, "dump_one", 1, seed)
            ks = range(1, nw + 1) if thorough else sorted({1, 2, max(1, nw // 2), nw})
            for k in ks:
                tasks.append((len(tasks), fmt, "dump_one", "explicit", False, bool(k % 2), [("ok", None)], False, False, k,
                              False, seed, False))
    kinds_many = ["ok", "missing", "crash", "wfail"]
    for fmt in O.DUMP_MANY:
        req = required_of(fmt, "dump_many")
        for sel in sels:
            for existed in (False, True):
                add(fmt, "dump_many", sel=sel, existed=existed, frames=[("ok", None)] * 2)
        for existed in (False, True):
            for gen in (False, True):
                add(fmt, "dump_many", existed=existed, frames=[], iter_gen=gen)                    # empty sequence
                add(fmt, "dump_many", existed=existed, frames=[], iter_raises=True, iter_gen=gen)  # raises at first item
        maxf = 5 if thorough else 3
        for n in range(1, maxf + 1):
            for pos in range(n):
                for bad in ("missing", "crash", "wfail"):
                    fr = [("ok", None)] * n
                    fr[pos] = (bad, [rng.choice(req)] if bad == "missing" else None)
                    for existed in (False, True):
                        add(fmt, "dump_many", existed=existed, frames=fr, iter_gen=bool((pos + n) % 2))
            for gen in (False, True):
                add(fmt, "dump_many", frames=[("ok", None)] * n, iter_gen=gen, existed=bool(n % 2))
                add(fmt, "dump_many", frames=[("ok", None)] * n, iter_raises=True, iter_gen=gen, existed=bool(n % 2))
        for s in [s for k in range(1, len(req) + 1) for s in itertools.combinations(req, k)]:
            add(fmt, "dump_many", frames=[("missing", list(s)), ("ok", None)], existed=True)
            add(fmt, "dump_many", frames=[("ok", None), ("missing", list(s))], existed=True)
        add(fmt, "dump_many", frames=[("ok", None)] * 2, open_fails=True)
        for _obj in range(4 if thorough else 1):
            seed = rng.randint(0, 10**9)
            nw = count_writes(fmt, "dump_many", 3, seed)
            ks = range(1, nw + 1) if thorough else sorted({1, max(1, nw // 3), max(1, nw // 3) + 1, max(1, 2 * nw // 3), nw})
            for k in ks:
                tasks.append((len(tasks), fmt, "dump_many", "explicit", False, bool(k % 2), [("ok", None)] * 3, False,
                              bool(k % 3 == 0), k, False, seed, False))
    for prog in ("gaussian", "orca"):
        for sel in ("explicit", "unknown"):
            for existed in (False, True):
                add(prog, "write_input", sel=sel, existed=existed)
        add(prog, "write_input", frames=[("wfail", None)], existed=True)
        add(prog, "write_input", frames=[("wfail", None)], existed=False)
        add(prog, "write_input", open_fails=True)
        seed = rng.randint(0, 10**9)
        t = (0, prog, "write_input", "explicit", False, False, [("ok", None)], False, False, None, False, seed, False)
        nw = execute(t)[1]["nwrite"]
        for k in range(1, nw + 1):
            tasks.append((len(tasks), prog, "write_input", "explicit", False, True, [("ok", None)], False, False, k, False,
                          seed, False))
    return tasks


def describe(trace, reached, info):
    sc = trace[0]["sc"]
    reached = max(reached, 1)
    ev = trace[reached] if reached < len(trace) else {}
    end = trace[-1]
    key = (f"{info['fmt']}.{sc['op']} sel={sc['sel']} frames={'/'.join(sc['frames']) or '-'} allow={sc['allow']} "
           f"existed={sc['existed']} fault={'k' if sc['faultAt'] else '-'} openFails={sc['openFails']} "
           f"iterRaises={sc['iterRaises']} -> out={end['out']} file={end['file']} fd={end['fd']}")
    what = (f"execution is not a behaviour of ApiDump.tla at event {reached + 1} ({ev}); scenario={sc}; "
            f"events={[e.get('ev') for e in trace[1:]]}; end={end}; message={info['msg']}")
    return key, what


def check(run: Run):
    rng = random.Random(run.seed)
    run.cov["rule"] = (
        "scenarios = 13 dump_one + 4 dump_many formats + 2 input writers x selection outcome x every subset of "
        "required attributes set to None x every prepare_dump rejection reason x allow_changes x {absent, "
        "pre-existing} target x faulty-frame index (1..n, n<=3/4) x {list, generator, raising} iterable x write "
        "fault at the k-th write call x open failure x non-IOData frame x writer failure; distinct by scenario "
        "record + format, non-trivial = not a plain successful dump")
    cfg = "MC_ApiDump_thorough.cfg" if run.thorough() else "MC_ApiDump_quick.cfg"
    st = run_tlc(run, "MC_ApiDump", cfg, workers=16, timeout=1800, coverage=True, tag=cfg[:-4])
    run.add_model(st)
    if st.get("coverage_zero"):
        run.notes["model_actions_never_taken"] = st["coverage_zero"]

    tasks = scenarios(run, rng)
    results = pmap(execute, tasks)
    traces = [r[0] for r in results]
    reached = validate_traces(run, "Trace_ApiDump", traces, chunk=1500)
    import json
    for (tr, info), r in zip(results, reached):
        run.count()
        sc = tr[0]["sc"]
        if not (tr[-1]["out"] == "return" and not sc["existed"]):
            run.distinct(json.dumps([info["fmt"], sc], sort_keys=True))
        if r != len(tr):
            key, what = describe(tr, r, info)
            run.violation(key, what, {"task": info["task"], "trace": tr, "failing_event": r + 1})
    for i in (0, len(results) // 3, 2 * len(results) // 3, len(results) - 1):
        run.sample({"format": results[i][1]["fmt"], "trace": results[i][0]})
    run.notes["scenarios"] = len(tasks)
    run.assumptions += [
        "BaseExceptions (KeyboardInterrupt) and failures of close() itself are not injected",
        "an exception raised by the caller's iterable may surface wrapped (DumpError) or unwrapped (statement ambiguous)",
        "file state is observed as absent / identical to the pre-existing bytes / changed",
    ]


def replay(rec):
    task = tuple(rec["detail"]["task"])
    task = task[:6] + ([tuple(x) for x in task[6]],) + task[7:]
    tr, info = execute(task)
    run = Run("C08", "quick", 0, LEVEL)
    r = validate_traces(run, "Trace_ApiDump", [tr])
    print("events:", [e.get("ev") for e in tr[1:]], "end:", tr[-1], info["msg"])
    if r[0] != len(tr):
        print("REPRODUCED:", describe(tr, r[0], info)[0])
        return 1
    print("not reproduced on the current tree")
    return 0
