"""Shared run context: evidence, known-findings gate, violation reporting, scratch handling.

Exit codes of every check: 0 = property held on everything explored (KNOWN-FINDING lines allowed),
1 = at least one violation not listed in known_findings.json (VIOLATION line printed),
2 = machinery failure (TLC crash, harness bug, spec error) -- never reported as 0 or 1.
"""

from __future__ import annotations

import atexit
import hashlib
import json
import os
import shutil
import sys
import time
import traceback

VERIF = os.path.dirname(os.path.dirname(os.path.abspath(__file__)))
REPO = os.environ.get("VERIF_REPO", "/repo")
SPEC_DIR = os.path.join(VERIF, "spec")
KNOWN_FILE = os.path.join(VERIF, "known_findings.json")
NCPU = int(os.environ.get("VERIF_NCPU", os.cpu_count() or 4))


class MachineryError(Exception):
    """Something in the verification machinery (not in iodata) failed."""


def jdump(obj, path):
    with open(path, "w") as fh:
        json.dump(obj, fh, separators=(",", ":"))


def short_hash(obj) -> str:
    return hashlib.sha1(json.dumps(obj, sort_keys=True, default=str).encode()).hexdigest()[:12]


def load_known():
    if not os.path.exists(KNOWN_FILE):
        return {"open": [], "fixed": []}
    with open(KNOWN_FILE) as fh:
        return json.load(fh)


class Run:
    """One invocation of one check."""

    def __init__(self, pid: str, tier: str, seed: int, level: str):
        self.pid = pid
        self.tier = tier
        self.seed = seed
        self.level = level
        self.t0 = time.time()
        self.work = os.path.join(VERIF, ".work", f"{pid}-{os.getpid()}")
        shutil.rmtree(self.work, ignore_errors=True)
        os.makedirs(self.work)
        atexit.register(shutil.rmtree, self.work, True)
        self.violations = []  # dicts: key, what, detail
        self.cov = {
            "evaluations": 0,
            "distinct_nontrivial": 0,
            "rule": "",
            "samples": [],
            "states": 0,
            "transitions": 0,
            "traces_validated_against_impl": 0,
        }
        self.assumptions = []
        self.notes = {}
        self._distinct = set()
        known = load_known()
        self.known_open = {
            e["key"]: e for e in known.get("open", []) if e.get("property") == pid
        }

    # ------------------------------------------------------------------ coverage helpers
    def thorough(self) -> bool:
        return self.tier == "thorough"

    def pick(self, quick, thorough):
        return thorough if self.thorough() else quick

    def count(self, n=1):
        self.cov["evaluations"] += n

    def distinct(self, token):
        """Register a distinct non-trivial case (token hashable/JSON-able)."""
        if not isinstance(token, (str, int, tuple)):
            token = json.dumps(token, sort_keys=True, default=str)
        self._distinct.add(token)

    def sample(self, obj, cap=6):
        if len(self.cov["samples"]) < cap:
            self.cov["samples"].append(obj)

    def add_model(self, stats):
        """Add TLC statistics of a model-checking run (dict from vf.tlc.run_tlc)."""
        self.cov["states"] += int(stats.get("distinct", 0))
        self.cov["transitions"] += int(stats.get("generated", 0))
        self.notes.setdefault("tlc_runs", []).append(
            {k: stats.get(k) for k in ("name", "distinct", "generated", "depth", "wall_s", "coverage_zero")}
        )

    # ------------------------------------------------------------------ violations
    def violation(self, key: str, what: str, detail=None):
        """Record a violation of the property, identified by a specific key."""
        self.violations.append({"key": key, "what": what, "detail": detail})

    def finish(self):
        self.cov["distinct_nontrivial"] = max(self.cov["distinct_nontrivial"], len(self._distinct))
        new = {}
        known_hit = {}
        for v in self.violations:
            if v["key"] in self.known_open:
                known_hit.setdefault(v["key"], []).append(v)
            else:
                new.setdefault(v["key"], []).append(v)
        for key, vs in sorted(known_hit.items()):
            print(f"KNOWN-FINDING: property={self.pid} {key} -- {self.known_open[key].get('what', vs[0]['what'])} ({len(vs)} case(s) this run)")
        rc = 0
        replay_paths = []
        rdir = os.path.join(VERIF, "replays", self.pid)
        if not os.environ.get("VERIF_NOEVIDENCE"):
            shutil.rmtree(rdir, ignore_errors=True)  # replays of earlier runs are stale
        if new:
            os.makedirs(rdir, exist_ok=True)
            for key, vs in sorted(new.items()):
                path = os.path.join(rdir, short_hash([key, vs[0]["detail"]]) + ".json")
                with open(path, "w") as fh:
                    json.dump({"property": self.pid, "key": key, "what": vs[0]["what"], "count": len(vs),
                               "detail": vs[0]["detail"], "seed": self.seed, "tier": self.tier},
                              fh, indent=1, default=str)
                replay_paths.append(path)
                print(f"VIOLATION property={self.pid} replay={path}")
                print(f"  key: {key}\n  what: {vs[0]['what']} ({len(vs)} case(s))")
            rc = 1
        self.write_evidence(len(self.violations), sorted(new), sorted(known_hit))
        wall = time.time() - self.t0
        print(f"[{self.pid}] tier={self.tier} seed={self.seed} evaluations={self.cov['evaluations']} "
              f"distinct={self.cov['distinct_nontrivial']} states={self.cov['states']} "
              f"traces={self.cov['traces_validated_against_impl']} violations={len(new)} "
              f"known={len(known_hit)} wall={wall:.1f}s")
        return rc

    def write_evidence(self, nviol, new_keys, known_keys):
        cov = dict(self.cov)
        cov.update(self.notes)
        cov["new_violation_keys"] = new_keys
        cov["known_finding_keys"] = known_keys
        if cov["states"] == 0:
            # no model was run in this invocation: do not claim model-checking keys
            for k in ("states", "transitions"):
                cov.pop(k)
        ev = {
            "property_id": self.pid,
            "tier": self.tier,
            "seed": self.seed,
            "level": self.level,
            "coverage": cov,
            "assumptions": self.assumptions,
            "wall_s": round(time.time() - self.t0, 2),
            "violations": len(new_keys),
        }
        if os.environ.get("VERIF_NOEVIDENCE"):  # self-tests against scratch worktrees
            return
        os.makedirs(os.path.join(VERIF, "evidence"), exist_ok=True)
        path = os.path.join(VERIF, "evidence", f"{self.pid}.json")
        with open(path + ".tmp", "w") as fh:
            json.dump(ev, fh, indent=1, default=str)
        os.replace(path + ".tmp", path)


def main_guard(fn):
    """Run fn() -> exit code; map unexpected exceptions to exit 2."""
    try:
        rc = fn()
    except MachineryError as exc:
        print(f"MACHINERY-FAILURE: {exc}", file=sys.stderr)
        traceback.print_exc()
        rc = 2
    except SystemExit:
        raise
    except BaseException:
        print("MACHINERY-FAILURE: unexpected exception", file=sys.stderr)
        traceback.print_exc()
        rc = 2
    sys.stdout.flush()
    sys.exit(rc)
