"""Reference evaluator: orbital values and overlaps from the formulas of docs/basis.rst only.

No iodata code is used, except that the functions accept iodata's MolecularBasis objects (shells,
conventions) as input.  Real regular solid harmonics are built from the documented formula with exact
rational arithmetic (sympy), overlaps from the Obara-Saika recurrences.
"""

from __future__ import annotations

import functools
import re
from math import exp, factorial, pi, sqrt

import numpy as np


def dfact(n):
    r = 1
    while n > 1:
        r *= n
        n -= 2
    return r


def cart_norm(alpha, n):
    nx, ny, nz = n
    return sqrt((2 * alpha / pi) ** 1.5 * (4 * alpha) ** (nx + ny + nz) / (dfact(2 * nx - 1) * dfact(2 * ny - 1) * dfact(2 * nz - 1)))


def pure_norm(alpha, l):
    return sqrt((2 * alpha / pi) ** 1.5 * (4 * alpha) ** l / dfact(2 * l - 1))


@functools.lru_cache(None)
def solid_harmonic(l, t, m):
    """Real regular solid harmonic C_lm (t = 0) or S_lm (t = 1) as {(nx, ny, nz): coefficient}.

    C_lm = sqrt(2 (l-m)!/(l+m)!) Re[(x+iy)^m] r^(l-m) P_l^(m)(z/r)   (m >= 1; the (-1)^m of the documentation cancels the
    Condon-Shortley phase of the associated Legendre function), C_l0 = r^l P_l(z/r).
    """
    import sympy as sp
    x, y, z, tt = sp.symbols("x y z t", real=True)
    r2 = x * x + y * y + z * z
    dP = sp.Poly(sp.diff(sp.legendre(l, tt), tt, m), tt)
    rad = 0
    for (k,), c in dP.terms():
        rad += c * z**k * r2 ** sp.Rational(l - m - k, 2)
    ang = sp.expand((x + sp.I * y) ** m)
    part = sp.re(ang) if t == 0 else sp.im(ang)
    pref = 1 if m == 0 else sp.sqrt(sp.Rational(2 * factorial(l - m), factorial(l + m)))
    poly = sp.Poly(sp.expand(pref * part * rad), x, y, z)
    return {tuple(int(e) for e in mon): float(c) for mon, c in poly.terms()}


def parse_label(label):
    """-> (sign, ('c', (nx,ny,nz))) or (sign, ('p', t, m))"""
    sign = 1.0
    body = label
    while body.startswith("-"):
        sign = -sign if False else -1.0
        body = body[1:]
    if body == "1":
        return sign, ("c", (0, 0, 0))
    if set(body) <= set("xyz"):
        return sign, ("c", (body.count("x"), body.count("y"), body.count("z")))
    mm = re.fullmatch(r"([cs])(\d+)", body)
    return sign, ("p", 0 if mm.group(1) == "c" else 1, int(mm.group(2)))


def function_terms(obasis):
    """Every basis function as (icenter, [(coefficient incl. normalisation, alpha, (nx, ny, nz)), ...]); follows the conventions."""
    out = []
    for sh in obasis.shells:
        for icon, (l, kind) in enumerate(zip(sh.angmoms, sh.kinds)):
            l = int(l)
            for lab in obasis.conventions[(l, str(kind))]:
                sgn, what = parse_label(lab)
                terms = []
                for a, c in zip(sh.exponents, sh.coeffs[:, icon]):
                    if what[0] == "c":
                        terms.append((sgn * c * cart_norm(a, what[1]), float(a), what[1]))
                    else:
                        for mon, coef in solid_harmonic(l, what[1], what[2]).items():
                            terms.append((sgn * c * pure_norm(a, l) * coef, float(a), mon))
                out.append((int(sh.icenter), terms))
    return out


def basis_values(obasis, atcoords, pts):
    """Matrix (nbasis, npts) of basis-function values."""
    rows = []
    for ic, terms in function_terms(obasis):
        rel = pts - atcoords[ic]
        r2 = (rel * rel).sum(axis=1)
        v = np.zeros(len(pts))
        for k, a, (nx, ny, nz) in terms:
            v += k * rel[:, 0] ** nx * rel[:, 1] ** ny * rel[:, 2] ** nz * np.exp(-a * r2)
        rows.append(v)
    return np.array(rows)


def os1d(n1, n2, PA, PB, p):
    """1-D overlap factor int (x-A)^n1 (x-B)^n2 exp(-p (x-P)^2) dx / sqrt(pi/p) by Obara-Saika."""
    S = np.zeros((n1 + 1, n2 + 1))
    S[0, 0] = 1.0
    h = 0.5 / p
    for i in range(n1 + 1):
        for j in range(n2 + 1):
            if i == 0 and j == 0:
                continue
            if i > 0:
                S[i, j] = PA * S[i - 1, j] + h * ((i - 1) * (S[i - 2, j] if i > 1 else 0.0) + j * (S[i - 1, j - 1] if j > 0 else 0.0))
            else:
                S[i, j] = PB * S[i, j - 1] + h * ((j - 1) * (S[i, j - 2] if j > 1 else 0.0))
    return S[n1, n2]


def prim_overlap(a, A, na, b, B, nb):
    p = a + b
    P = (a * A + b * B) / p
    AB = A - B
    v = exp(-a * b / p * float(AB @ AB)) * (pi / p) ** 1.5
    for ax in range(3):
        v *= os1d(na[ax], nb[ax], P[ax] - A[ax], P[ax] - B[ax], p)
    return v


def overlap(ob0, xyz0, ob1=None, xyz1=None):
    f0 = function_terms(ob0)
    f1 = f0 if ob1 is None else function_terms(ob1)
    xyz1 = xyz0 if xyz1 is None else xyz1
    S = np.zeros((len(f0), len(f1)))
    cache = {}
    for i, (c0, t0) in enumerate(f0):
        for j, (c1, t1) in enumerate(f1):
            if ob1 is None and j < i:
                S[i, j] = S[j, i]
                continue
            tot = 0.0
            for k0, a0, n0 in t0:
                for k1, a1, n1 in t1:
                    key = (c0, a0, n0, c1, a1, n1)
                    v = cache.get(key)
                    if v is None:
                        v = prim_overlap(a0, xyz0[c0], n0, a1, xyz1[c1], n1)
                        cache[key] = v
                    tot += k0 * k1 * v
            S[i, j] = tot
    return S


def orthonormal_orbitals(rng, obasis, atcoords, norb=None):
    """Coefficients (nbasis, norb) orthonormal w.r.t. the *reference* overlap."""
    s = overlap(obasis, atcoords)
    w, v = np.linalg.eigh(s)
    keep = w > 1e-7 * w.max()          # linearly dependent functions span no extra orbital
    x = v[:, keep] / np.sqrt(w[keep])
    n = x.shape[1]
    q, _ = np.linalg.qr(np.array([[rng.gauss(0, 1) for _ in range(n)] for _ in range(n)]))
    c = x @ q
    return c[:, : min(norb or n, n)]


def value_bounds(obasis, atcoords, pts, prec):
    """(A, E): for every basis function the sum of the absolute primitive contributions at the points, and a first-order bound of
    the change of its value when every printed number moves by the printed precision of a format.

    prec: reld/absd (relative/absolute rounding of a contraction coefficient), rela/absa (exponent), dR (each nuclear coordinate).
    A primitive  d N(alpha) x^a y^b z^c exp(-alpha r^2)  with N ~ alpha^((2l+3)/4) changes by at most
    |term| (dd/|d| + ((2l+3)/(4 alpha) + r^2) dalpha) + dR sum_axes |d term/d axis|.
    """
    A, E = [], []
    reld, absd, rela, absa, dR = (prec.get(k, 0.0) for k in ("reld", "absd", "rela", "absa", "dR"))
    for sh in obasis.shells:
        rel = pts - atcoords[int(sh.icenter)]
        r2 = (rel * rel).sum(axis=1)
        for icon, (l, kind) in enumerate(zip(sh.angmoms, sh.kinds)):
            l = int(l)
            for lab in obasis.conventions[(l, str(kind))]:
                _sgn, what = parse_label(lab)
                a_sum = np.zeros(len(pts))
                e_sum = np.zeros(len(pts))
                for a, c in zip(sh.exponents, sh.coeffs[:, icon]):
                    a = float(a)
                    if what[0] == "c":
                        mons = [(abs(c) * cart_norm(a, what[1]), what[1])]
                    else:
                        mons = [(abs(c) * pure_norm(a, l) * abs(coef), mon) for mon, coef in solid_harmonic(l, what[1], what[2]).items()]
                    da = rela * a + absa
                    relerr = reld + (absd / abs(c) if c != 0 else 0.0) + (2 * l + 3) / (4 * a) * da + r2 * da
                    g = np.exp(-a * r2)
                    for k, n in mons:
                        mono = np.abs(rel[:, 0]) ** n[0] * np.abs(rel[:, 1]) ** n[1] * np.abs(rel[:, 2]) ** n[2]
                        term = k * mono * g
                        a_sum += term
                        grad = np.zeros(len(pts))
                        for ax in range(3):
                            x = np.abs(rel[:, ax])
                            lower = np.ones(len(pts))
                            for bx in range(3):
                                p = n[bx] - (1 if bx == ax else 0)
                                if p > 0:
                                    lower = lower * np.abs(rel[:, bx]) ** p
                            d_poly = n[ax] * lower if n[ax] > 0 else 0.0
                            grad += k * g * (d_poly + 2 * a * x * mono)
                        e_sum += term * relerr + dR * grad
                A.append(a_sum)
                E.append(e_sum)
    return np.array(A), np.array(E)
