"""Generators of valid IOData objects per format (shared by the API/protocol and fidelity checks)."""

from __future__ import annotations

import numpy as np

ANG = 1.8897261246257702  # bohr per angstrom (only used to pick sensible magnitudes)

ELEMENTS = [1, 6, 7, 8, 9, 15, 16, 17, 3, 11, 26, 35]


def geometry(rng, natom, elements=None, spread=3.0):
    elements = elements or ELEMENTS
    atnums = np.array([rng.choice(elements) for _ in range(natom)], dtype=int)
    coords = []
    for i in range(natom):
        coords.append([round(rng.uniform(-spread, spread) + 1.7 * i, 4) for _ in range(3)])
    coords = np.array(coords, dtype=float)
    if rng.random() < 0.25:
        # the molecule sits away from the origin (a fragment of a larger system): every format holds +45 angstrom, and a unit
        # factor that is off in the eighth digit shows in the sixth decimal there
        coords[:, rng.randrange(3)] += 45.0
    return atnums, coords * ANG


def make_basis(rng, natom, conventions, scheme="segmented", lmax=2, pure=True, nshell=None, sort=True):
    """scheme: segmented | sp | generalized (SP + a 3-contraction shell) ."""
    from iodata.basis import MolecularBasis, Shell
    shells = []
    nshell = nshell or natom + 1
    pure_l = {l: (pure and rng.random() < 0.5) for l in range(2, lmax + 1)}
    for i in range(nshell):
        icenter = i % natom
        nexp = rng.choice([1, 2])
        exps = [round(rng.uniform(0.3, 3.0), 5) for _ in range(nexp)]
        l = rng.randint(0, lmax)
        kind = "p" if pure_l.get(l, False) else "c"
        shells.append(Shell(icenter, [l], [kind], exps, [[round(rng.uniform(0.3, 1.0), 5)] for _ in exps]))
    if scheme in ("sp", "generalized"):
        exps = [1.31, 0.42]
        shells.append(Shell(0, [0, 1], ["c", "c"], exps, [[0.6, 0.4], [0.5, 0.7]]))
    if scheme == "ps":
        # a two-contraction shell with the p contraction first: not an SP shell, it has to be segmented like any generalized one
        shells.append(Shell(0, [1, 0], ["c", "c"], [1.31, 0.42], [[0.6, 0.4], [0.5, 0.7]]))
    if scheme == "generalized":
        exps = [2.2, 0.7]
        shells.append(Shell(natom - 1, [0, 0, 1], ["c", "c", "c"], exps, [[0.6, 0.2, 0.5], [0.3, 0.8, 0.6]]))
    if sort:
        shells.sort(key=lambda sh: sh.icenter)
    return MolecularBasis(shells, conventions, "L2")


def orthonormal_coeffs(rng, obasis, atcoords, norb=None):
    from iodata.overlap import compute_overlap
    s = compute_overlap(obasis, atcoords)
    w, v = np.linalg.eigh(s)
    keep = w > 1e-8
    x = v[:, keep] / np.sqrt(w[keep])  # columns orthonormal w.r.t. S
    n = x.shape[1]
    q, _ = np.linalg.qr(np.array([[rng.gauss(0, 1) for _ in range(n)] for _ in range(n)]))
    c = x @ q
    norb = norb or n
    return c[:, :norb]


def make_mo(rng, obasis, atcoords, kind="restricted", occ="closed", norb=None):
    """occ: closed | open | fractional | aminusb ; kind: restricted | unrestricted | generalized"""
    from iodata.orbitals import MolecularOrbitals
    nb = obasis.nbasis
    if kind == "generalized":
        c = np.array([[rng.gauss(0, 1) for _ in range(2 * nb)] for _ in range(2 * nb)])
        q, _ = np.linalg.qr(c)
        occs = np.zeros(2 * nb)
        occs[:2] = 1.0
        return MolecularOrbitals("generalized", None, None, occs, q, np.arange(2 * nb) * 0.1)
    if kind == "restricted":
        c = orthonormal_coeffs(rng, obasis, atcoords, norb)
        n = c.shape[1]
        occs = np.zeros(n)
        nocc = max(1, min(n, 2))
        occs[:nocc] = 2.0
        amb = None
        if occ == "open" and n >= 2:
            occs[nocc - 1] = 1.0
        elif occ == "fractional":
            occs[:nocc] = [1.75, 0.25][:nocc]
        elif occ == "aminusb":
            occs[:nocc] = [2.0, 1.0][:nocc]
            amb = np.zeros(n)
            amb[nocc - 1] = 1.0 if nocc >= 2 else 0.0
            if n >= 3 and rng.random() < 0.4:
                # two singly occupied orbitals, half an alpha and half a beta electron in each: the difference is zero everywhere,
                # which is not the same as absent (the integer heuristic would make a triplet of it)
                occs[:3] = [2.0, 1.0, 1.0]
                amb = np.zeros(n)
        elif occ == "nonaufbau" and n >= 3:
            occs[:] = 0.0
            occs[0] = 2.0
            occs[2] = 2.0
        elif occ == "fractional_frontier" and n >= 3:
            # aufbau order, but the frontier orbital holds 0.7 electrons per spin: counted as occupied when the electrons are
            # rounded to an integer, yet not fully occupied
            occs[:] = 0.0
            occs[:2] = [2.0, 1.4]
        elif occ == "nonaufbau_beta" and n >= 3:
            # restricted open shell with a hole in the beta occupations only: alpha 1,1,1 beta 1,0,1
            occs[:] = 0.0
            occs[:3] = [2.0, 1.0, 2.0]
        energies = np.sort(np.array([round(rng.uniform(-2, 2), 5) for _ in range(n)]))
        return MolecularOrbitals("restricted", n, n, occs, c, energies, None, amb)
    ca = orthonormal_coeffs(rng, obasis, atcoords, norb)
    cb = orthonormal_coeffs(rng, obasis, atcoords, norb)
    na, nbb = ca.shape[1], cb.shape[1]
    occs = np.zeros(na + nbb)
    occs[: min(2, na)] = 1.0
    occs[na: na + min(1, nbb)] = 1.0
    if occ == "nonaufbau_ualpha" and na >= 3:
        occs[:3] = [1.0, 0.0, 1.0]
    if occ == "nonaufbau_ubeta" and nbb >= 3:
        occs[na: na + 3] = [1.0, 0.0, 1.0]
    if occ == "fractional_ufrontier_alpha" and na >= 3:
        occs[:3] = [1.0, 0.7, 0.0]
    if occ == "fractional_ufrontier_beta" and nbb >= 3:
        occs[na: na + 3] = [1.0, 0.6, 0.0]
    if occ == "fractional_ubeta_window" and na >= 3 and nbb >= 3:
        # more alpha than beta electrons, and a fractional beta occupation in one of the levels only alpha electrons fill
        occs[:3] = 1.0
        occs[na: na + 3] = [1.0, 0.3, 0.0]
    energies = np.concatenate([np.sort([round(rng.uniform(-2, 2), 5) for _ in range(na)]),
                               np.sort([round(rng.uniform(-2, 2), 5) for _ in range(nbb)])])
    return MolecularOrbitals("unrestricted", na, nbb, occs, np.concatenate([ca, cb], axis=1), energies)


def conventions_for(fmt):
    from iodata.formats import fchk, molden, wfn
    return {"fchk": fchk.CONVENTIONS, "molden": molden.CONVENTIONS, "molekel": molden.CONVENTIONS,
            "wfn": wfn.CONVENTIONS, "wfx": wfn.CONVENTIONS}[fmt]


WFN_FORMATS = ("fchk", "molden", "molekel", "wfn", "wfx")
DUMP_ONE = ("xyz", "pdb", "mol2", "sdf", "poscar", "cube", "fcidump", "json_qcschema") + WFN_FORMATS
DUMP_MANY = ("xyz", "pdb", "mol2", "sdf")
SUFFIX = {"xyz": "m.xyz", "pdb": "m.pdb", "mol2": "m.mol2", "sdf": "m.sdf", "poscar": "POSCAR_m", "cube": "m.cube",
          "fcidump": "m.fcidump", "json_qcschema": "m.json", "fchk": "m.fchk", "molden": "m.molden",
          "molekel": "m.mkl", "wfn": "m.wfn", "wfx": "m.wfx"}


def make(fmt, rng, variant="plain", natom=None):
    """A valid object for dump_one/dump_many in `fmt`.

    variant: plain | convertible (needs allow_changes) | convertible_amb | fatal_generalized | fatal_pure |
             fatal_nonaufbau | fatal_schema
    """
    from iodata import IOData
    from iodata.utils import Cube
    natom = natom or rng.randint(1, 4)
    atnums, atcoords = geometry(rng, natom)
    title = f"obj {rng.randint(0, 99999)}"
    if fmt in ("xyz", "sdf", "pdb", "mol2"):
        kw = dict(atnums=atnums, atcoords=atcoords, title=title)
        if fmt == "mol2":
            kw["atcharges"] = {"mol2charges": np.array([round(rng.uniform(-1, 1), 4) for _ in range(natom)])}
        if fmt in ("sdf", "mol2", "pdb") and natom >= 2 and rng.random() < 0.7:
            # bond type numbers the periodic tables do not know (an SDF reader keeps them as they are) are the writer's problem,
            # never the caller's array's
            kw["bonds"] = np.array([[i, i + 1, rng.choice([1, 2, 3, 1, 2, 3, 12, 0])] for i in range(natom - 1)])
        return IOData(**kw)
    if fmt == "poscar":
        cell = np.diag([8.0, 9.0, 10.0]) * ANG
        return IOData(atnums=atnums, atcoords=atcoords, title=title, cellvecs=cell)
    if fmt == "cube":
        shape = (rng.randint(1, 3), rng.randint(1, 3), rng.randint(1, 7))
        data = np.array([round(rng.uniform(-1, 1), 4) for _ in range(shape[0] * shape[1] * shape[2])]).reshape(shape)
        cube = Cube(origin=np.array([0.1, 0.2, 0.3]), axes=np.diag([0.5, 0.6, 0.7]), data=data)
        return IOData(atnums=atnums, atcoords=atcoords, title=title, cube=cube)
    if fmt == "fcidump":
        n = rng.randint(1, 3)
        one = np.array([[round(rng.uniform(-1, 1), 6) for _ in range(n)] for _ in range(n)])
        one = (one + one.T) / 2
        from iodata.utils import set_four_index_element
        two = np.zeros((n, n, n, n))
        for i in range(n):
            for j in range(n):
                for k in range(n):
                    for m in range(n):
                        set_four_index_element(two, i, j, k, m, round(0.1 * (1 + i + j + k + m) + 0.01 * (i * j + k * m), 6))
        return IOData(one_ints={"core_mo": one}, two_ints={"two_mo": two}, core_energy=1.25, nelec=2 * n, spinpol=0)
    if fmt == "json_qcschema":
        extra = {"schema_name": "qcschema_molecule", "schema_version": 2, "molecule": {}}
        kw = {}
        if variant == "fatal_schema":
            extra = {}
        if variant.startswith(("qcinput", "qcoutput")):
            # qcschema_input / qcschema_output objects with nested dictionaries and lists the writer has to read, never to edit
            prov = {"creator": "other-program", "version": "1.0", "routine": "r"}
            extra = {"schema_name": "qcschema_input", "schema_version": 2,
                     "molecule": {"provenance": [dict(prov), {"creator": "second", "routine": "s"}] if rng.random() < 0.5 else dict(prov),
                                  "extras": {"tag": "mol", "nested": {"k": [1, 2, 3]}}},
                     "input": {"driver": rng.choice(["energy", "gradient", "properties"]), "model": {},
                               "keywords": {"scf_type": "df", "nested": {"levels": [1, 2, {"deep": True}]}},
                               "extras": {"note": "x", "list": [1.5, "a"]}, "id": "job-17",
                               "protocols": {"keep_wavefunction": "all", "keep_stdout": True},
                               "provenance": [dict(prov)] if rng.random() < 0.5 else dict(prov)}}
            kw = dict(lot="HF", obasis_name="sto-3g")
            if rng.random() < 0.6:
                # the run type is one of the keywords of the document and an attribute of the object, which the user may have edited since
                extra["input"]["keywords"]["run_type"] = "energy"
                kw["run_type"] = rng.choice(["energy", "opt", "freq"])
            if variant.startswith("qcoutput"):
                extra["schema_name"] = "qcschema_output"
                extra["output"] = {"properties": {"calcinfo_nbasis": 7, "scf_iterations": 3, "nuclear_repulsion_energy": 1.25},
                                   "return_result": -1.5 if extra["input"]["driver"] == "energy" else [0.1, 0.2, 0.3],
                                   "stdout": "text on stdout", "stderr": "text on stderr", "success": True,
                                   "provenance": {"creator": "x"}}
                if variant == "qcoutput_energy":
                    kw["energy"] = -3.75
        return IOData(atnums=atnums, atcoords=atcoords, charge=0.0, spinpol=0.0, title=title, extra=extra, **kw)
    # wavefunction formats
    conv = conventions_for(fmt)
    if variant in ("fatal_pure", "fatal_pure_in_generalized"):
        from iodata.convert import HORTON2_CONVENTIONS
        conv = {**{k: v for k, v in HORTON2_CONVENTIONS.items() if k[1] == "p" and k[0] <= 4}, **conv}
    scheme = "segmented"
    pure = fmt in ("fchk", "molden", "molekel")
    if variant == "convertible":
        scheme = "generalized"
    if variant == "convertible_ps":
        scheme = "ps"
    if variant == "fatal_pure":
        pure = True
    # "unsorted": shells of one atom are not contiguous (augmentation / ghost functions appended later)
    obasis = make_basis(rng, natom, conv, scheme, lmax=2, pure=pure, nshell=max(natom + 1, 3) + (2 if variant == "unsorted" else 0),
                        sort=variant != "unsorted")
    if variant == "fatal_pure":
        from iodata.basis import Shell
        obasis.shells.append(Shell(0, [2], ["p"], [0.9], [[1.0]]))
    if variant == "fatal_pure_in_generalized":
        # a pure contraction that is not the first one of a generalized shell: segmenting the shell does not make it Cartesian
        from iodata.basis import Shell
        obasis.shells.append(Shell(0, [1, 2], ["c", "p"], [0.9, 0.4], [[1.0, 0.5], [0.3, 0.2]]))
    occ = "closed"
    kind = "restricted"
    if variant == "convertible_amb":
        occ = "aminusb"
    if variant == "fatal_nonaufbau":
        occ = "nonaufbau"
    if variant in ("fatal_nonaufbau_beta", "fatal_fractional", "fatal_fractional_frontier"):
        occ = variant[6:]
    if variant in ("fatal_nonaufbau_ualpha", "fatal_nonaufbau_ubeta", "fatal_fractional_ubeta_window", "fatal_fractional_ufrontier_alpha",
                   "fatal_fractional_ufrontier_beta"):
        occ = variant[6:]
        kind = "unrestricted"
    if variant == "fatal_generalized":
        kind = "generalized"
    elif rng.random() < 0.3 and variant == "plain":
        kind = "unrestricted"
    mo = make_mo(rng, obasis, atcoords, kind, occ)
    kw = dict(atnums=atnums, atcoords=atcoords, title=title, obasis=obasis, mo=mo, energy=-1.5 * natom)
    if fmt == "fchk":
        kw.update(lot="RHF", obasis_name="sto-3g")
    if fmt == "wfx":
        kw.update(lot=rng.choice(["B3LYP", "Restricted HF", "ccsd(t)"]))     # written to the <Model> section
    # what the readers of these formats leave under `extra` (the caller's dictionary, not the writer's scratch space)
    kw["extra"] = {"virial_ratio": 2.00123, "keywords": "GTO", "nested": {"list": [1, 2, {"deep": True}]}}
    if fmt == "wfx":
        # optional sections of a WFX file whose legitimate value is zero
        kw["extra"].update(num_core_electrons=0, nuc_viral=0.0, full_virial_ratio=2.00123 if rng.random() < 0.5 else 0.0, num_perturbations=0)
    if mo.kind == "restricted":
        kw["extra"]["mo_spin"] = np.full(mo.norba, 3)              # the Multiwfn spin section of a WFN file: 1 alpha, 2 beta, 3 both
    elif mo.kind == "unrestricted":
        kw["extra"]["mo_spin"] = np.array([1] * mo.norba + [2] * mo.norbb)
    obj = IOData(**kw)
    return obj


VARIANTS = {
    "fchk": ["plain", "convertible", "convertible_ps", "fatal_generalized", "fatal_nonaufbau", "fatal_nonaufbau_beta", "fatal_fractional",
             "fatal_nonaufbau_ualpha", "fatal_nonaufbau_ubeta", "fatal_fractional_ubeta_window", "fatal_fractional_frontier",
             "fatal_fractional_ufrontier_alpha", "fatal_fractional_ufrontier_beta", "unsorted"],
    "molden": ["plain", "unsorted", "convertible", "convertible_amb", "fatal_generalized"],
    "molekel": ["plain", "unsorted", "convertible", "convertible_amb", "fatal_generalized"],
    "wfn": ["plain", "unsorted", "convertible", "convertible_amb", "fatal_generalized", "fatal_pure", "fatal_pure_in_generalized"],
    "wfx": ["plain", "unsorted", "convertible", "convertible_amb", "fatal_generalized", "fatal_pure", "fatal_pure_in_generalized"],
    "json_qcschema": ["plain", "qcinput", "qcoutput", "qcoutput_energy", "fatal_schema"],
}


def frame_kind(variant):
    if variant in ("plain", "unsorted") or variant.startswith("qc"):
        return "ok"
    return "convertible" if variant.startswith("convertible") else "fatal"
