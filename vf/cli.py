"""./check <id> [--tier quick|thorough] [--replay PATH] [--selftest]"""

from __future__ import annotations

import argparse
import importlib
import json
import os
import sys

from .core import Run, main_guard

LEVELS = {}


def main():
    ap = argparse.ArgumentParser()
    ap.add_argument("pid")
    ap.add_argument("--tier", default=os.environ.get("VERIF_TIER", "quick"), choices=["quick", "thorough"])
    ap.add_argument("--replay", default=None)
    ap.add_argument("--selftest", action="store_true")
    args = ap.parse_args()
    pid = args.pid.upper()
    seed = int(os.environ.get("VERIF_SEED", "0") or 0)
    mod = importlib.import_module(f"vf.props.{pid.lower()}")

    def go():
        if args.replay:
            with open(args.replay) as fh:
                rec = json.load(fh)
            return mod.replay(rec)
        if args.selftest:
            return mod.selftest()
        run = Run(pid, args.tier, seed, mod.LEVEL)
        try:
            mod.check(run)
        except Exception as exc:  # noqa: BLE001
            # An exception that was raised *inside the library under test* and that no driver anticipated (they record the
            # exceptions the properties talk about) is a verdict about the library, not a failure of the machinery: on the
            # unchanged tree every driver runs to completion.  Anything raised by the harness itself stays exit 2.
            import traceback
            from .core import REPO
            text = "".join(traceback.format_exception(type(exc), exc, exc.__traceback__))
            cause = exc.__cause__
            while cause is not None:           # multiprocessing attaches the worker's traceback as a RemoteTraceback cause
                text += str(cause)
                cause = cause.__cause__
            files = [ln.strip() for ln in text.splitlines() if ln.strip().startswith('File "')]
            inner = files[-1] if files else ""
            if f'File "{os.path.join(REPO, "iodata")}' in inner and "/test/" not in inner:
                where = inner.split(",")[0].replace(REPO, "").replace('File "', "").strip('"') + ":" + inner.split("line ")[-1].split(",")[0]
                run.violation(f"unanticipated {type(exc).__name__} raised inside the library at {where}",
                              f"{type(exc).__name__}: {str(exc)[:200]}", {"traceback": text[-3000:]})
                run.notes["aborted_by_library_exception"] = True
                return run.finish()
            raise
        return run.finish()

    main_guard(go)


if __name__ == "__main__":
    main()
