"""./check <id> [--tier quick|thorough] [--replay PATH] [--selftest]"""

from __future__ import annotations

import argparse
import importlib
import json
import os
import sys

from .core import Run, main_guard

LEVELS = {}


def main():
    ap = argparse.ArgumentParser()
    ap.add_argument("pid")
    ap.add_argument("--tier", default=os.environ.get("VERIF_TIER", "quick"), choices=["quick", "thorough"])
    ap.add_argument("--replay", default=None)
    ap.add_argument("--selftest", action="store_true")
    args = ap.parse_args()
    pid = args.pid.upper()
    seed = int(os.environ.get("VERIF_SEED", "0") or 0)
    mod = importlib.import_module(f"vf.props.{pid.lower()}")

    def go():
        if args.replay:
            with open(args.replay) as fh:
                rec = json.load(fh)
            return mod.replay(rec)
        if args.selftest:
            return mod.selftest()
        run = Run(pid, args.tier, seed, mod.LEVEL)
        mod.check(run)
        return run.finish()

    main_guard(go)


if __name__ == "__main__":
    main()
