"""Deep, order-stable digests of IOData objects and everything reachable from them."""

from __future__ import annotations

import copy
import hashlib

import attrs
import numpy as np


def deep(x, exact=True, _depth=0):
    """Canonical nested structure; arrays become (dtype, shape, hash-of-bytes)."""
    if _depth > 12:
        return "<deep>"
    if x is None or isinstance(x, (bool, int, str)):
        return x
    if isinstance(x, float):
        return ("f", x.hex()) if exact else round(x, 10)
    if isinstance(x, (np.bool_, np.integer)):
        return int(x)
    if isinstance(x, np.floating):
        return ("f", float(x).hex())
    if isinstance(x, np.str_):
        return str(x)
    if isinstance(x, np.ndarray):
        if x.dtype == object:
            return ("objarr", x.shape, [deep(v, exact, _depth + 1) for v in x.ravel().tolist()])
        a = np.ascontiguousarray(x)
        return ("arr", a.dtype.str, a.shape, hashlib.sha1(a.tobytes()).hexdigest())
    if isinstance(x, dict):
        return ("dict", sorted(((repr(k), deep(v, exact, _depth + 1)) for k, v in x.items()), key=lambda kv: kv[0]))
    if isinstance(x, (list, tuple)):
        return (type(x).__name__, [deep(v, exact, _depth + 1) for v in x])
    if attrs.has(type(x)):
        return (type(x).__name__, [(f.name, deep(getattr(x, f.name), exact, _depth + 1)) for f in attrs.fields(type(x))])
    return ("repr", repr(x))


def public_state(obj):
    """IOData -> dict of public attribute name -> value, read from a deep copy (reads materialise defaults)."""
    c = copy.deepcopy(obj)
    out = {}
    for f in attrs.fields(type(c)):
        name = f.name.lstrip("_")
        try:
            out[name] = getattr(c, name)
        except Exception as exc:  # e.g. spinpol of generalized orbitals
            out[name] = f"<{type(exc).__name__}>"
    if "atcorenums" in out:  # read first so that charge/nelec are the materialised view
        pass
    return out


def digest(obj) -> str:
    if attrs.has(type(obj)) and type(obj).__name__ == "IOData":
        st = public_state(obj)
        # core charges first (materialised view), then the rest
        d = deep(st)
    else:
        d = deep(obj)
    return hashlib.sha1(repr(d).encode()).hexdigest()


def diff(a, b, path=""):
    """List of paths where two deep() structures differ."""
    if isinstance(a, list) and isinstance(b, list):
        a, b = ("list", a), ("list", b)
    if type(a) is not type(b):
        return [path or "/"]
    if isinstance(a, tuple) and a and a[0] == "dict":
        da, db = dict(a[1]), dict(b[1])
        out = []
        for k in sorted(set(da) | set(db)):
            if k not in da or k not in db:
                out.append(f"{path}/{k}")
            else:
                out += diff(da[k], db[k], f"{path}/{k}")
        return out
    if isinstance(a, tuple) and len(a) == 2 and isinstance(a[1], list) and isinstance(b[1], list):
        if a[0] != b[0] or len(a[1]) != len(b[1]):
            return [path or "/"]
        out = []
        for i, (x, y) in enumerate(zip(a[1], b[1])):
            if isinstance(x, tuple) and len(x) == 2 and isinstance(x[0], str) and isinstance(y, tuple) and len(y) == 2 \
                    and x[0] == y[0] and x[0] not in ("dict", "list", "tuple", "f"):
                out += diff(x[1], y[1], f"{path}/{x[0]}")   # a (name, value) pair
            else:
                out += diff(x, y, f"{path}/{i}")
        return out
    return [] if a == b else [path or "/"]
