"""Harness-side tracing shims: no change to iodata is needed.

``iodata.api.open`` and ``iodata.utils.open`` are set as module attributes (they shadow the builtin
for these two modules only) to a tracing ``open`` that returns a proxy file object.  The proxy logs
``open / write k / close``, can raise at the k-th write, and the tracer keeps a registry of handles
that are still open.  User iterables given to dump_many are wrapped by ``LoggingIterable``.
"""

from __future__ import annotations

import builtins
import io
import os


class IterBoom(Exception):
    """Raised by the harness iterable (an exception that originates in the caller's code)."""


class InjectedWriteFault(OSError):
    pass


class FileProxy(io.TextIOBase):
    def __init__(self, fh, tracer, writing):
        self._fh = fh
        self._tr = tracer
        self._writing = writing
        self._closed = False

    # --- identity / info
    @property
    def name(self):
        return self._fh.name

    @property
    def mode(self):
        return self._fh.mode

    @property
    def closed(self):
        return self._closed

    def readable(self):
        return not self._writing

    def writable(self):
        return self._writing

    # --- writing
    def write(self, s):
        tr = self._tr
        tr.nwrite += 1
        if tr.fault_at is not None and tr.nwrite == tr.fault_at:
            tr.log({"ev": "write_fault", "k": tr.nwrite})
            raise InjectedWriteFault("injected write fault")
        tr.log({"ev": "write", "k": tr.nwrite})
        return self._fh.write(s)

    def flush(self):
        if not self._closed:
            self._fh.flush()

    # --- reading
    def __iter__(self):
        return self

    def __next__(self):
        line = next(self._fh)
        self._tr.nread += 1
        return line

    def readline(self, *a):
        line = self._fh.readline(*a)
        if line:
            self._tr.nread += 1
        return line

    def read(self, *a):
        data = self._fh.read(*a)
        if data:
            self._tr.nread += data.count("\n") + (0 if data.endswith("\n") else 1)
        return data

    def seek(self, *a):
        return self._fh.seek(*a)

    def tell(self):
        return self._fh.tell()

    # --- closing
    def close(self):
        if not self._closed:
            self._closed = True
            self._fh.close()
            self._tr.handles.discard(self)
            self._tr.log({"ev": "close"})

    def __enter__(self):
        return self

    def __exit__(self, *exc):
        self.close()

    def __del__(self):  # a discarded proxy must not log or raise
        try:
            if not self._closed:
                self._fh.close()
        except Exception:
            pass

    def __hash__(self):
        return id(self)

    def __eq__(self, other):
        return self is other


class Tracer:
    def __init__(self, fault_at=None, open_fails=False, only=None):
        self.events = []
        self.handles = set()
        self.nwrite = 0
        self.nread = 0
        self.fault_at = fault_at
        self.open_fails = open_fails
        self.only = only  # restrict tracing to this path (others pass through untraced)
        self._installed = False
        self._real_open = None

    def log(self, ev):
        self.events.append(ev)

    def open(self, path, mode="r", *a, **k):
        real = self._real_open or builtins.open
        if isinstance(path, int) or (self.only is not None and os.path.abspath(os.fspath(path)) != os.path.abspath(self.only)):
            return real(path, mode, *a, **k)
        writing = any(c in mode for c in "wax+")
        existed = os.path.exists(path)
        if writing and self.open_fails:
            self.log({"ev": "open_fail", "mode": "w", "existed": existed})
            raise PermissionError(13, "injected open failure", str(path))
        try:
            fh = real(path, mode, *a, **k)
        except OSError:
            self.log({"ev": "open_fail", "mode": "w" if writing else "r", "existed": existed})
            raise
        self.log({"ev": "open", "mode": "w" if writing else "r", "existed": existed})
        proxy = FileProxy(fh, self, writing)
        self.handles.add(proxy)
        return proxy

    def install(self):
        # the one place every way of opening a file goes through (the `open` of any module, `io.open`, `Path.open`): where in the
        # library a file is opened, and with which spelling, is not the checks' business.  Only the path under observation is traced.
        import io as _io
        self._real_open = builtins.open
        builtins.open = self.open
        _io.open = self.open
        self._installed = True
        return self

    def uninstall(self):
        import io as _io
        if self._real_open is not None:
            builtins.open = self._real_open
            _io.open = self._real_open
            self._real_open = None
        self._installed = False

    def __enter__(self):
        return self.install()

    def __exit__(self, *exc):
        self.uninstall()

    def open_handles(self):
        return len(self.handles)


class LoggingIterable:
    """Iterable handed to dump_many: logs every request for an item; may raise after its items."""

    def __init__(self, tracer, items, raises=False, as_generator=False):
        self._tr = tracer
        self._items = list(items)
        self._raises = raises
        self._gen = as_generator
        self.iter_calls = 0

    def __iter__(self):
        self.iter_calls += 1
        if self._gen:
            return self._generator()
        return _LogIter(self)

    def _generator(self):
        for i, it in enumerate(self._items):
            self._tr.log({"ev": "pull", "i": i + 1})
            yield it
        self._tr.log({"ev": "pull", "i": len(self._items) + 1})
        if self._raises:
            raise IterBoom("iterable failed")


class _LogIter:
    def __init__(self, parent):
        self._p = parent
        self._i = 0

    def __iter__(self):
        return self

    def __next__(self):
        p = self._p
        self._i += 1
        p._tr.log({"ev": "pull", "i": self._i})
        if self._i <= len(p._items):
            return p._items[self._i - 1]
        if p._raises:
            raise IterBoom("iterable failed")
        raise StopIteration


class BudgetExceeded(BaseException):
    """The call under observation used more CPU time than any legitimate execution needs (it does not terminate)."""


class cpu_budget:
    """Context manager: raise BudgetExceeded when the process has used `seconds` of CPU time inside the block (ITIMER_PROF, so a
    busy machine does not matter), with a generous wall-clock backstop for calls that block without using the CPU."""

    def __init__(self, seconds=120, wall=1800):
        self.seconds, self.wall = seconds, wall

    def _fire(self, signum, frame):
        raise BudgetExceeded()

    def __enter__(self):
        import signal
        import threading
        self._on = threading.current_thread() is threading.main_thread()
        if self._on:
            self._old = (signal.signal(signal.SIGPROF, self._fire), signal.signal(signal.SIGALRM, self._fire))
            signal.setitimer(signal.ITIMER_PROF, self.seconds)
            signal.alarm(self.wall)
        return self

    def __exit__(self, *exc):
        import signal
        if self._on:
            signal.setitimer(signal.ITIMER_PROF, 0)
            signal.alarm(0)
            signal.signal(signal.SIGPROF, self._old[0])
            signal.signal(signal.SIGALRM, self._old[1])
        return False
