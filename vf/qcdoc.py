"""QCSchema molecule documents: generator, executor and projection for spec/QCSchema.tla.

A document is a set of keys (the values are fixed, tagged per key); the executor loads it with the real code, finds out
where each value went, writes the object again and reloads it.  No iodata code takes part in building the document.
"""

from __future__ import annotations

import itertools
import json
import os
import shutil
import tempfile
import warnings

import numpy as np

AMU = 1822.888486209
SYMS = ["O", "H", "H", "C", "N", "F", "Cl", "Li"]
Z = {"O": 8, "H": 1, "C": 6, "N": 7, "F": 9, "Cl": 17, "Li": 3}
TOPOLOGY = ["symbols", "geometry"]
SHOULD = ["schema_name", "schema_version", "provenance", "molecular_charge", "molecular_multiplicity"]
OPTIONAL = ["atom_labels", "atomic_numbers", "comment", "connectivity", "extras", "fix_symmetry", "fragments", "fragment_charges",
            "fragment_multiplicities", "id", "identifiers", "real", "mass_numbers", "masses", "name", "fix_com", "fix_orientation",
            "validated"]
UNKNOWN = ["x_custom_scalar", "x_custom_list"]


def values(natom):
    sym = [SYMS[i % len(SYMS)] for i in range(natom)]
    frag = [[0], list(range(1, natom))] if natom > 1 else [[0]]
    return {
        "schema_name": "qcschema_molecule", "schema_version": 2, "symbols": sym,
        "geometry": [round((-1) ** i * (0.3 + 0.117 * i), 6) for i in range(3 * natom)],
        "molecular_charge": -1.0, "molecular_multiplicity": 3, "provenance": {"creator": "independent generator", "version": "1", "routine": "qcdoc"},
        "atom_labels": [f"lab{i}" for i in range(natom)], "atomic_numbers": [Z[s] for s in sym], "comment": "a comment for humans",
        "connectivity": [[i, i + 1, 1 + i % 3] for i in range(natom - 1)] or [[0, 0, 1]], "extras": {"k": {"n": [1, 2, 3]}, "s": "t"},
        "fix_symmetry": "c2v", "fragments": frag, "fragment_charges": [0.0, -1.0][: len(frag)], "fragment_multiplicities": [1, 3][: len(frag)],
        "id": "mol-0042", "identifiers": {"smiles": "O", "inchikey": "XLYOFNOQVPJJNP"}, "real": [i % 3 != 1 for i in range(natom)],
        "mass_numbers": [1 + (5 * i) % 40 for i in range(natom)], "masses": [round(1.00784 + 2.1317 * i, 5) for i in range(natom)],
        "name": "tagged molecule", "fix_com": True, "fix_orientation": False, "validated": True,
        "x_custom_scalar": 41.5, "x_custom_list": [1, "two", {"three": 3}],
    }


def _walk(d, path):
    cur = d
    for part in path.split("."):
        if not isinstance(cur, dict) or part not in cur:
            return None
        cur = cur[part]
    return cur


def _eq(a, b):
    try:
        if isinstance(b, (list, tuple)) and b and isinstance(b[0], (list, tuple, np.ndarray)) and not isinstance(a, np.ndarray):
            return len(a) == len(b) and all(_eq(x, y) for x, y in zip(a, b))
        if isinstance(a, np.ndarray) or isinstance(b, np.ndarray):
            a, b = np.asarray(a), np.asarray(b)
            if a.dtype.kind in "fc" or b.dtype.kind in "fc":
                return a.shape == b.shape and bool(np.allclose(a, b, rtol=1e-8, atol=0))   # iodata.utils.amu differs from CODATA 2018 in the 10th digit (C04 checks the constants)
            return a.shape == b.shape and bool(np.all(a == b))
        return bool(a == b)
    except Exception:  # noqa: BLE001
        return False


def placement(obj, doc, vals):
    """key -> the place (in the vocabulary of QCSchema.tla) where its value is found, or 'missing'."""
    sym = vals["symbols"]
    natom = len(sym)
    mol = (obj.extra or {}).get("molecule", {})
    out = {}
    cands = {
        "symbols": [("attr:atnums", obj.atnums, [Z[s] for s in sym])],
        "geometry": [("attr:atcoords", obj.atcoords, np.array(vals["geometry"]).reshape(-1, 3))],
        "molecular_charge": [("attr:charge", obj.charge, vals["molecular_charge"])],
        "molecular_multiplicity": [("attr:spinpol", obj.spinpol, vals["molecular_multiplicity"] - 1)],
        "real": [("attr:atcorenums", obj.atcorenums, [float(Z[s]) if r else 0.0 for s, r in zip(sym, vals["real"])])],
        "masses": [("attr:atmasses", obj.atmasses, np.array(vals["masses"]) * AMU), ("extra:masses", mol.get("masses"), vals["masses"])],
        "mass_numbers": [("attr:atmasses", obj.atmasses, np.array(vals["mass_numbers"], dtype=float) * AMU),
                         ("extra:mass_numbers", mol.get("mass_numbers"), vals["mass_numbers"])],
        "connectivity": [("attr:bonds", obj.bonds, vals["connectivity"])],
        "fix_symmetry": [("attr:g_rot", obj.g_rot, vals["fix_symmetry"])],
        "name": [("attr:title", obj.title, vals["name"])],
        "fragments": [("extra:fragments.indices", _walk(mol, "fragments.indices"), vals["fragments"])],
        "fragment_charges": [("extra:fragments.charges", _walk(mol, "fragments.charges"), vals["fragment_charges"])],
        "fragment_multiplicities": [("extra:fragments.multiplicities", _walk(mol, "fragments.multiplicities"), vals["fragment_multiplicities"])],
        "validated": [("extra:qcel_validated", mol.get("qcel_validated"), vals["validated"])],
    }
    for k in doc:
        if k in ("schema_name", "schema_version", "provenance"):
            out[k] = "extra:" + k if mol.get(k) is not None else "missing"
            continue
        if k in UNKNOWN:
            got = _walk(mol, "unparsed." + k)
            out[k] = "extra:unparsed." + k if _eq(got, vals[k]) else ("missing" if got is None else "wrong")
            continue
        cs = cands.get(k, [("extra:" + k, mol.get(k), vals[k])])
        res = "missing"
        for place, got, want in cs:
            if got is None:
                continue
            if _eq(got, want):
                res = place
                break
            res = "wrong"
        out[k] = res
    return out


IN_REQ = ["molecule", "driver", "model"]
IN_OPT = ["schema_name", "schema_version", "keywords", "extras", "id", "protocols", "provenance"]
OUT_REQ = ["provenance", "properties", "success", "return_result"]
OUT_OPT = ["error", "stderr", "stdout", "wavefunction"]
IO_UNKNOWN = ["x_custom_in"]


def io_values(kind, natom):
    mol = values(natom)
    moldoc = {k: mol[k] for k in TOPOLOGY + SHOULD + ["name", "real"]}
    v = {"schema_name": "qcschema_" + kind, "schema_version": 1, "molecule": moldoc, "driver": ["energy", "gradient", "hessian", "properties"][natom % 4],
         "model": {"method": "B3LYP", "basis": "def2-tzvp"}, "keywords": {"scf_type": "df", "nested": {"levels": [1, 2, {"deep": True}]}},
         "extras": {"note": "x", "list": [1.5, "a", None]}, "id": "job-17", "protocols": {"wavefunction": "orbitals_and_eigenvalues", "stdout": False},
         "provenance": {"creator": "independent generator", "version": "1", "routine": "qcdoc"}, "x_custom_in": {"anything": [1, 2]},
         "properties": {"calcinfo_nbasis": 7 + natom, "scf_iterations": 3, "nuclear_repulsion_energy": 1.25}, "success": bool(natom % 2),
         "return_result": [0.1 * natom, -0.2, 0.3], "error": {"error_type": "convergence_error", "error_message": "no"},
         "stderr": "text on stderr", "stdout": "text on stdout", "wavefunction": {"basis": "x", "restricted": True}}
    return v


def placement_io(obj, kind, keys, vals):
    ex = obj.extra or {}
    out = {}
    for k in keys:
        want = vals[k]
        if k == "molecule":
            ok = _eq(obj.atnums, [Z[s] for s in want["symbols"]]) and _eq(obj.atcoords, np.array(want["geometry"]).reshape(-1, 3)) \
                and obj.title == want["name"] and _eq(obj.charge, want["molecular_charge"])
            out[k] = "attr:atnums" if ok else "wrong"
        elif k == "model":
            out[k] = "attr:lot" if (obj.lot == want["method"] and obj.obasis_name == want["basis"]) else "wrong"
        elif k == "protocols":
            got = _walk(ex, "input.protocols")
            exp = {"keep_" + a: b for a, b in want.items()}
            out[k] = "extra:input.protocols" if got == exp else ("missing" if got is None else "wrong")
        elif k in ("schema_name", "schema_version", "provenance"):
            out[k] = "extra:input." + k if _walk(ex, "input." + k) is not None else "missing"
        elif k in ("driver", "keywords", "extras", "id"):
            got = _walk(ex, "input." + k)
            out[k] = "extra:input." + k if _eq(got, want) else ("missing" if got is None else "wrong")
        elif k in IO_UNKNOWN:
            got = _walk(ex, "input.unparsed." + k)
            out[k] = "extra:input.unparsed." + k if _eq(got, want) else ("missing" if got is None else "wrong")
        else:
            got = _walk(ex, "output." + k)
            out[k] = "extra:output." + k if _eq(got, want) else ("missing" if got is None else "wrong")
    return out


def execute(task):
    keys, natom = task[:2]
    kind = task[2] if len(task) > 2 else "molecule"
    if kind != "molecule":
        return execute_io(kind, keys, natom)
    ev = _execute_molecule(keys, natom)
    ev["kind"] = "molecule"
    return ev


def execute_io(kind, keys, natom):
    from iodata import api
    from iodata.utils import DumpError, LoadError
    from .digest import deep, diff, public_state
    vals = io_values(kind, natom)
    doc = {k: vals[k] for k in keys}
    ev = {"op": "QCDoc", "kind": kind, "keys": sorted(keys), "natom": natom, "out": "loaded", "warned": False, "placed": {k: "n/a" for k in keys},
          "redump": "n/a", "reload_same": True, "drift": [], "msg": ""}
    tmp = tempfile.mkdtemp(prefix="qcdoc_")
    try:
        p1 = os.path.join(tmp, "d1.json")
        with open(p1, "w") as fh:
            json.dump(doc, fh)
        with warnings.catch_warnings():
            warnings.simplefilter("ignore")
            try:
                obj = api.load_one(p1, fmt="json_qcschema")
            except LoadError as exc:
                ev["out"] = "LoadError"
                ev["msg"] = str(exc)[:120].replace(tmp, "")
                return ev
            except Exception as exc:  # noqa: BLE001
                ev["out"] = "other:" + type(exc).__name__
                ev["msg"] = str(exc)[:120]
                return ev
            if (obj.extra or {}).get("schema_name") != "qcschema_" + kind:
                ev["out"] = "loaded-as:" + str((obj.extra or {}).get("schema_name"))
                return ev
            ev["placed"] = placement_io(obj, kind, keys, vals)
            if kind == "output" and natom % 2:
                # the loaded object is edited before it is written again (a corrected energy): the edit is what the file must say
                obj.energy = -3.75 - natom
            p2 = os.path.join(tmp, "d2.json")
            try:
                api.dump_one(obj, p2, fmt="json_qcschema")
                ev["redump"] = "ok"
            except DumpError as exc:
                ev["redump"] = "DumpError:" + repr(exc.__cause__ or exc)[:60]
                return ev
            except Exception as exc:  # noqa: BLE001
                ev["redump"] = "other:" + type(exc).__name__
                return ev
            try:
                obj2 = api.load_one(p2, fmt="json_qcschema")
            except Exception as exc:  # noqa: BLE001
                ev["reload_same"] = False
                ev["drift"] = ["reload:" + type(exc).__name__ + ":" + str(exc.__cause__ or exc)[:60].replace(tmp, "")]
                return ev
        d = diff(deep(public_state(obj)), deep(public_state(obj2)))
        # the writer records the energy of the object as properties.return_energy (and as return_result of an energy job)
        allowed = ("provenance", "schema_version", "schema_name", "return_energy") + (("return_result",) if vals["driver"] == "energy" else ())
        drift = sorted({x for x in d if not any(a in x for a in allowed)})
        ev["drift"] = [x[:80] for x in drift][:6]
        ev["reload_same"] = not drift
        return ev
    except Exception as exc:  # noqa: BLE001
        ev["out"] = "harness:" + type(exc).__name__
        ev["msg"] = str(exc)[:160]
        return ev
    finally:
        shutil.rmtree(tmp, ignore_errors=True)


def _execute_molecule(keys, natom):
    from iodata import api
    from iodata.utils import DumpError, LoadError, LoadWarning
    from .digest import deep, diff, public_state
    vals = values(natom)
    doc = {k: vals[k] for k in keys}
    ev = {"op": "QCDoc", "keys": sorted(keys), "natom": natom, "out": "loaded", "warned": False, "placed": {k: "n/a" for k in keys},
          "redump": "n/a", "reload_same": True, "drift": [], "msg": ""}
    tmp = tempfile.mkdtemp(prefix="qcdoc_")
    try:
        p1 = os.path.join(tmp, "d1.json")
        with open(p1, "w") as fh:
            json.dump(doc, fh)
        with warnings.catch_warnings(record=True) as wl:
            warnings.simplefilter("always")
            try:
                obj = api.load_one(p1, fmt="json_qcschema")
            except LoadError as exc:
                ev["out"] = "LoadError"
                ev["msg"] = str(exc)[:120].replace(tmp, "")
                return ev
            except Exception as exc:  # noqa: BLE001
                ev["out"] = "other:" + type(exc).__name__
                ev["msg"] = str(exc)[:120]
                return ev
        ev["warned"] = any(issubclass(w.category, LoadWarning) for w in wl)
        ev["placed"] = placement(obj, keys, vals)
        p2 = os.path.join(tmp, "d2.json")
        with warnings.catch_warnings():
            warnings.simplefilter("ignore")
            try:
                api.dump_one(obj, p2, fmt="json_qcschema")
                ev["redump"] = "ok"
            except DumpError as exc:
                ev["redump"] = "DumpError:" + repr(exc.__cause__ or exc)[:60]
                return ev
            except Exception as exc:  # noqa: BLE001
                ev["redump"] = "other:" + type(exc).__name__
                return ev
            try:
                obj2 = api.load_one(p2, fmt="json_qcschema")
            except Exception as exc:  # noqa: BLE001
                ev["reload_same"] = False
                ev["drift"] = ["reload:" + type(exc).__name__]
                return ev
        d = diff(deep(public_state(obj)), deep(public_state(obj2)))
        # the provenance trail grows by design; places the writer always fills in may appear
        allowed = ("provenance", "schema_version", "schema_name")
        drift = sorted({x for x in d if not any(a in x for a in allowed)})
        ev["drift"] = [x[:80] for x in drift][:6]
        ev["reload_same"] = not drift
        return ev
    except Exception as exc:  # noqa: BLE001
        ev["out"] = "harness:" + type(exc).__name__
        ev["msg"] = str(exc)[:160]
        return ev
    finally:
        shutil.rmtree(tmp, ignore_errors=True)


def plan(rng, thorough):
    base = TOPOLOGY + SHOULD
    docs = [list(base), base + OPTIONAL, base + OPTIONAL + UNKNOWN]
    consistent = lambda ks: not ({"fragment_charges", "fragment_multiplicities"} & set(ks)) or "fragments" in ks   # noqa: E731
    for k in OPTIONAL + UNKNOWN:
        docs.append(base + [k])
        docs.append(base + [x for x in OPTIONAL if x != k])
    for a, b in itertools.combinations(OPTIONAL + UNKNOWN, 2):
        docs.append(base + [a, b])
    for k in SHOULD + TOPOLOGY:                                   # omissions: warnings / errors
        docs.append([x for x in base if x != k])
        docs.append([x for x in base + OPTIONAL if x != k])
    for _ in range(300 if not thorough else 6000):
        docs.append([k for k in TOPOLOGY + SHOULD if rng.random() < 0.9] + [k for k in OPTIONAL + UNKNOWN if rng.random() < 0.45])
    tasks = []
    for i, d in enumerate(docs):
        if consistent(d):
            tasks.append((sorted(set(d)), [1, 2, 3, 5, 9][i % 5], "molecule"))
    # input and output documents: schema name given (the kind of an unnamed document is guessed from its keys, not tested here)
    for kind in ("input", "output"):
        req = IN_REQ + ["schema_name"] + (OUT_REQ if kind == "output" else [])
        opt = [k for k in IN_OPT if k not in req] + IO_UNKNOWN + (OUT_OPT if kind == "output" else [])
        sets = [list(req), req + opt] + [req + [k] for k in opt] + [req + [x for x in opt if x != k] for k in opt]
        sets += [[x for x in req + opt if x != k] for k in req if k != "schema_name"]
        for _ in range(60 if not thorough else 1500):
            sets.append([k for k in req if k == "schema_name" or rng.random() < 0.93] + [k for k in opt if rng.random() < 0.5])
        for i, d in enumerate(sets):
            tasks.append((sorted(set(d)), [1, 2, 3, 4][i % 4], kind))
    return tasks
