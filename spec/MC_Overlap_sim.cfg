SPECIFICATION Spec
CONSTANT MaxSteps = 5
INVARIANT NoDuplicateFunctions
CHECK_DEADLOCK FALSE
