SPECIFICATION Spec
CONSTANT MaxL = 3
CONSTANT MaxFun = 2
CONSTANT MaxRec = 4
INVARIANT InRange
INVARIANT InOwnBlock
INVARIANT Complete
INVARIANT SameComponent
CHECK_DEADLOCK FALSE
