---- MODULE MC_ShapeRules ----
EXTENDS ShapeRules
VARIABLE x
Init == x = 0
Next == UNCHANGED x
====
