SPECIFICATION Spec
CONSTANTS
  NDim = 3
  MaxEntry = 12
  MaxSteps = 5
INVARIANT SpectrumInvariant
INVARIANT StaysSymmetric
CHECK_DEADLOCK FALSE
