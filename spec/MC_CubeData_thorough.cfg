SPECIFICATION Spec
CONSTANT MaxN = 9
INVARIANT InOrder
INVARIANT NoStarve
INVARIANT Complete
CHECK_DEADLOCK FALSE
