SPECIFICATION Spec
CONSTANT MaxN = 8
INVARIANT InOrder
INVARIANT NoStarve
INVARIANT Complete
CHECK_DEADLOCK FALSE
