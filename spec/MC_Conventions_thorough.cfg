INIT Init
NEXT Next
CONSTANT NMax = 4
INVARIANT PairLaws
PROPERTY Composition
CHECK_DEADLOCK FALSE
