---- MODULE Trace_DumpFrame ----
EXTENDS DumpFrame, Json, IOUtils, TLCExt
Traces == JsonDeserialize(IOEnv.TRACE_FILE)
N == Len(Traces)
VARIABLES tid, l
tvars == <<vars, tid, l>>
ASSUME \A t \in 1..N : TLCSet(t, 0)
TInit == tid \in 1..N /\ l = 2 /\ sc = Traces[tid][1].sc /\ n = 0 /\ changed = {} /\ last = NoCall
Step ==
  /\ l <= Len(Traces[tid])
  /\ LET e == Traces[tid][l] IN
       /\ Dump
       /\ (/\ last'.out = e.out /\ last'.ret = e.ret /\ last'.warned = e.warned
           /\ (e.ret = "new" => e.denoteSame)
           /\ e.changed = <<>>) = TRUE            \* HeapFrozen: no path of the caller's heap differs
  /\ l' = l + 1 /\ UNCHANGED tid
  /\ TLCSet(tid, IF TLCGet(tid) < l THEN l ELSE TLCGet(tid))
TSpec == TInit /\ [][Step]_tvars
Report == \A t \in 1..N : PrintT(<<"RESULT", t, TLCGet(t), Len(Traces[t])>>)
====
