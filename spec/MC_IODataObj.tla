---- MODULE MC_IODataObj ----
EXTENDS IODataObj
\* thorough instance (two values per alphabet + None)
cAtn == { <<1>>, <<1,8>> }
cCore == { <<4>>, <<2>>, <<0,32>> }
cQ == { -4, 2 }
cNe == { 0, 6 }
cSp == { 4 }
cMo == { [n |-> <<>>, s |-> <<>>], [n |-> <<12>>, s |-> <<4>>] }
cLen == {1, 2}
\* quick instance (one value per alphabet + None, one foreign length)
qAtn == { <<1>>, <<1,8>> }
qCore == { <<2>>, <<0,32>> }
qQ == { 2 }
qNe == { 6 }
qSp == { 4 }
qMo == { [n |-> <<12>>, s |-> <<4>>] }
qLen == {1, 2}
Small(o) == IsNone(o) \/ (Val(o) >= -40 /\ Val(o) <= 40)
Bound == Small(st.q) /\ Small(st.ne)

\* construction: every successful outcome of the constructor model satisfies the state invariants
\* and a failed construction is a TypeError
CArgs == [atn : Opt(cAtn), core : Opt(cCore), q : Opt(cQ), ne : Opt(cNe), sp : Opt(cSp), mo : Opt(cMo),
          len : [Arr -> Opt({1, 2})]]
ConstructSound == \A a \in CArgs : \A o \in DoConstruct(a) :
                     /\ o.r \in {"ok", "TypeError"}
                     /\ (o.r = "ok" => StateInv(o.s))
                     /\ (o.r = "ok" /\ ~IsNone(a.mo) => IsNone(a.ne) /\ IsNone(a.sp))
ASSUME ConstructSound
ASSUME PrintT(<<"construct args checked", Cardinality(CArgs)>>)
====
