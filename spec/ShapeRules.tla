------------------------------ MODULE ShapeRules ------------------------------
(* iodata.attrutils.validate_shape: the rule language behind every array attribute of IOData, MolecularOrbitals and   *)
(* Shell (C11, C12).  A requirement per axis is an integer, None (any size), the name of an integer attribute, or a     *)
(* pair (array attribute, axis).  Encoding: <<"int", n>> | <<"any">> | <<"attr", name>> | <<"axis", name, k>>;         *)
(* the object is a function from attribute names to <<>> (not set), <<"int", n>> or <<"arr", shape>>.                    *)
EXTENDS Integers, Sequences, FiniteSets, TLC
None == <<>>
\* the size a requirement prescribes: <<"size", n>>, <<"any">> or <<"TypeError">> (the rule cannot be evaluated)
Expected(req, obj) ==
  CASE req[1] = "int" -> <<"size", req[2]>>
    [] req[1] = "any" -> <<"any">>
    [] req[1] = "attr" -> IF obj[req[2]] = None THEN <<"any">> ELSE <<"size", obj[req[2]][2]>>     \* an unset integer attribute checks nothing
    [] req[1] = "axis" ->
         LET other == obj[req[2]] IN
         IF other = None THEN <<"TypeError">>
         ELSE IF req[3] = 0 THEN <<"size", other[2][1]>>                                            \* the length of the other attribute
         ELSE IF req[3] < 0 \/ req[3] >= Len(other[2]) THEN <<"TypeError">>
         ELSE <<"size", other[2][req[3] + 1]>>
\* the verdict of the validator for an observed shape
Verdict(reqs, shape, obj) ==
  LET exp == [i \in 1..Len(reqs) |-> Expected(reqs[i], obj)] IN
  IF \E i \in 1..Len(reqs) : exp[i] = <<"TypeError">> THEN "TypeError"
  ELSE IF Len(reqs) # Len(shape) THEN "TypeError"
  ELSE IF \A i \in 1..Len(reqs) : exp[i] = <<"any">> \/ exp[i][2] = shape[i] THEN "ok" ELSE "TypeError"

(* ---- bounded universe for TLC ---- *)
Sizes == 0..2
Shapes == UNION {[1..n -> Sizes] : n \in 1..3}
OtherVals == {None, <<"arr", <<1>> >>, <<"arr", <<2>> >>, <<"arr", <<1, 2>> >>, <<"arr", <<2, 0>> >>, <<"arr", <<2, 1, 2>> >>}
IntVals == {None, <<"int", 0>>, <<"int", 1>>, <<"int", 2>>}
Objs == [n : IntVals, a : OtherVals]
Reqs1 == {<<"int", 0>>, <<"int", 1>>, <<"int", 2>>, <<"any">>, <<"attr", "n">>, <<"axis", "a", 0>>, <<"axis", "a", 1>>, <<"axis", "a", 2>>}
ReqSeqs == UNION {[1..n -> Reqs1] : n \in 1..2}
\* laws
AnyIsWildcard == \A s \in Shapes, o \in Objs : Len(s) = 1 => Verdict(<< <<"any">> >>, s, o) = "ok"
RankMustMatch == \A r \in ReqSeqs, s \in Shapes, o \in Objs : Len(r) # Len(s) => Verdict(r, s, o) = "TypeError"
UnsetOtherRefuses == \A s \in Shapes, o \in Objs, k \in 0..2 : o.a = None => Verdict(<< <<"axis", "a", k>> >>, s, o) = "TypeError"
ExactSizes == \A s \in Shapes, n \in Sizes : Len(s) = 1 => (Verdict(<< <<"int", n>> >>, s, [n |-> None, a |-> None]) = "ok") = (s[1] = n)
\* a requirement on a later axis is not shadowed by an earlier one
EveryAxisCounts == \A o \in Objs, a, b, c, d \in Sizes :
   (Verdict(<< <<"int", a>>, <<"int", b>> >>, <<c, d>>, o) = "ok") = (a = c /\ b = d)
ASSUME AnyIsWildcard /\ RankMustMatch /\ UnsetOtherRefuses /\ ExactSizes /\ EveryAxisCounts
=============================================================================
