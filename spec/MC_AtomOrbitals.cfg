SPECIFICATION Spec
CONSTANT MaxL = 2
CONSTANT MaxFun = 2
CONSTANT MaxRec = 3
INVARIANT InRange
INVARIANT InOwnBlock
INVARIANT Complete
INVARIANT SameComponent
CHECK_DEADLOCK FALSE
