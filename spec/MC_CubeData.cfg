SPECIFICATION Spec
CONSTANT MaxN = 6
INVARIANT InOrder
INVARIANT NoStarve
INVARIANT Complete
CHECK_DEADLOCK FALSE
