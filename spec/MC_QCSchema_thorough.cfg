SPECIFICATION Spec
CONSTANT Free = {"fragments", "fragment_charges", "fragment_multiplicities", "masses", "mass_numbers", "real", "name", "validated", "id", "x_custom_scalar", "x_custom_list", "molecular_charge", "molecular_multiplicity", "provenance", "schema_version", "connectivity", "fix_symmetry", "atomic_numbers", "comment"}
CONSTANT Fixed = {"schema_name", "atom_labels", "extras", "identifiers", "fix_com", "fix_orientation"}
INVARIANT NothingDropped
INVARIANT ReloadKeepsPlaces
INVARIANT ReloadAddsOnlyDefaults
CHECK_DEADLOCK FALSE
