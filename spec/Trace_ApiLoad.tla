---- MODULE Trace_ApiLoad ----
(* Trace validation of recorded load_one / load_many executions.                           *)
(* Logged: open, yield (with `same`: the frame equals a single-frame load of that frame), *)
(* close, end.  Silent: Select, Resume, Discard and a Parse step that does not yield.      *)
EXTENDS ApiLoad, Json, IOUtils, TLCExt
Traces == JsonDeserialize(IOEnv.TRACE_FILE)
N == Len(Traces)
VARIABLES tid, l
tvars == <<vars, tid, l>>
ASSUME \A t \in 1..N : TLCSet(t, 0)
TInit == tid \in 1..N /\ l = 2 /\ sc = Traces[tid][1].sc /\ Init0
Ev == Traces[tid][l]
Silent == (Select \/ Resume \/ Discard \/ DiscardUnstarted) /\ UNCHANGED <<tid, l>>
ParseQuiet == Parse /\ yielded' = yielded /\ UNCHANGED <<tid, l>>
Logged ==
  /\ l <= Len(Traces[tid])
  /\ \/ Ev.ev = "open" /\ OpenR
     \/ Ev.ev = "yield" /\ Parse /\ yielded' = yielded + 1 /\ Ev.i = yielded + 1
          /\ (sc.frames[yielded + 1] = "ok" => Ev.same)
          /\ Ev.valid                                   \* arrays of the object have mutually consistent shapes
     \/ Ev.ev = "close" /\ CloseR
     \/ Ev.ev = "end" /\ pc = "done" /\ out = Ev.out /\ yielded = Ev.yielded /\ fd = Ev.fd
          /\ (Ev.out # "LoadError" => warned = Ev.warned)
          \* the message names the file; a line number, when given, is that of a line that was read
          /\ (Ev.out \in {"LoadError", "FileFormatError"} => Ev.namesfile)
          /\ (Ev.lineno # <<>> => (Ev.lineno[1] >= 0 /\ Ev.lineno[1] <= Ev.nread))
          \* ... and it is the last one: LineIter!LinenoLaw at the point of the error (lines delivered by the file minus lines pushed back)
          /\ (("stack" \in DOMAIN Ev /\ Ev.lineno # <<>>) => (Ev.stack # <<>> => Ev.lineno[1] = Ev.nread - Ev.stack[1]))
          /\ UNCHANGED vars
  /\ l' = l + 1 /\ UNCHANGED tid
  /\ TLCSet(tid, IF TLCGet(tid) < l THEN l ELSE TLCGet(tid))
TSpec == TInit /\ [][Silent \/ ParseQuiet \/ Logged]_tvars
Report == \A t \in 1..N : PrintT(<<"RESULT", t, TLCGet(t), Len(Traces[t])>>)
====
