SPECIFICATION Spec
CONSTANT MaxShells = 2
INVARIANT ConversionPreservesDenotation
CHECK_DEADLOCK FALSE
