SPECIFICATION Spec
CONSTANTS
  NDim = 2
  MaxEntry = 9
  MaxSteps = 5
INVARIANT SpectrumInvariant
INVARIANT StaysSymmetric
CHECK_DEADLOCK FALSE
