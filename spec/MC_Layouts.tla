---- MODULE MC_Layouts ----
EXTENDS Layouts, Json, IOUtils
ASSUME \A k \in DOMAIN Layout : WellFormed(Layout[k]) /\ LitFits(Layout[k])
ASSUME UnitTableTotal
ASSUME \A k \in DOMAIN Layout : FillFits(Layout[k])
ASSUME \A f \in LoadFormats : \A i, j \in 1..Len(Loads[f]) : i # j => Loads[f][i].key # Loads[f][j].key
ASSUME IF "OUT_FILE" \in DOMAIN IOEnv
       THEN JsonSerialize(IOEnv.OUT_FILE, [layout |-> [k \in DOMAIN Layout |-> Layout[k]], loads |-> [f \in LoadFormats |-> Loads[f]],
                              fills |-> [k \in DOMAIN Layout |-> Fills(Layout[k])]])
       ELSE TRUE
\* a fixed-width record as a (tiny) state machine: the cursor walks the fields; every column is covered exactly once
VARIABLES rec, pos, col
vars == <<rec, pos, col>>
Init == rec \in DOMAIN Layout /\ pos = 1 /\ col = 1
Next == pos <= Len(Layout[rec]) /\ Layout[rec][pos].from = col /\ col' = Layout[rec][pos].to + 1 /\ pos' = pos + 1 /\ UNCHANGED rec
Spec == Init /\ [][Next]_vars
NoGapNoOverlap == pos <= Len(Layout[rec]) => Layout[rec][pos].from = col
====
