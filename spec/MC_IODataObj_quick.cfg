SPECIFICATION Spec
CONSTANTS
  AtnVals <- qAtn
  CoreVals <- qCore
  QVals <- qQ
  NeVals <- qNe
  SpVals <- qSp
  MoVals <- qMo
  LenVals <- qLen
INVARIANT ChargeLaw
INVARIANT NatomAgree
INVARIANT MoWins
INVARIANT CoreDefault
PROPERTY ReadBack
PROPERTY CoreStable
PROPERTY MoRefuses
PROPERTY FailedAssignIsNoop
PROPERTY ReadIsNoop
PROPERTY ReadIdempotent
CHECK_DEADLOCK FALSE
CONSTRAINT Bound
