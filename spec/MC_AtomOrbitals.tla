-------------------------- MODULE MC_AtomOrbitals --------------------------
(* The filling loop of an atomic-orbital reader as a cursor machine over the   *)
(* placement rule of AtomOrbitals: TLC checks, for every basis with up to      *)
(* MaxL+1 angular momenta x MaxFun radial functions and every sequence of up   *)
(* to MaxRec (l, state) records, that the rule is a placement.                 *)
EXTENDS AtomOrbitals, Json, IOUtils, SequencesExt
CONSTANTS MaxL, MaxFun, MaxRec
VARIABLES nfun, recs, r, ic, im, filled, done
vars == <<nfun, recs, r, ic, im, filled, done>>
Bases == UNION {[1..n -> 1..MaxFun] : n \in 1..(MaxL + 1)}
RecSeqs(nf) == UNION {[1..n -> 0..(Len(nf) - 1)] : n \in 1..MaxRec}
\* spec -> code: every shape of the bounded universe in which the records are listed per l, as the program prints them; the harness
\* renders one output file per shape and loads it with the real reader
Sorted(rs) == \A i \in 1..(Len(rs) - 1) : rs[i] <= rs[i + 1]
Shapes == {[nfun |-> b, recs |-> rs] : b \in Bases, rs \in {x \in UNION {[1..n -> 0..MaxL] : n \in 1..MaxRec} : TRUE}}
ASSUME IF "SHAPES_FILE" \in DOMAIN IOEnv
       THEN JsonSerialize(IOEnv.SHAPES_FILE, [shapes |-> SetToSeq({sh \in Shapes : Sorted(sh.recs) /\ \A i \in 1..Len(sh.recs) : sh.recs[i] < Len(sh.nfun)})])
       ELSE TRUE
Init == /\ nfun \in Bases
        /\ recs \in RecSeqs(nfun)
        /\ r = 1 /\ ic = 0 /\ im = 0 /\ filled = {} /\ done = FALSE
Cell == <<Row(nfun, recs[r], ic, im), Col(recs, r, im)>>
\* one assignment  orb_coeffs[offsets[l] + stride*ic + im, iorb] = c ; the loops run ic fastest, then im, then the record
Fill == /\ ~done
        /\ Assert(Cell \notin filled, "a cell is written twice")
        /\ filled' = filled \cup {Cell}
        /\ IF ic + 1 < nfun[recs[r] + 1] THEN ic' = ic + 1 /\ UNCHANGED <<im, r, done>>
           ELSE IF im + 1 < Deg(recs[r]) THEN ic' = 0 /\ im' = im + 1 /\ UNCHANGED <<r, done>>
           ELSE IF r < Len(recs) THEN ic' = 0 /\ im' = 0 /\ r' = r + 1 /\ UNCHANGED done
           ELSE done' = TRUE /\ UNCHANGED <<ic, im, r>>
        /\ UNCHANGED <<nfun, recs>>
Next == Fill
Spec == Init /\ [][Next]_vars
ColRecord(c) == CHOOSE q \in 1..Len(recs) : c \in ColStart(recs, q)..(ColStart(recs, q) + Deg(recs[q]) - 1)
InRange == \A c \in filled : c[1] \in 0..(NBasis(nfun) - 1) /\ c[2] \in 0..(NOrb(recs) - 1)
InOwnBlock == \A c \in filled : c[1] \in Block(nfun, recs[ColRecord(c[2])])
\* when the loop ends every orbital has exactly as many non-zero rows as its l has radial functions
Complete == done => \A c \in 0..(NOrb(recs) - 1) : Cardinality({x \in filled : x[2] = c}) = nfun[recs[ColRecord(c)] + 1]
\* a component m of a record only meets rows of the same component (the orbital is a pure (l, m) function)
SameComponent == \A c \in filled : LET q == ColRecord(c[2]) IN
                    (c[1] - Offset(nfun, recs[q])) % Deg(recs[q]) = c[2] - ColStart(recs, q)
=============================================================================
