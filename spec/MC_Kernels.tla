---- MODULE MC_Kernels ----
(* The congruence machine of C20 as a state machine, and the discrete helper laws as ASSUMEs.   *)
(* (D, S) -> (E D E^T, E^-T S E^-1) with E elementary unimodular: D S is transformed by a        *)
(* similarity, so the spectrum of the generalized problem (natural occupations) is carried.      *)
EXTENDS Kernels
CONSTANTS NDim, MaxEntry, MaxSteps
VARIABLES D, S, spec, steps, last
vars == <<D, S, spec, steps, last>>
Spectra == IF NDim = 2 THEN {<<0, 4>>, <<2, 2>>, <<1, 3>>, <<0, 0>>}
           ELSE {<<0, 2, 4>>, <<4, 4, 0>>, <<1, 2, 3>>, <<0, 0, 4>>}
Init == spec \in Spectra /\ D = Diag(spec) /\ S = Identity(NDim) /\ steps = 0 /\ last = <<0, 0, 0>>
Bounded(A) == \A i \in 1..NDim, j \in 1..NDim : A[i][j] <= MaxEntry /\ A[i][j] >= 0 - MaxEntry
RowOp == \E i \in 1..NDim, j \in 1..NDim, m \in {-1, 1} :
   /\ i # j /\ steps < MaxSteps
   /\ LET E == AddRow(NDim, i, j, m)
          Ei == AddRow(NDim, i, j, 0 - m)
      IN /\ D' = MatMul(MatMul(E, D), Transpose(E))
         /\ S' = MatMul(MatMul(Transpose(Ei), S), Ei)
   /\ Bounded(D') /\ Bounded(S')
   /\ steps' = steps + 1 /\ last' = <<i, j, m>> /\ UNCHANGED spec
Next == RowOp
Spec == Init /\ [][Next]_vars
SumSeq(s) == LET RECURSIVE T(_) T(k) == IF k = 0 THEN 0 ELSE s[k] + T(k - 1) IN T(Len(s))
SumSq(s) == LET RECURSIVE T(_) T(k) == IF k = 0 THEN 0 ELSE s[k] * s[k] + T(k - 1) IN T(Len(s))
\* the carried spectrum stays the spectrum of D S: its first two power sums are invariant
SpectrumInvariant == LET M == MatMul(D, S) IN Trace(M) = SumSeq(spec) /\ Trace(MatMul(M, M)) = SumSq(spec)
StaysSymmetric == Symmetric(D) /\ Symmetric(S)
ASSUME Moments(7)
ASSUME KernelSymmetry(5, -2..2)
ASSUME OrbitClosed(4)
ASSUME \A q \in Quads(3) : Cardinality(Orbit(q)) \in {1, 2, 4, 8}
ASSUME GramInvariant(1)
ASSUME StrToBool(<<89, 69, 115>>) = "true" /\ StrToBool(<<79, 102, 70>>) = "false" /\ StrToBool(<<121, 101>>) = "ValueError"
====
