SPECIFICATION TSpec
CONSTANTS
  AtnVals = {}
  CoreVals = {}
  QVals = {}
  NeVals = {}
  SpVals = {}
  MoVals = {}
  LenVals = {}
POSTCONDITION Report
CHECK_DEADLOCK FALSE
