SPECIFICATION Spec
CONSTANTS
  MaxN = 2
  Depth = 3
INVARIANT Inv
CONSTRAINT Bound
CHECK_DEADLOCK FALSE
