SPECIFICATION Spec
CONSTANT Deep = TRUE
INVARIANT KwargsWin
INVARIANT DefaultsOnlyWhenAbsent
INVARIANT UnknownProgramIsFormatError
INVARIANT ErrorClasses
INVARIANT RenderFailureIsWriteInputError
INVARIANT FalsyKwargsStillWin
CHECK_DEADLOCK FALSE
