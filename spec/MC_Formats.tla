---- MODULE MC_Formats ----
(* Laws of the format model: the table is well formed, the packing maps are bijections, the round-trip   *)
(* relation is idempotent (C15: a second cycle changes nothing), POSCAR grouping is a stable permutation. *)
EXTENDS Formats, Json, IOUtils
ASSUME \A f \in FormatNames : \A i, j \in 1..Len(Stores[f]) : i # j => Stores[f][i].key # Stores[f][j].key
ASSUME \A f \in FormatNames : \A i \in 1..Len(Stores[f]) :
          LET e == Stores[f][i] IN e.cls \in {"exact", "real"} /\ e.tolkind \in {"abs", "rel"} /\ e.tolexp \in 0..16
              /\ e.absent \in {"none", "defaulted"} /\ e.norm \in {"same", "poscar-order", "bonds-untyped", "casefold"}
ASSUME \A n \in 1..8 : PackingBijective(n)
ASSUME \A q \in (0..2) \X (0..2) \X (0..2) \X (0..2) : Phys2Chem(Chem2Phys(q)) = q
ASSUME IF "OUT_FILE" \in DOMAIN IOEnv THEN JsonSerialize(IOEnv.OUT_FILE, [f \in FormatNames |-> Stores[f]]) ELSE TRUE
\* POSCAR grouping as a state machine over all small element sequences: the order is a permutation, groups by
\* element heaviest first, is stable, and applying it twice changes nothing (second-generation file identical)
VARIABLES atnums, cycle
vars == <<atnums, cycle>>
Init == atnums \in UNION {[1..n -> {1, 6, 8}] : n \in 1..5} /\ cycle = 0
Apply(a) == LET o == PoscarOrder(a) IN [r \in 1..Len(a) |-> a[o[r]]]
Next == cycle < 2 /\ atnums' = Apply(atnums) /\ cycle' = cycle + 1
Spec == Init /\ [][Next]_vars
Sorted == cycle >= 1 => \A i \in 1..(Len(atnums) - 1) : atnums[i] >= atnums[i + 1]
IsPerm == LET o == PoscarOrder(atnums) IN {o[r] : r \in 1..Len(atnums)} = 1..Len(atnums)
Stable == LET o == PoscarOrder(atnums) IN \A r, s \in 1..Len(atnums) : (r < s /\ atnums[o[r]] = atnums[o[s]]) => o[r] < o[s]
SecondCycleIdentity == [][cycle = 1 => atnums' = atnums]_vars
====
