---- MODULE Trace_LineIter ----
(* Recorded operation sequences on the real iodata.utils.LineIterator.  Events:                             *)
(*   [op: "enter"|"exit"], [op: "next", res: line id | 0 for StopIteration, lineno], [op: "back", line, lineno], *)
(*   [op: "error", reported]  -- the line number a LoadError constructed from the iterator carries.          *)
EXTENDS LineIter, Json, IOUtils, TLCExt
Traces == JsonDeserialize(IOEnv.TRACE_FILE)
N == Len(Traces)
VARIABLES tid, l
tvars == <<vars, tid, l>>
ASSUME \A t \in 1..N : TLCSet(t, 0)
TInit == tid \in 1..N /\ l = 1 /\ Init
Ev == Traces[tid][l]
Step ==
  /\ l <= Len(Traces[tid])
  /\ \/ Ev.op = "enter" /\ Enter
     \/ Ev.op = "exit" /\ Exit
     \/ Ev.op = "next" /\ NextLine
          /\ (IF Ev.res = 0 THEN last' = <<"stop">> ELSE last' = <<"line", Ev.res>>) /\ lineno' = Ev.lineno
     \/ Ev.op = "back" /\ Back(Ev.line) /\ lineno' = Ev.lineno
     \/ Ev.op = "error" /\ Ev.reported = lineno /\ UNCHANGED vars
  /\ ((LinenoLaw /\ StackIsFileSegment /\ DeliversInOrder /\ NothingAfterEnd /\ LinenoInFile)') = TRUE
  /\ l' = l + 1 /\ UNCHANGED tid
  /\ TLCSet(tid, IF TLCGet(tid) < l THEN l ELSE TLCGet(tid))
TSpec == TInit /\ [][Step]_tvars
Report == \A t \in 1..N : PrintT(<<"RESULT", t, TLCGet(t), Len(Traces[t])>>)
====
