SPECIFICATION Spec
INVARIANT NoGapNoOverlap
CHECK_DEADLOCK FALSE
