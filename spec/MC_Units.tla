---- MODULE MC_Units ----
(* Consistency of the conversion-constant table (scaled integers: value * 10^-exp).               *)
EXTENDS Integers, TLC, UnitsData
C == ConstTable
\* decimal relations between the constants: same digits, shifted exponent
ASSUME C.nanometer.value = C.angstrom.value /\ C.nanometer.exp = C.angstrom.exp - 1
ASSUME C.meter.value = C.angstrom.value /\ C.meter.exp = C.angstrom.exp - 10
ASSUME C.picosecond.value = C.second.value /\ C.picosecond.exp = C.second.exp + 12
ASSUME C.kcalmol.value = C.calmol.value /\ C.kcalmol.exp = C.calmol.exp - 3
ASSUME \A n \in DOMAIN C : C[n].value >= 100000000 /\ C[n].value < 1000000000
VARIABLE x
Init == x \in DOMAIN C
Next == UNCHANGED x
Spec == Init /\ [][Next]_x
====
