---- MODULE MC_ApiGlobals ----
EXTENDS ApiGlobals
CONSTANT NCalls
MCCalls == 1..NCalls
MCArgs == [c \in MCCalls |-> c * 10]
\* the state space is finite: More only adds to a finite set
====
