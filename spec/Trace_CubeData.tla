---- MODULE Trace_CubeData ----
(* Validation of loads of cube files whose data block is cut into lines in every way of the model's universe (C03). *)
EXTENDS CubeData, Json, IOUtils, TLCExt, TLC
Traces == JsonDeserialize(IOEnv.TRACE_FILE)
N == Len(Traces)
VARIABLES tid, l
tvars == <<tid, l>>
ASSUME \A t \in 1..N : TLCSet(t, 0)
TInit == tid \in 1..N /\ l = 1
\* e.cells lists, for every cell of the loaded array, the stream position of the (tagged) number found there (0: none of the file's numbers)
LoadOK(e) == /\ e.load = "ok"
             /\ e.loaded_shape = e.shape
             /\ Len(e.cells) = Size(e.shape)
             /\ \A i \in 1..Len(e.cells) : LET c == e.cells[i] IN c.word = WordOf(e.shape, <<c.cell[1], c.cell[2], c.cell[3]>>)
Step ==
  /\ l <= Len(Traces[tid])
  /\ LoadOK(Traces[tid][l])
  /\ l' = l + 1 /\ UNCHANGED tid
  /\ TLCSet(tid, IF TLCGet(tid) < l THEN l ELSE TLCGet(tid))
TSpec == TInit /\ [][Step]_tvars
Report == \A t \in 1..N : PrintT(<<"RESULT", t, TLCGet(t), Len(Traces[t])>>)
====
