SPECIFICATION Spec
CONSTANT MaxSteps = 3
INVARIANT NoDuplicateFunctions
PROPERTY FunctionsInvariant
CHECK_DEADLOCK FALSE
