---- MODULE Trace_Cli ----
(* One event per conversion: the observed API composition (fresh interpreter), the CLI run      *)
(* (subprocess) and the convert() function (in process).                                        *)
EXTENDS Integers, Sequences, TLC, Json, IOUtils, TLCExt
Traces == JsonDeserialize(IOEnv.TRACE_FILE)
N == Len(Traces)
VARIABLES tid, l
tvars == <<tid, l>>
ASSUME \A t \in 1..N : TLCSet(t, 0)
TInit == tid \in 1..N /\ l = 1
Untouched(f) == f \in {"old", "absent"}
CliOK(e) ==
  /\ (e.cli.code = 0 => (e.api.out = "return" /\ e.cli.file = "changed" /\ e.cli.hash = e.api.hash))   \* CliEqualsApi
  /\ (e.api.out # "return" => e.cli.code # 0)                                                        \* NoFalseSuccess
  /\ (e.cli.code # 0 => e.cli.stderr)                                                                \* FailureNamesProblem
  /\ ((e.cli.code # 0 /\ Untouched(e.api.file)) => e.cli.file = e.api.file)                          \* PreflightSparesOutput
  \* the convert() function is the API composition
  /\ e.fn.out = e.api.out /\ e.fn.file = e.api.file /\ (e.api.out = "return" => e.fn.hash = e.api.hash)
Step ==
  /\ l <= Len(Traces[tid])
  /\ CliOK(Traces[tid][l]) = TRUE
  /\ l' = l + 1 /\ UNCHANGED tid
  /\ TLCSet(tid, IF TLCGet(tid) < l THEN l ELSE TLCGet(tid))
TSpec == TInit /\ [][Step]_tvars
Report == \A t \in 1..N : PrintT(<<"RESULT", t, TLCGet(t), Len(Traces[t])>>)
====
