------------------------------ MODULE Layouts ------------------------------
(* Published layouts of the readable formats, as data (properties C03, C04).  *)
(*  - Layout: fixed-width records, 1-based inclusive columns.  The independent *)
(*    writer of the harness is a generic renderer that interprets these tables *)
(*    (exported as JSON by TLC): no iodata code produces the test files.       *)
(*  - Loads: for each format the loaded attributes that the file determines,   *)
(*    the unit the format prescribes for each and the digits the writer uses.  *)
EXTENDS Integers, Sequences, FiniteSets, TLC
F(n, a, b, k) == [name |-> n, from |-> a, to |-> b, kind |-> k]
\* kind: "int" right-justified integer, "f<d>" fixed-point with d decimals, "sl"/"sr" left/right-justified string,
\*       "lit:<text>" literal text
Layout == [
  sdf_counts |-> << F("natom",1,3,"int"), F("nbond",4,6,"int"), F("tail",7,39,"lit:  0     0  0  0  0  0  0999 V2000") >>,
  sdf_atom   |-> << F("x",1,10,"f4"), F("y",11,20,"f4"), F("z",21,30,"f4"), F("sp",31,31,"lit: "), F("sym",32,34,"sl"),
                    F("tail",35,69,"lit: 0  0  0  0  0  0  0  0  0  0  0  0") >>,
  sdf_bond   |-> << F("i",1,3,"int"), F("j",4,6,"int"), F("type",7,9,"int"), F("tail",10,21,"lit:  0  0  0  0") >>,
  pdb_atom   |-> << F("rec",1,6,"sl"), F("serial",7,11,"int"), F("sp1",12,12,"lit: "), F("name",13,16,"sl"),
                    F("alt",17,17,"lit: "), F("resname",18,20,"sl"), F("sp2",21,21,"lit: "), F("chain",22,22,"sl"),
                    F("resseq",23,26,"int"), F("icode",27,30,"lit:    "), F("x",31,38,"f3"), F("y",39,46,"f3"),
                    F("z",47,54,"f3"), F("occ",55,60,"f2"), F("b",61,66,"f2"), F("pad",67,76,"lit:          "),
                    F("element",77,78,"sr") >>,
  pdb_conect |-> << F("rec",1,6,"lit:CONECT"), F("serial",7,11,"int"), F("b1",12,16,"int"), F("b2",17,21,"int"),
                    F("b3",22,26,"int"), F("b4",27,31,"int") >>,
  gro_atom   |-> << F("resnum",1,5,"int"), F("resname",6,10,"sl"), F("atname",11,15,"sr"), F("atnum",16,20,"int"),
                    F("x",21,28,"f3"), F("y",29,36,"f3"), F("z",37,44,"f3"), F("vx",45,52,"f4"), F("vy",53,60,"f4"),
                    F("vz",61,68,"f4") >>,
  crd_atom   |-> << F("atomno",1,5,"int"), F("resno",6,10,"int"), F("sp1",11,11,"lit: "), F("resname",12,15,"sl"),
                    F("sp2",16,16,"lit: "), F("type",17,20,"sl"), F("x",21,30,"f5"), F("y",31,40,"f5"), F("z",41,50,"f5"),
                    F("sp3",51,51,"lit: "), F("segid",52,55,"sl"), F("sp4",56,56,"lit: "), F("resid",57,60,"sl"),
                    F("weight",61,70,"f5") >>,
  fchk_iscalar |-> << F("label",1,40,"sl"), F("sp",41,43,"lit:   "), F("type",44,44,"lit:I"), F("sp2",45,49,"lit:     "), F("value",50,61,"int") >>,
  fchk_iarray  |-> << F("label",1,40,"sl"), F("sp",41,43,"lit:   "), F("type",44,44,"lit:I"), F("n",45,49,"lit:   N="), F("count",50,61,"int") >>,
  fchk_rarray  |-> << F("label",1,40,"sl"), F("sp",41,43,"lit:   "), F("type",44,44,"lit:R"), F("n",45,49,"lit:   N="), F("count",50,61,"int") >>,
  \* Gaussian log, matrices of IOp(3/33=5): row label I7 followed by up to five D14.6 values; two-electron integral lines
  glog_rowlabel |-> << F("row",1,7,"int") >>,
  glog_twoel |-> << F("li",1,3,"lit: I="), F("i",4,6,"int"), F("lj",7,9,"lit: J="), F("j",10,12,"int"), F("lk",13,15,"lit: K="),
                    F("k",16,18,"int"), F("ll",19,21,"lit: L="), F("l",22,24,"int"), F("lint",25,29,"lit: Int=") >>,
  \* GAMESS punch, "COORDINATES OF SYMMETRY UNIQUE ATOMS (ANGS)": (1X,A10,F5.1,3F15.10), transcribed from the sample file
  gamess_coord |-> << F("sp",1,1,"lit: "), F("sym",2,11,"sl"), F("charge",12,16,"f1"), F("x",17,31,"f10"), F("y",32,46,"f10"), F("z",47,61,"f10") >>,
  cube_axis  |-> << F("n",1,5,"int"), F("x",6,17,"f6"), F("y",18,29,"f6"), F("z",30,41,"f6") >>,
  cube_atom  |-> << F("z",1,5,"int"), F("q",6,17,"f6"), F("x",18,29,"f6"), F("y",30,41,"f6"), F("zz",42,53,"f6") >>
]
Width(f) == f.to - f.from + 1
\* Values that fill a numeric field completely, so that it touches its left neighbour: all nines.  A fixed-point field of
\* width w with d decimals holds w-1 digits when positive (one column is the point) and w-2 when negative (sign and point);
\* an integer field holds w digits, or w-1 after a sign.  Counted in digits (the numbers themselves exceed TLC's integers).
IsFixed(f) == Len(f.kind) >= 2 /\ SubSeq(f.kind, 1, 1) = "f"
DigitOf(c) == CHOOSE n \in 0..9 : ToString(n) = c
Decimals(f) == IF ~IsFixed(f) THEN 0
               ELSE IF Len(f.kind) = 2 THEN DigitOf(SubSeq(f.kind, 2, 2))
               ELSE 10 * DigitOf(SubSeq(f.kind, 2, 2)) + DigitOf(SubSeq(f.kind, 3, 3))
IsNumeric(f) == f.kind = "int" \/ IsFixed(f)
Fill(f) == [pos |-> IF IsFixed(f) THEN Width(f) - 1 ELSE Width(f), neg |-> IF IsFixed(f) THEN Width(f) - 2 ELSE Width(f) - 1,
            dec |-> Decimals(f)]
\* printed width of a number of n nines with d decimals and an optional sign
Printed(n, d, signed) == n + (IF d > 0 THEN 1 ELSE 0) + (IF signed THEN 1 ELSE 0)
FillFits(rec) == \A i \in 1..Len(rec) : IsNumeric(rec[i]) =>
   /\ Printed(Fill(rec[i]).pos, Decimals(rec[i]), FALSE) = Width(rec[i])
   /\ Printed(Fill(rec[i]).neg, Decimals(rec[i]), TRUE) = Width(rec[i])
   /\ Fill(rec[i]).neg > Decimals(rec[i])                       \* at least one digit before the point
Fills(rec) == [i \in {j \in 1..Len(rec) : IsNumeric(rec[j])} |-> [field |-> rec[i].name, pos |-> Fill(rec[i]).pos, neg |-> Fill(rec[i]).neg, dec |-> Fill(rec[i]).dec]]
\* ranges ordered, non-overlapping, contiguous (neighbouring fields can touch) and literals fit their field
WellFormed(rec) == \A i \in 1..Len(rec) :
   /\ rec[i].from <= rec[i].to
   /\ (i = 1 => rec[i].from = 1)
   /\ (i > 1 => rec[i].from = rec[i-1].to + 1)
LitFits(rec) == \A i \in 1..Len(rec) :
   (Len(rec[i].kind) > 4 /\ SubSeq(rec[i].kind, 1, 4) = "lit:") => Len(rec[i].kind) - 4 = Width(rec[i])

\* L(key, unit, tolexp): the loaded attribute `key` is determined by the file, stored there in `unit`
L(k, u, e) == [key |-> k, unit |-> u, tolexp |-> e, cls |-> "real"]
D(k) == [key |-> k, unit |-> "au", tolexp |-> 0, cls |-> "exact"]
Loads == [
  xyz |-> << D("atnums"), L("atcoords", "angstrom", 8), D("title") >>,
  extxyz |-> << D("atnums"), L("atcoords", "angstrom", 8), L("cellvecs", "angstrom", 8), L("atmasses", "amu", 8), L("charge", "au", 8) >>,
  sdf |-> << D("atnums"), L("atcoords", "angstrom", 4), D("bonds"), D("title") >>,
  mol2 |-> << D("atnums"), L("atcoords", "angstrom", 4), D("bonds"), D("title"), L("atcharges.mol2charges", "au", 4), D("atffparams.attypes") >>,
  pdb |-> << D("atnums"), L("atcoords", "angstrom", 3), D("bonds"), D("title"), L("extra.occupancies", "au", 2), L("extra.bfactors", "au", 2),
             D("extra.chainids"), D("atffparams.attypes"), D("atffparams.restypes"), D("atffparams.resnums") >>,
  gromacs |-> << L("atcoords", "nanometer", 3), L("cellvecs", "nanometer", 5), D("atffparams.attypes"), D("atffparams.resnames"),
                 D("atffparams.resnums"), L("extra.time", "picosecond", 3), L("extra.velocities", "nanometer/picosecond", 4), D("title") >>,
  charmm |-> << L("atcoords", "angstrom", 5), L("atmasses", "amu", 5), D("atffparams.attypes"), D("atffparams.resnames"),
                D("atffparams.resnums"), D("extra.segid"), D("extra.resid") >>,
  poscar |-> << D("atnums"), L("atcoords", "angstrom", 8), L("cellvecs", "angstrom", 8), D("title") >>,
  chgcar |-> << D("atnums"), L("atcoords", "angstrom", 8), L("cellvecs", "angstrom", 8), D("title"),
                L("cube.data", "electron/cellvolume", 5), L("cube.axes", "angstrom", 8), L("cube.origin", "au", 8) >>,
  locpot |-> << D("atnums"), L("atcoords", "angstrom", 8), L("cellvecs", "angstrom", 8), D("title"),
                L("cube.data", "electronvolt", 5), L("cube.axes", "angstrom", 8) >>,
  cube |-> << D("atnums"), L("atcoords", "au", 6), L("atcorenums", "au", 6), D("title"), L("cube.origin", "au", 6), L("cube.axes", "au", 6),
              L("cube.data", "au", 5), L("cellvecs", "au", 6) >>,
  fcidump |-> << L("one_ints.core_mo", "au", 12), L("two_ints.two_mo", "au", 12), L("core_energy", "au", 12), D("nelec"), D("spinpol") >>,
  gaussianlog |-> << L("one_ints.olp", "au", 6), L("one_ints.kin_ao", "au", 6), L("one_ints.na_ao", "au", 6), L("two_ints.er_ao", "au", 12) >>,
  \* program output: the blocks the readers look for, rendered in the shape the programs print them
  orcalog |-> << D("atnums"), L("atcoords", "au", 6), L("energy", "au", 12), L("moments.(1,c)", "au", 5), L("extra.scf_energies", "au", 8) >>,
  qchemlog |-> << D("atnums"), L("atcoords", "angstrom", 10), L("energy", "au", 10), L("atcharges.mulliken", "au", 6),
                  L("extra.nuclear_repulsion_energy", "au", 8), L("mo.energies", "au", 4), L("mo.occs", "au", 8), D("lot"), D("obasis_name"), D("run_type"),
                  L("athessian", "au", 7) >>,
  wfx |-> << D("atnums"), L("atcoords", "au", 12), L("energy", "au", 12), L("atgradient", "au", 12), D("title"), L("mo.occs", "au", 12),
             L("mo.energies", "au", 8) >>,
  mwfn |-> << D("atnums"), L("atcoords", "angstrom", 8), L("atcorenums", "au", 1) >>,
  \* CP2K ATOM output: one atom at the origin; basis and orbitals follow spec/AtomOrbitals.tla
  cp2klog |-> << D("atnums"), L("atcorenums", "au", 10), L("atcoords", "au", 10), L("energy", "au", 12), D("obasis.angmoms"), D("obasis.kinds"),
                 D("obasis.ncons"), L("obasis.exponents", "au", 10), L("obasis.coeffs", "au", 10), D("obasis.primitive_normalization"),
                 D("mo.kind"), D("mo.norba"), D("mo.norbb"), L("mo.coeffs", "au", 12), L("mo.energies", "au", 8), L("mo.occs", "au", 10) >>,
  gamess |-> << D("atnums"), L("atcoords", "angstrom", 10), L("energy", "au", 10), L("atgradient", "au", 14), L("athessian", "au", 9), D("title") >>,
  gaussianinput |-> << D("atnums"), L("atcoords", "angstrom", 8), D("title") >>,
  fchk |-> << D("atnums"), L("atcoords", "au", 8), L("atcorenums", "au", 8), L("energy", "au", 8), L("atmasses", "amu", 8),
              L("atgradient", "au", 8), L("athessian", "au", 8), L("atcharges.mulliken", "au", 8), L("moments.(1,c)", "au", 8),
              L("moments.(2,c)", "au", 8), L("extra.polarizability_tensor", "au", 8), L("one_rdms.scf", "au", 8), D("atfrozen"),
              L("mo.energies", "au", 8), L("mo.coeffs", "au", 8), L("obasis.exponents", "au", 8) >>,
  json_qcschema |-> << D("atnums"), L("atcoords", "au", 12), L("atmasses", "amu", 12), L("charge", "au", 12), D("bonds") >>
]
LoadFormats == DOMAIN Loads
Units == {"au", "angstrom", "nanometer", "amu", "electronvolt", "picosecond", "nanometer/picosecond", "electron/cellvolume"}
UnitTableTotal == \A f \in LoadFormats : \A i \in 1..Len(Loads[f]) : Loads[f][i].unit \in Units /\ Loads[f][i].tolexp \in 0..16
LoadKeys(f) == {Loads[f][i].key : i \in 1..Len(Loads[f])}
=============================================================================
