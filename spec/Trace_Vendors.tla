---- MODULE Trace_Vendors ----
(* Validation of loads of vendor-encoded Molden / Molekel files (C05) against Vendors.tla. *)
EXTENDS Vendors, Json, IOUtils, TLCExt
Traces == JsonDeserialize(IOEnv.TRACE_FILE)
N == Len(Traces)
VARIABLES tid, l
tvars == <<tid, l, vars>>
ASSUME \A t \in 1..N : TLCSet(t, 0)
TInit == tid \in 1..N /\ l = 1 /\ vendor = "standard" /\ types = {} /\ picked = "pending"
ToSet(s) == {s[i] : i \in 1..Len(s)}
VendorOK(e) ==
  IF e.vendor = "corrupt"
  THEN e.out = "LoadError" \/ (e.out = "loaded" /\ e.same /\ e.orthonormal)     \* rejected, never loaded wrongly
  ELSE /\ e.out = "loaded" /\ e.same /\ e.orthonormal /\ e.irreps_ok
       /\ e.warning \in {WarningName(f) : f \in Admissible(e.vendor, ToSet(e.types))}
Step ==
  /\ l <= Len(Traces[tid])
  /\ VendorOK(Traces[tid][l]) = TRUE
  /\ l' = l + 1 /\ UNCHANGED <<tid, vars>>
  /\ TLCSet(tid, IF TLCGet(tid) < l THEN l ELSE TLCGet(tid))
TSpec == TInit /\ [][Step]_tvars
Report == \A t \in 1..N : PrintT(<<"RESULT", t, TLCGet(t), Len(Traces[t])>>)
====
