------------------------------ MODULE Kernels ------------------------------
(* Integer-lattice kernels behind C06 and C20.                               *)
EXTENDS Integers, Sequences, FiniteSets, TLC

(* ---- 1-D Gaussian product integral on the lattice p = 1/2 ----------------
   I(n1, n2; PA, PB) = Int (x-A)^n1 (x-B)^n2 exp(-(x-P)^2/2) dx / sqrt(2 pi)
   Obara-Saika:  I(i+1, j) = PA*I(i, j) + i*I(i-1, j) + j*I(i, j-1)            *)
RECURSIVE OS(_, _, _, _)
OS(i, j, PA, PB) ==
  IF i < 0 \/ j < 0 THEN 0
  ELSE IF i = 0 /\ j = 0 THEN 1
  ELSE IF i > 0 THEN PA * OS(i-1, j, PA, PB) + (i-1) * OS(i-2, j, PA, PB) + j * OS(i-1, j-1, PA, PB)
  ELSE PB * OS(i, j-1, PA, PB) + (j-1) * OS(i, j-2, PA, PB)
KernelSymmetry(N, R) == \A i \in 0..N, j \in 0..N, a \in R, b \in R : OS(i, j, a, b) = OS(j, i, b, a)
\* same-center moments: (i+j-1)!! for even i+j, else 0
RECURSIVE DF(_)
DF(n) == IF n <= 1 THEN 1 ELSE n * DF(n - 2)
Moments(N) == \A i \in 0..N, j \in 0..N :
   OS(i, j, 0, 0) = IF (i + j) % 2 = 0 THEN DF(i + j - 1) ELSE 0

(* ---- eight-fold symmetry of four-index objects (physicists' notation) ---- *)
Orbit(q) == LET a == q[1] b == q[2] c == q[3] d == q[4] IN
  { <<a,b,c,d>>, <<b,a,d,c>>, <<c,b,a,d>>, <<a,d,c,b>>, <<c,d,a,b>>, <<d,c,b,a>>, <<b,c,d,a>>, <<d,a,b,c>> }
\* the orbit is closed under the three generators of the symmetry group
Gen1(q) == <<q[2], q[1], q[4], q[3]>>     \* <ab|cd> = <ba|dc>: swap electrons
Gen2(q) == <<q[3], q[2], q[1], q[4]>>     \* real orbitals: swap a <-> c
Gen3(q) == <<q[1], q[4], q[3], q[2]>>     \* real orbitals: swap b <-> d
Quads(n) == (0..n-1) \X (0..n-1) \X (0..n-1) \X (0..n-1)
OrbitClosed(n) == \A q \in Quads(n) :
   \A p \in Orbit(q) : Gen1(p) \in Orbit(q) /\ Gen2(p) \in Orbit(q) /\ Gen3(p) \in Orbit(q)

(* ---- generalized cell volume from integer vectors ---- *)
Dot(u, v) == u[1]*v[1] + u[2]*v[2] + u[3]*v[3]
Det3(a, b, c) == a[1]*(b[2]*c[3]-b[3]*c[2]) - a[2]*(b[1]*c[3]-b[3]*c[1]) + a[3]*(b[1]*c[2]-b[2]*c[1])
GramDet(vs) == IF Len(vs) = 1 THEN Dot(vs[1], vs[1])
               ELSE IF Len(vs) = 2 THEN Dot(vs[1],vs[1])*Dot(vs[2],vs[2]) - Dot(vs[1],vs[2])*Dot(vs[1],vs[2])
               ELSE Det3(vs[1], vs[2], vs[3]) * Det3(vs[1], vs[2], vs[3])
\* Volume(vs)^2 = GramDet(vs) and Volume(vs) >= 0; GramDet is invariant under order and sign
Vecs(r) == (-r..r) \X (-r..r) \X (-r..r)
Neg(v) == <<-v[1], -v[2], -v[3]>>
GramInvariant(r) == \A a \in Vecs(r), b \in Vecs(r), c \in Vecs(r) :
   /\ GramDet(<<a,b,c>>) = GramDet(<<b,a,c>>) /\ GramDet(<<a,b,c>>) = GramDet(<<c,a,b>>)
   /\ GramDet(<<a,b,c>>) = GramDet(<<Neg(a),b,c>>) /\ GramDet(<<a,b>>) = GramDet(<<b,a>>)
   /\ GramDet(<<a,b,c>>) >= 0 /\ GramDet(<<a,b>>) >= 0

(* ---- string to boolean: the documented vocabulary, any letter case ---- *)
TrueWords == {<<121>>, <<121, 101, 115>>, <<116>>, <<116, 114, 117, 101>>, <<111, 110>>, <<49>>}         \* y yes t true on 1
FalseWords == {<<110>>, <<110, 111>>, <<102>>, <<102, 97, 108, 115, 101>>, <<111, 102, 102>>, <<48>>}    \* n no f false off 0
LowerC(c) == IF c >= 65 /\ c <= 90 THEN c + 32 ELSE c
LowerS(s) == [i \in 1..Len(s) |-> LowerC(s[i])]
StrToBool(s) == LET w == LowerS(s) IN
  IF w \in TrueWords THEN "true" ELSE IF w \in FalseWords THEN "false" ELSE "ValueError"

(* ---- small integer matrices (sequences of rows) for the congruence machine ---- *)
MatMul(A, B) == [i \in 1..Len(A) |-> [j \in 1..Len(B[1]) |->
                   LET RECURSIVE S(_) S(k) == IF k = 0 THEN 0 ELSE A[i][k] * B[k][j] + S(k - 1) IN S(Len(B))]]
Transpose(A) == [i \in 1..Len(A[1]) |-> [j \in 1..Len(A) |-> A[j][i]]]
Identity(n) == [i \in 1..n |-> [j \in 1..n |-> IF i = j THEN 1 ELSE 0]]
Diag(d) == [i \in 1..Len(d) |-> [j \in 1..Len(d) |-> IF i = j THEN d[i] ELSE 0]]
Trace(A) == LET RECURSIVE S(_) S(k) == IF k = 0 THEN 0 ELSE A[k][k] + S(k - 1) IN S(Len(A))
Symmetric(A) == A = Transpose(A)
\* elementary unimodular matrices: add m times row j to row i (i # j); their inverse subtracts it
AddRow(n, i, j, m) == [r \in 1..n |-> [c \in 1..n |-> IF r = c THEN 1 ELSE IF r = i /\ c = j THEN m ELSE 0]]
=============================================================================
