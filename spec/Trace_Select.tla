---- MODULE Trace_Select ----
EXTENDS Select, Json, IOUtils, TLCExt
Traces == JsonDeserialize(IOEnv.TRACE_FILE)
N == Len(Traces)
VARIABLES tid, l
tvars == <<tid, l, svars>>
ASSUME \A t \in 1..N : TLCSet(t, 0)
TInit == tid \in 1..N /\ l = 1 /\ sig = {} /\ op = "none" /\ fmt = None /\ result = "pending"
ToSet(s) == {s[i] : i \in 1..Len(s)}
\* one call: result of two executions agree (determinism), lies in Allowed, and a FileFormatError
\* touched nothing (no open, nothing created)
SelectOK(e) == /\ e.result \in Allowed(ToSet(e.sig), e.opn, e.fmt)
               /\ e.result2 = e.result
               /\ (e.result = FFE => (~e.opened /\ ~e.created))
\* a list shown by the code / the generated documentation / the CLI help names existing attributes
DeclOK(e) == DeclaredOK(e.names)
\* the lists shown in the generated documentation are the declared lists
DocOK(e) == ToSet(e.names) = ToSet(Decl(e.module, e.opn, e.which))
\* every guaranteed attribute is set on a successfully loaded object
LoadedOK(e) == ToSet(Decl(e.module, e.opn, "guaranteed")) \subseteq ToSet(e.present)
\* a required attribute that is None is refused before the output file is opened
RequiredOK(e) == e.result = "PrepareDumpError" /\ ~e.opened
Step ==
  /\ l <= Len(Traces[tid])
  /\ LET e == Traces[tid][l] IN
       (CASE e.op = "Select" -> SelectOK(e)
          [] e.op = "Declared" -> DeclOK(e)
          [] e.op = "Doc" -> DocOK(e)
          [] e.op = "Loaded" -> LoadedOK(e)
          [] e.op = "Required" -> RequiredOK(e)) = TRUE
  /\ l' = l + 1 /\ UNCHANGED <<tid, svars>>
  /\ TLCSet(tid, IF TLCGet(tid) < l THEN l ELSE TLCGet(tid))
TSpec == TInit /\ [][Step]_tvars
Report == \A t \in 1..N : PrintT(<<"RESULT", t, TLCGet(t), Len(Traces[t])>>)
====
