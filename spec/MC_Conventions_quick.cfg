INIT Init
NEXT Next
CONSTANT NMax = 3
INVARIANT PairLaws
PROPERTY Composition
CHECK_DEADLOCK FALSE
