--------------------------- MODULE MC_CubeData ---------------------------
(* The reader's refill/take loop as a machine over every cut of every stream  *)
(* of up to MaxN numbers; spec -> code: every (shape, cut) of the universe is *)
(* exported and rendered into a cube file that the real reader loads.         *)
EXTENDS CubeData, Json, IOUtils, SequencesExt
CONSTANT MaxN
VARIABLES shape, lines, li, buf, next, counter, placed
vars == <<shape, lines, li, buf, next, counter, placed>>
Universe == UNION {{[shape |-> s, lines |-> c] : s \in Shapes3(n), c \in Compositions(n)} : n \in 1..MaxN}
ASSUME IF "CASES_FILE" \in DOMAIN IOEnv
       THEN JsonSerialize(IOEnv.CASES_FILE, [cases |-> SetToSeq(Universe)])
       ELSE TRUE
Init == /\ \E u \in Universe : shape = u.shape /\ lines = u.lines
        /\ li = 1 /\ buf = <<>> /\ next = 1 /\ counter = 0 /\ placed = <<>>
\* words = next(lit).split(): the words of line li are the next lines[li] words of the stream
Refill == /\ counter < Size(shape) /\ buf = <<>> /\ li <= Len(lines)
          /\ buf' = [j \in 1..lines[li] |-> next + j - 1]
          /\ next' = next + lines[li] /\ li' = li + 1
          /\ UNCHANGED <<shape, lines, counter, placed>>
\* tmp[counter] = float(words.pop(0)); counter += 1
Take == /\ counter < Size(shape) /\ buf # <<>>
        /\ placed' = Append(placed, Head(buf)) /\ buf' = Tail(buf) /\ counter' = counter + 1
        /\ UNCHANGED <<shape, lines, li, next>>
Next == Refill \/ Take
Spec == Init /\ [][Next]_vars
\* flat cell k-1 receives word k: with C order and z fastest this is the value the file puts on that cell
InOrder == \A k \in 1..Len(placed) : placed[k] = k
\* the reader never runs out of lines before the array is full, and stops with the stream consumed
NoStarve == (counter < Size(shape) /\ buf = <<>>) => li <= Len(lines)
Complete == counter = Size(shape) => (buf = <<>> /\ li = Len(lines) + 1 /\ \A c \in Cells(shape) : placed[Flat(shape, c) + 1] = WordOf(shape, c))
\* Gaussian's own cut is one of the cuts of the universe
GaussianCovered == \A n \in 1..MaxN : \A s \in Shapes3(n) : GaussianLines(s) \in Compositions(n)
ASSUME GaussianCovered
=============================================================================
