SPECIFICATION Spec
CONSTANT MaxShells = 3
INVARIANT SameFunctions
INVARIANT FullySegmented
INVARIANT IdentityShortcut
PROPERTY Idempotent
CHECK_DEADLOCK FALSE
