---- MODULE UnitsData ----
(* generated from the CODATA 2018 values stated in vf/props/c04.py *)
EXTENDS Integers
ConstTable == [
  angstrom |-> [value |-> 188972612, exp |-> 8],
  electronvolt |-> [value |-> 367493222, exp |-> 10],
  meter |-> [value |-> 188972612, exp |-> -2],
  nanometer |-> [value |-> 188972612, exp |-> 7],
  second |-> [value |-> 413413733, exp |-> -8],
  picosecond |-> [value |-> 413413733, exp |-> 4],
  amu |-> [value |-> 182288849, exp |-> 5],
  kcalmol |-> [value |-> 159360144, exp |-> 11],
  calmol |-> [value |-> 159360144, exp |-> 14],
  kjmol |-> [value |-> 380879885, exp |-> 12] ]
====
