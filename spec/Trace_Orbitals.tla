---- MODULE Trace_Orbitals ----
(* Batched trace validation of recorded MolecularOrbitals histories and Shell constructions. *)
EXTENDS Orbitals, Json, IOUtils, TLCExt
Traces == JsonDeserialize(IOEnv.TRACE_FILE)
N == Len(Traces)
VARIABLES tid, l
tvars == <<vars, tid, l>>
ASSUME \A t \in 1..N : TLCSet(t, 0)
Blank == [kind |-> "none"]
TInit == tid \in 1..N /\ l = 1 /\ res = "ok" /\ mo = Blank
Outs(e) == CASE e.op = "New" -> DoNew(e.a)
             [] e.op = "SetArr" -> DoSetArr(mo, e.name, e.v)
             [] e.op = "SetSpin" -> DoSetSpin(mo, e.which, e.v)
MoStep(e) ==
  \E o \in Outs(e) :
     /\ o.r = e.r /\ mo' = o.m /\ res' = o.r
     \* "(...) = TRUE" forces value-level (lazy, short-circuit) evaluation inside the action
     /\ ((e.op # "New" \/ o.r = "ok") => Obs(o.m) = e.obs) = TRUE
     /\ (o.r = "ok" => StateInv(o.m)) = TRUE
     /\ ((e.op = "SetSpin" /\ o.r = "ok") => SetSpinKeepsOtherS(mo, e.which, e.v, o.m)) = TRUE
ShellStep(e) ==
  /\ ((e.r = "ok") <=> ShapeOK(e.c)) = TRUE
  /\ ((e.r = "ok") => IF KindsLegal(e.c) THEN e.nbasis = <<NBasis(e.c.ang, e.c.kinds)>> ELSE e.nbasis = <<>>) = TRUE
  /\ UNCHANGED vars
\* assignment to one attribute of an existing, consistent shell: e.c is the shape tuple that would result
ShellSetStep(e) ==
  /\ ((e.r = "ok") <=> ShapeOK(e.c)) = TRUE
  /\ UNCHANGED vars
\* the function count of a shell follows its angular momenta and kinds, also after they were re-assigned (no stale value)
NbOf(ang, kinds) == IF KindsLegal([ang |-> ang, kinds |-> kinds]) THEN <<NBasis(ang, kinds)>> ELSE <<>>
ShellNbStep(e) ==
  /\ (e.nb1 = NbOf(e.ang, e.kinds) /\ e.nb2 = NbOf(e.ang2, e.kinds2) /\ e.nb3 = NbOf(e.ang2, e.kinds2)) = TRUE
  /\ UNCHANGED vars
\* the laws of the statement on occupations the integer lattice of the model cannot hold (1.00001, 2 - 1e-9, -1e-4, ...), evaluated
\* in floating point by the harness on the public properties: alpha + beta = stored occupations, electron count = their total,
\* spin polarisation = |alpha total - beta total|; an assigned spin channel reads back and leaves the other one alone
MoLawsStep(e) ==
  /\ (e.spin_sum /\ e.nelec_is_total /\ e.spinpol_is_difference /\ e.set_reads_back /\ e.set_keeps_other) = TRUE
  /\ UNCHANGED vars
Step ==
  /\ l <= Len(Traces[tid])
  /\ LET e == Traces[tid][l] IN
       IF e.op = "MoLaws" THEN MoLawsStep(e) ELSE
       IF e.op = "Shell" THEN ShellStep(e)
       ELSE IF e.op = "ShellSet" THEN ShellSetStep(e)
       ELSE IF e.op = "ShellNb" THEN ShellNbStep(e)
       ELSE (l = 1) = (e.op = "New") /\ MoStep(e)
  /\ l' = l + 1 /\ UNCHANGED tid
  /\ TLCSet(tid, IF TLCGet(tid) < l THEN l ELSE TLCGet(tid))
TSpec == TInit /\ [][Step]_tvars
Report == \A t \in 1..N : PrintT(<<"RESULT", t, TLCGet(t), Len(Traces[t])>>)
====
