------------------------------- MODULE Formats -------------------------------
(* What each read/write format stores, with which precision, and how a save-   *)
(* then-reload relates the object read back to the object written (C02, C15).  *)
(* The table is the single source of truth: it is exported as JSON and drives   *)
(* the harness (which attributes to tag and compare, with which tolerance).     *)
(*                                                                             *)
(* entry: [key, cls : "exact" | "real", tolkind : "abs" | "rel", tolexp : digits, unit : file unit of an          *)
(*         absolute tolerance, absent : relation when the attribute is not provided, norm : relation when it is]  *)
EXTENDS Integers, Sequences, FiniteSets, TLC
X(k) == [key |-> k, cls |-> "exact", tolkind |-> "abs", tolexp |-> 0, unit |-> "au", absent |-> "none", norm |-> "same"]
R(k, kind, e, u) == [key |-> k, cls |-> "real", tolkind |-> kind, tolexp |-> e, unit |-> u, absent |-> "none", norm |-> "same"]
A(ent, a) == [ent EXCEPT !.absent = a]
Nm(ent, n) == [ent EXCEPT !.norm = n]
Stores == [
  xyz |-> << X("atnums"), R("atcoords", "abs", 10, "angstrom"), A(X("title"), "defaulted") >>,
  \* XYZ with the user-defined atom columns of the module documentation (two keyed columns of one dictionary attribute)
  xyz_columns |-> << X("atnums"), R("atcoords", "abs", 10, "angstrom"), A(X("title"), "defaulted"),
                     R("atcharges.mulliken", "abs", 5, "au"), R("atcharges.hirshfeld", "abs", 5, "au"), R("atgradient", "abs", 10, "au"),
                     R("atmasses", "abs", 4, "au"), X("atffparams.attypes") >>,
  sdf |-> << X("atnums"), R("atcoords", "abs", 4, "angstrom"), A(X("title"), "defaulted"), A(X("bonds"), "defaulted") >>,
  mol2 |-> << X("atnums"), R("atcoords", "abs", 4, "angstrom"), A(X("title"), "defaulted"), X("bonds"),
              A(R("atcharges.mol2charges", "abs", 4, "au"), "defaulted"), A(X("atffparams.attypes"), "defaulted") >>,
  pdb |-> << X("atnums"), R("atcoords", "abs", 3, "angstrom"), A(X("title"), "defaulted"), Nm(X("bonds"), "bonds-untyped"),
             A(R("extra.occupancies", "abs", 2, "au"), "defaulted"), A(R("extra.bfactors", "abs", 2, "au"), "defaulted"),
             X("extra.chainids"), A(X("atffparams.attypes"), "defaulted"), A(X("atffparams.restypes"), "defaulted"),
             A(X("atffparams.resnums"), "defaulted"), X("extra.compound") >>,
  poscar |-> << Nm(X("atnums"), "poscar-order"), Nm(R("atcoords", "abs", 12, "angstrom"), "poscar-order"),
                R("cellvecs", "abs", 14, "angstrom"), A(X("title"), "defaulted") >>,
  cube |-> << X("atnums"), R("atcoords", "abs", 6, "au"), A(R("atcorenums", "abs", 6, "au"), "defaulted"), A(X("title"), "defaulted"),
              R("cube.origin", "abs", 6, "au"), R("cube.axes", "abs", 6, "au"), R("cube.data", "rel", 5, "au") >>,
  fcidump |-> << R("one_ints.core_mo", "rel", 15, "au"), R("two_ints.two_mo", "rel", 15, "au"), A(R("core_energy", "rel", 15, "au"), "defaulted"),
                 A(X("nelec"), "defaulted"), A(X("spinpol"), "defaulted") >>,
  json_qcschema |-> << X("atnums"), R("atcoords", "rel", 14, "au"), R("charge", "abs", 12, "au"), X("spinpol"),
                       A(X("title"), "none"), R("atcorenums", "rel", 14, "au"), R("atmasses", "rel", 14, "au"), X("bonds"), X("g_rot") >>,
  \* QCSchema input / output documents (the same module, selected by extra.schema_name): everything the documentation lists
  \* under extra["input"] / extra["output"] is stored verbatim; provenance grows by design and is not compared
  json_qcschema_input |-> << X("atnums"), R("atcoords", "rel", 14, "au"), R("charge", "abs", 12, "au"), X("spinpol"),
                       X("lot"), X("obasis_name"), X("extra.input.driver"), X("extra.input.keywords"), X("extra.input.extras"),
                       X("extra.input.id"), X("extra.input.protocols"), X("extra.molecule.extras") >>,
  json_qcschema_output |-> << X("atnums"), R("atcoords", "rel", 14, "au"), R("charge", "abs", 12, "au"), X("spinpol"),
                       X("lot"), X("obasis_name"), X("extra.input.driver"), X("extra.input.keywords"), X("extra.input.extras"),
                       X("extra.input.id"), X("extra.input.protocols"), X("extra.molecule.extras"),
                       X("extra.output.properties"), X("extra.output.return_result"), X("extra.output.success"),
                       X("extra.output.stdout"), X("extra.output.stderr"), X("extra.output.error"),
                       R("energy", "rel", 14, "au") >>,
  fchk |-> << X("atnums"), R("atcoords", "rel", 8, "au"), R("atcorenums", "rel", 8, "au"), A(X("title"), "defaulted"),
              R("energy", "rel", 8, "au"), Nm(X("lot"), "casefold"), Nm(X("obasis_name"), "casefold"), R("atmasses", "rel", 8, "au"), X("atfrozen"),
              R("atgradient", "rel", 8, "au"), R("athessian", "rel", 8, "au"),
              R("atcharges.mulliken", "rel", 8, "au"), R("atcharges.esp", "rel", 8, "au"), R("atcharges.npa", "rel", 8, "au"),
              R("moments.(1,c)", "rel", 8, "au"), R("moments.(2,c)", "rel", 8, "au"),
              R("extra.polarizability_tensor", "rel", 8, "au"),
              R("one_rdms.scf", "rel", 8, "au"), R("one_rdms.scf_spin", "rel", 8, "au"),
              R("one_rdms.post_scf_ao", "rel", 8, "au"), R("one_rdms.post_scf_spin_ao", "rel", 8, "au"),
              X("mo.kind"), R("mo.occs", "abs", 12, "au"), R("mo.energies", "rel", 8, "au"), R("mo.coeffs", "rel", 8, "au"),
              X("obasis.icenters"), X("obasis.angmoms"), X("obasis.kinds"), X("obasis.ncons"),
              R("obasis.exponents", "rel", 8, "au"), R("obasis.coeffs", "rel", 8, "au") >>,
  molden |-> << X("atnums"), R("atcoords", "abs", 10, "au"), R("atcorenums", "abs", 8, "au"), X("title"),
                X("mo.kind"), R("mo.occs", "abs", 8, "au"), R("mo.energies", "abs", 8, "au"), R("mo.coeffs", "abs", 8, "au"),
                X("obasis.icenters"), X("obasis.angmoms"), X("obasis.kinds"),
                R("obasis.exponents", "rel", 9, "au"), R("obasis.coeffs", "rel", 9, "au") >>,
  molekel |-> << X("atnums"), R("atcoords", "abs", 6, "angstrom"), R("atcharges.mulliken", "abs", 6, "au"),
                 X("mo.kind"), R("mo.occs", "abs", 7, "au"), R("mo.energies", "abs", 6, "au"), R("mo.coeffs", "abs", 8, "au"),
                 X("obasis.icenters"), X("obasis.angmoms"), X("obasis.kinds"),
                 R("obasis.exponents", "abs", 8, "au"), R("obasis.coeffs", "abs", 8, "au") >>,
  wfn |-> << X("atnums"), R("atcoords", "abs", 8, "au"), A(X("title"), "defaulted"), A(R("energy", "abs", 8, "au"), "defaulted"),
             R("mo.occs", "abs", 7, "au"), R("mo.energies", "abs", 6, "au") >>,
  wfx |-> << X("atnums"), R("atcoords", "rel", 12, "au"), R("atcorenums", "rel", 12, "au"), A(X("title"), "defaulted"),
             R("energy", "rel", 12, "au"), R("mo.occs", "rel", 12, "au"), R("mo.energies", "rel", 12, "au"),
             R("atgradient", "rel", 12, "au"), X("extra.num_core_electrons"), R("extra.nuc_viral", "rel", 12, "au"),
             R("extra.full_virial_ratio", "rel", 12, "au") >> ]
FormatNames == DOMAIN Stores
Entry(fmt, k) == LET es == Stores[fmt] IN es[CHOOSE i \in 1..Len(es) : es[i].key = k]
Keys(fmt) == {Stores[fmt][i].key : i \in 1..Len(Stores[fmt])}
\* the relation a save/reload must produce for a stored attribute
Expect(fmt, k, present) == IF k \in present THEN Entry(fmt, k).norm ELSE Entry(fmt, k).absent

\* POSCAR: atoms grouped by element, heaviest first, original order within an element
PoscarOrder(atnums) == LET n == Len(atnums)
                           key(i) == (0 - atnums[i]) * (n + 1) + i
                       IN [r \in 1..n |-> CHOOSE i \in 1..n : Cardinality({j \in 1..n : key(j) < key(i)}) = r - 1]

(* ---- packing operators used by the formats ---- *)
TriIndex(i, j) == (i * (i + 1)) \div 2 + j          \* 0-based lower-triangle position of (i, j), j <= i
TriPairs(n) == {<<i, j>> : i \in 0..n-1, j \in 0..n-1} \cap {p \in (0..n-1) \X (0..n-1) : p[2] <= p[1]}
PackingBijective(n) == /\ \A p, q \in TriPairs(n) : TriIndex(p[1], p[2]) = TriIndex(q[1], q[2]) => p = q
                       /\ {TriIndex(p[1], p[2]) : p \in TriPairs(n)} = 0..((n * (n + 1)) \div 2 - 1)
\* chemists' (ij|kl) <-> physicists' <ik|jl>
Chem2Phys(q) == <<q[1], q[3], q[2], q[4]>>
Phys2Chem(q) == <<q[1], q[3], q[2], q[4]>>
=============================================================================
