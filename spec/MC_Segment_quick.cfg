SPECIFICATION Spec
CONSTANT MaxShells = 2
INVARIANT SameFunctions
INVARIANT FullySegmented
INVARIANT IdentityShortcut
PROPERTY Idempotent
CHECK_DEADLOCK FALSE
