------------------------------- MODULE Select -------------------------------
(* Format selection and declared capabilities (property C17).                 *)
(* The registry is NOT frozen in the specification: RegistryData.tla is       *)
(* generated from the live code on every run (the property is about the truth *)
(* of the code's own declarations).  File names are abstracted to their match *)
(* signature: the set of registry indices one of whose patterns matches the   *)
(* base name (computed by an independent glob matcher in the harness).        *)
EXTENDS Integers, Sequences, FiniteSets, TLC, RegistryData

Ops == {"load_one", "load_many", "dump_one", "dump_many"}
None == <<>>
FFE == "FileFormatError"
Names == {Registry[i].name : i \in 1..Len(Registry)}
Index(n) == CHOOSE i \in 1..Len(Registry) : Registry[i].name = n
Supports(i, op) == op \in Registry[i].ops

\* the set of acceptable outcomes of selecting a format for (signature, operation, explicit format)
Allowed(sig, op, fmt) ==
  IF fmt = None
  THEN LET c == {i \in sig : Supports(i, op)} IN
       IF c = {} THEN {FFE} ELSE {Registry[i].name : i \in c}
  ELSE IF fmt[1] \in Names
       THEN IF Supports(Index(fmt[1]), op) THEN {fmt[1]} ELSE {FFE}
       ELSE {FFE}

\* declared attribute names exist
DeclaredOK(names) == \A k \in 1..Len(names) : names[k] \in IODataAttrs
Decl(mod, op, which) == LET d == Registry[Index(mod)].decl[op] IN
  CASE which = "guaranteed" -> d.guaranteed [] which = "ifpresent" -> d.ifpresent
    [] which = "required" -> d.required [] which = "optional" -> d.optional

(* ---- the same as a (tiny) state machine, so that TLC explores every scenario ---- *)
VARIABLES sig, op, fmt, result
svars == <<sig, op, fmt, result>>
Fmts == {None} \cup {<<n>> : n \in Names} \cup {<<"no_such_format">>}
SInit == sig \in RealisedSigs /\ op \in Ops /\ fmt \in Fmts /\ result = "pending"
SNext == result = "pending" /\ result' \in Allowed(sig, op, fmt) /\ UNCHANGED <<sig, op, fmt>>
SSpec == SInit /\ [][SNext]_svars
ExplicitWins == (result # "pending" /\ fmt # None) => result \in {fmt[1], FFE}
ErrorIffNoCandidate ==
  (result # "pending") =>
     ((result = FFE) <=> (IF fmt = None THEN \A i \in sig : ~Supports(i, op)
                          ELSE (fmt[1] \notin Names \/ ~Supports(Index(fmt[1]), op))))
ResultSupports == (result \notin {"pending", FFE}) => Supports(Index(result), op)
MatchesPattern == (result \notin {"pending", FFE} /\ fmt = None) => Index(result) \in sig
\* every declared list of every module names existing attributes only
AllDeclaredExist == \A i \in 1..Len(Registry) : \A o \in Registry[i].ops :
   LET d == Registry[i].decl[o] IN
   DeclaredOK(d.guaranteed) /\ DeclaredOK(d.ifpresent) /\ DeclaredOK(d.required) /\ DeclaredOK(d.optional)
=============================================================================
