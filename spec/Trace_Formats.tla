---- MODULE Trace_Formats ----
(* Validation of recorded save/reload round trips (C02) and repeated cycles (C15) against Formats.tla. *)
EXTENDS Formats, Json, IOUtils, TLCExt
Traces == JsonDeserialize(IOEnv.TRACE_FILE)
N == Len(Traces)
VARIABLES tid, l
tvars == <<tid, l>>
ASSUME \A t \in 1..N : TLCSet(t, 0)
TInit == tid \in 1..N /\ l = 1
ToSet(s) == {s[i] : i \in 1..Len(s)}
\* an object inside the documented domain is written, the file is read back, and every stored attribute
\* comes back in the relation the table prescribes (never permuted, sign-flipped, rescaled, truncated ...)
QCSchemaDocs == {"json_qcschema", "json_qcschema_input", "json_qcschema_output"}
RoundTripOK(e) ==
  /\ e.dump = "ok" /\ e.load = "ok"
  \* (a value that comes back unchanged where the format is known to normalise it -- bond types in PDB, atom order in POSCAR --
  \*  is better than the table asks for, never a violation)
  /\ \A k \in Keys(e.fmt) : \/ e.rel[k] = Expect(e.fmt, k, ToSet(e.present))
                            \/ (k \in ToSet(e.present) /\ e.rel[k] = "same")
  /\ (e.perm # <<>> => e.perm = PoscarOrder(e.atnums))
\* after one cycle nothing changes any more (the QCSchema provenance trail grows by design)
CyclesOK(e) ==
  /\ e.ok
  /\ e.obj2_eq_obj1                         \* (for QCSchema documents the provenance entries are projected away by the harness)
  /\ e.bytes3_eq_bytes2 \/ e.fmt \in QCSchemaDocs
Step ==
  /\ l <= Len(Traces[tid])
  /\ LET e == Traces[tid][l] IN
       (CASE e.op = "RoundTrip" -> RoundTripOK(e)
          [] e.op = "Cycles" -> CyclesOK(e)) = TRUE
  /\ l' = l + 1 /\ UNCHANGED tid
  /\ TLCSet(tid, IF TLCGet(tid) < l THEN l ELSE TLCGet(tid))
TSpec == TInit /\ [][Step]_tvars
Report == \A t \in 1..N : PrintT(<<"RESULT", t, TLCGet(t), Len(Traces[t])>>)
====
