----------------------------- MODULE ApiGlobals -----------------------------
(* Several API calls in flight on distinct paths, sharing the process-global   *)
(* tables (periodic table, bond types, convention dictionaries, registries,   *)
(* unit constants).  Property C16: no API step writes a global table, hence   *)
(* the outcome of a call is a function of its arguments and file contents     *)
(* only, whatever the history and whatever the interleaving.                   *)
EXTENDS Integers, Sequences, FiniteSets, TLC
CONSTANTS Calls,        \* set of call identifiers in flight
          Args          \* Args[c] : the argument tuple of call c (an abstract value)
VARIABLES glob,         \* version of the global tables (0 = as imported)
          pc,           \* pc[c] \in {"idle","selected","opened","working","closed","done"}
          seen,         \* seen[c] : set of table versions the call has read so far
          result,       \* result[c] : outcome once done
          history       \* number of calls completed so far
vars == <<glob, pc, seen, result, history>>

\* the outcome of a call is computed from its arguments and from the tables it read
Outcome(c, versions) == <<Args[c], versions>>
Solo(c) == Outcome(c, {0})            \* what the call returns alone in a fresh interpreter

Init == /\ glob = 0 /\ pc = [c \in Calls |-> "idle"] /\ seen = [c \in Calls |-> {}]
        /\ result = [c \in Calls |-> <<>>] /\ history = 0
Step(c, from, to) == pc[c] = from /\ pc' = [pc EXCEPT ![c] = to]
\* every step may read the tables; none writes them
Select(c) == Step(c, "idle", "selected") /\ seen' = [seen EXCEPT ![c] = @ \cup {glob}] /\ UNCHANGED <<glob, result, history>>
Open(c) == Step(c, "selected", "opened") /\ UNCHANGED <<glob, seen, result, history>>
Work(c) == Step(c, "opened", "working") /\ seen' = [seen EXCEPT ![c] = @ \cup {glob}] /\ UNCHANGED <<glob, result, history>>
More(c) == pc[c] = "working" /\ seen' = [seen EXCEPT ![c] = @ \cup {glob}] /\ UNCHANGED <<glob, pc, result, history>>
Close(c) == Step(c, "working", "closed") /\ UNCHANGED <<glob, seen, result, history>>
Return(c) == /\ Step(c, "closed", "done") /\ result' = [result EXCEPT ![c] = Outcome(c, seen[c])]
             /\ history' = history + 1 /\ UNCHANGED <<glob, seen>>
\* a call that failed during selection returns without opening anything
Fail(c) == /\ Step(c, "selected", "done") /\ result' = [result EXCEPT ![c] = Outcome(c, seen[c])]
           /\ history' = history + 1 /\ UNCHANGED <<glob, seen>>
Next == \E c \in Calls : Select(c) \/ Open(c) \/ Work(c) \/ More(c) \/ Close(c) \/ Return(c) \/ Fail(c)
Spec == Init /\ [][Next]_vars /\ WF_vars(Next)

\* NOT part of Next: a step that writes a table (what wfx.dump_one did to the periodic table).
\* It is kept here so that the deviation has a name; trace validation has no action to explain it.
TableWrite(c) == pc[c] = "working" /\ glob' = glob + 1 /\ UNCHANGED <<pc, seen, result, history>>

GlobalsFrozen == glob = 0
ResultIsFunctionOfArgs == \A c \in Calls : pc[c] = "done" => result[c] = Solo(c)
AllDone == <>(\A c \in Calls : pc[c] = "done")
=============================================================================
