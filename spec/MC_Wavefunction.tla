---- MODULE MC_Wavefunction ----
(* The announced conversions a writer may apply preserve the denotation of the wavefunction (C01, C09):  *)
(* convention change, segmentation, sorting the shells by centre together with their coefficient rows.   *)
(* State machine over all bases of <= MaxShells shells: the denotation never changes.                    *)
EXTENDS Wavefunction
CONSTANT MaxShells
S == <<0,"c">>  P == <<1,"c">>  Dc == <<2,"c">>  Dp == <<2,"p">>
ShellKinds == { <<S>>, <<P>>, <<Dc>>, <<Dp>>, <<S,P>>, <<S,S>>, <<P,S,Dp>> }
TypesAll == {S, P, Dc, Dp}
Idc(t) == [i \in 1..NFun(t) |-> [lab |-> i, sgn |-> 1]]
Rev(t) == [i \in 1..NFun(t) |-> [lab |-> NFun(t) + 1 - i, sgn |-> IF i % 2 = 0 THEN -1 ELSE 1]]
ConvChoices == { [t \in TypesAll |-> IF t \in flip THEN Rev(t) ELSE Idc(t)] : flip \in {{}, {P}, {Dc, Dp}, TypesAll} }
Bases(n) == { [i \in 1..n |-> [uid |-> i, c |-> cs[i], cons |-> ks[i], org |-> [j \in 1..Len(ks[i]) |-> j]]]
               : ks \in [1..n -> ShellKinds], cs \in [1..n -> 1..2] }
VARIABLES b, cv, v, d0, steps
vars == <<b, cv, v, d0, steps>>
Init == /\ b \in UNION {Bases(n) : n \in 1..MaxShells} /\ cv \in ConvChoices
        /\ v = Ident(Len(Rows(b, cv))) /\ d0 = Denote(b, cv, v) /\ steps = 0
ChangeConv == \E c2 \in ConvChoices : c2 # cv /\ cv' = c2 /\ v' = Reconvention(b, cv, c2, v) /\ UNCHANGED <<b, d0>>
Seg == \E k \in BOOLEAN : b' = Segment(b, k) /\ UNCHANGED <<cv, v, d0>>
SortWithRows == b' = SortShells(b) /\ v' = SortRows(b, v) /\ UNCHANGED <<cv, d0>>
Next == steps < 2 /\ steps' = steps + 1 /\ (ChangeConv \/ Seg \/ SortWithRows)
Spec == Init /\ [][Next]_vars
ConversionPreservesDenotation == Denote(b, cv, v) = d0
\* the defect the Molden writer had: sorting the shells without moving the rows changes the denotation
BadSort == \E bb \in Bases(2) : LET C == CHOOSE c \in ConvChoices : TRUE
                                  v0 == Ident(Len(Rows(bb, C))) IN
              Denote(SortShells(bb), C, v0) # Denote(bb, C, v0)
ASSUME BadSort
====
