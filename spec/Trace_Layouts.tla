---- MODULE Trace_Layouts ----
(* Validation of loads of independently rendered files (C03) and of their units (C04).        *)
EXTENDS Layouts, UnitsData, AtomOrbitals, Json, IOUtils, TLCExt
Traces == JsonDeserialize(IOEnv.TRACE_FILE)
N == Len(Traces)
VARIABLES tid, l
tvars == <<tid, l>>
ASSUME \A t \in 1..N : TLCSet(t, 0)
TInit == tid \in 1..N /\ l = 1
\* every attribute the file determines equals the value in the file under the published layout and unit
\* atomic orbitals (CP2K ATOM): the tagged coefficient of radial function ic of record r is found in the loaded matrix exactly on
\* the cells AtomOrbitals prescribes, in every spin block, and nowhere else is the matrix non-zero
RECURSIVE CellCount(_, _), FunCount(_, _, _)
CellCount(ps, i) == IF i = 0 THEN 0 ELSE CellCount(ps, i - 1) + Deg(ps[i].l)
FunCount(nfun, recs, i) == IF i = 0 THEN 0 ELSE FunCount(nfun, recs, i - 1) + nfun[recs[i] + 1]
PlaceOK(a) == /\ a.nbasis = NBasis(a.nfun)
              /\ a.norb = NOrb(a.recs)
              /\ \A i \in 1..Len(a.places) : LET p == a.places[i] IN
                    {p.cells[j] : j \in 1..Len(p.cells)} = {<<Row(a.nfun, p.l, p.ic, im), Col(a.recs, p.r, im)>> : im \in 0..(2 * p.l)}
              /\ Len(a.places) = a.nspin * FunCount(a.nfun, a.recs, Len(a.recs))    \* one tag per (spin, record, radial function)
              /\ a.nonzero = CellCount(a.places, Len(a.places))
LoadOK(e) == /\ e.load = "ok"
             /\ \A k \in LoadKeys(e.fmt) : e.rel[k] = "same"
             /\ ("atom" \in DOMAIN e => PlaceOK(e.atom))
\* the same physical model described in two formats loads to the same numbers (C04)
CrossOK(e) == e.load = "ok" /\ \A i \in 1..Len(e.pairs) : e.pairs[i].rel = "same"
\* a conversion constant of iodata.utils equals the independently stated CODATA value to the stated digits
ConstOK(e) == LET d == e.code - ConstTable[e.name].value IN d <= 20 /\ d >= -20      \* 2e-8 relative
Step ==
  /\ l <= Len(Traces[tid])
  /\ LET e == Traces[tid][l] IN
       (CASE e.op = "Load" -> LoadOK(e)
          [] e.op = "Cross" -> CrossOK(e)
          [] e.op = "Const" -> ConstOK(e)) = TRUE
  /\ l' = l + 1 /\ UNCHANGED tid
  /\ TLCSet(tid, IF TLCGet(tid) < l THEN l ELSE TLCGet(tid))
TSpec == TInit /\ [][Step]_tvars
Report == \A t \in 1..N : PrintT(<<"RESULT", t, TLCGet(t), Len(Traces[t])>>)
====
