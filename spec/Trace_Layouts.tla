---- MODULE Trace_Layouts ----
(* Validation of loads of independently rendered files (C03) and of their units (C04).        *)
EXTENDS Layouts, UnitsData, Json, IOUtils, TLCExt
Traces == JsonDeserialize(IOEnv.TRACE_FILE)
N == Len(Traces)
VARIABLES tid, l
tvars == <<tid, l>>
ASSUME \A t \in 1..N : TLCSet(t, 0)
TInit == tid \in 1..N /\ l = 1
\* every attribute the file determines equals the value in the file under the published layout and unit
LoadOK(e) == /\ e.load = "ok"
             /\ \A k \in LoadKeys(e.fmt) : e.rel[k] = "same"
\* the same physical model described in two formats loads to the same numbers (C04)
CrossOK(e) == e.load = "ok" /\ \A i \in 1..Len(e.pairs) : e.pairs[i].rel = "same"
\* a conversion constant of iodata.utils equals the independently stated CODATA value to the stated digits
ConstOK(e) == LET d == e.code - ConstTable[e.name].value IN d <= 20 /\ d >= -20      \* 2e-8 relative
Step ==
  /\ l <= Len(Traces[tid])
  /\ LET e == Traces[tid][l] IN
       (CASE e.op = "Load" -> LoadOK(e)
          [] e.op = "Cross" -> CrossOK(e)
          [] e.op = "Const" -> ConstOK(e)) = TRUE
  /\ l' = l + 1 /\ UNCHANGED tid
  /\ TLCSet(tid, IF TLCGet(tid) < l THEN l ELSE TLCGet(tid))
TSpec == TInit /\ [][Step]_tvars
Report == \A t \in 1..N : PrintT(<<"RESULT", t, TLCGet(t), Len(Traces[t])>>)
====
