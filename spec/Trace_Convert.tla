---- MODULE Trace_Convert ----
(* Validation of recorded convert_to_segmented / convert_to_unrestricted / prepare_* calls (C14). *)
EXTENDS Wavefunction, Json, IOUtils, TLCExt
VARIABLES mo, res
O == INSTANCE Orbitals
Traces == JsonDeserialize(IOEnv.TRACE_FILE)
N == Len(Traces)
VARIABLES tid, l
tvars == <<tid, l, mo, res>>
ASSUME \A t \in 1..N : TLCSet(t, 0)
TInit == tid \in 1..N /\ l = 1 /\ mo = <<>> /\ res = ""
SegmentOK(e) == /\ e.out = Segment(e.b, e.keep)
                /\ FunctionList(e.out) = FunctionList(e.b)
                /\ e.olp_same /\ e.conv_same /\ ~e.input_changed
PrepSegOK(e) ==
  IF ~NeedsSegmentation(e.b, e.keep) THEN e.r = "same" /\ ~e.warned
  ELSE IF e.allow THEN e.r = "new" /\ e.warned /\ e.out = Segment(e.b, e.keep) /\ e.rest_same
  ELSE e.r = "PrepareDumpError" /\ ~e.warned
UnrestrictOK(e) == LET d == O!DoUnrestrict(e.m) IN
  /\ e.r = d.r
  /\ (d.r # "rejected" => (e.out = d.m /\ e.dens_same))
  /\ ~e.input_changed
PrepUnresOK(e) ==
  IF e.m.kind = "generalized" THEN e.r = "rejected"
  ELSE IF e.m.kind = "unrestricted" \/ e.m.amb = <<>> THEN e.r = "same" /\ ~e.warned
  ELSE IF e.allow THEN e.r = "new" /\ e.warned /\ e.out = O!Unrestrict(e.m) /\ e.rest_same
  ELSE e.r = "PrepareDumpError" /\ ~e.warned
Step ==
  /\ l <= Len(Traces[tid])
  /\ LET e == Traces[tid][l] IN
       (CASE e.op = "Segment" -> SegmentOK(e)
          [] e.op = "PrepSeg" -> PrepSegOK(e)
          [] e.op = "Unrestrict" -> UnrestrictOK(e)
          [] e.op = "PrepUnres" -> PrepUnresOK(e)) = TRUE
  /\ l' = l + 1 /\ UNCHANGED <<tid, mo, res>>
  /\ TLCSet(tid, IF TLCGet(tid) < l THEN l ELSE TLCGet(tid))
TSpec == TInit /\ [][Step]_tvars
Report == \A t \in 1..N : PrintT(<<"RESULT", t, TLCGet(t), Len(Traces[t])>>)
====
