SPECIFICATION TSpec
CONSTANT NLines = 6
POSTCONDITION Report
CHECK_DEADLOCK FALSE
