SPECIFICATION Spec
INVARIANT HeapFrozen
INVARIANT AsIsOrRefused
INVARIANT ConversionAnnounced
INVARIANT SameObjectWhenNothingToConvert
CHECK_DEADLOCK FALSE
