SPECIFICATION TSpec
POSTCONDITION Report
CHECK_DEADLOCK FALSE
