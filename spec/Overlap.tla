------------------------------- MODULE Overlap -------------------------------
(* Equivariance of the overlap matrix (property C06) as a state machine over a   *)
(* pair of abstract bases.  The matrix is never computed here: its entries are   *)
(* identified by the pair of function identities they belong to, and every       *)
(* action either leaves that labelling invariant (Translate, Segment), permutes  *)
(* and sign-flips it (ChangeConventions, PermuteShells) or transposes it         *)
(* (SwapBases).  Property: the labelled, sign-corrected matrix is invariant.     *)
EXTENDS Wavefunction
CONSTANTS MaxSteps
S == <<0,"c">>  P == <<1,"c">>  Dc == <<2,"c">>  Dp == <<2,"p">>  Fp == <<3,"p">>
ShellKinds == { <<S>>, <<P>>, <<Dp>>, <<S,P>>, <<P,S,Dc>>, <<Fp>> }
TypesAll == {S, P, Dc, Dp, Fp}
Idc(t) == [i \in 1..NFun(t) |-> [lab |-> i, sgn |-> 1]]
Rev(t) == [i \in 1..NFun(t) |-> [lab |-> NFun(t) + 1 - i, sgn |-> IF i % 2 = 0 THEN -1 ELSE 1]]
Rot(t) == [i \in 1..NFun(t) |-> [lab |-> (i % NFun(t)) + 1, sgn |-> IF i = 1 THEN -1 ELSE 1]]
Conv(id) == [t \in TypesAll |-> CASE id = 0 -> Idc(t) [] id = 1 -> Rev(t) [] id = 2 -> Rot(t)]
MkBasis(ks, cs) == [i \in 1..Len(ks) |-> [uid |-> i, c |-> cs[i], cons |-> ks[i], org |-> [j \in 1..Len(ks[i]) |-> j]]]
Bases == { MkBasis(ks, cs) : ks \in UNION {[1..n -> ShellKinds] : n \in 1..2}, cs \in {<<1, 1>>, <<1, 2>>, <<2, 1>>} }
VARIABLES b0, b1, cv0, cv1, swapped, shift, steps, last
vars == <<b0, b1, cv0, cv1, swapped, shift, steps, last>>
SmallBases == { MkBasis(<< <<S, P>> >>, <<1, 1>>), MkBasis(<< <<Dp>>, <<P, S, Dc>> >>, <<2, 1>>), MkBasis(<< <<Fp>>, <<P>> >>, <<1, 2>>) }
Init == /\ b0 \in Bases /\ b1 \in SmallBases /\ cv0 = 0 /\ cv1 \in {0, 2}
        /\ swapped = FALSE /\ shift = 0 /\ steps = 0 /\ last = "init"
Tick(name) == steps < MaxSteps /\ steps' = steps + 1 /\ last' = name
Translate == Tick("Translate") /\ shift' = shift + 1 /\ UNCHANGED <<b0, b1, cv0, cv1, swapped>>
SwapBases == Tick("SwapBases") /\ swapped' = ~swapped /\ UNCHANGED <<b0, b1, cv0, cv1, shift>>
ChangeConv0 == \E c \in 0..2 : c # cv0 /\ Tick("ChangeConv0") /\ cv0' = c /\ UNCHANGED <<b0, b1, cv1, swapped, shift>>
ChangeConv1 == \E c \in 0..2 : c # cv1 /\ Tick("ChangeConv1") /\ cv1' = c /\ UNCHANGED <<b0, b1, cv0, swapped, shift>>
Reverse(s) == [i \in 1..Len(s) |-> s[Len(s) + 1 - i]]
Permute0 == Len(b0) > 1 /\ Tick("Permute0") /\ b0' = Reverse(b0) /\ UNCHANGED <<b1, cv0, cv1, swapped, shift>>
Permute1 == Len(b1) > 1 /\ Tick("Permute1") /\ b1' = Reverse(b1) /\ UNCHANGED <<b0, cv0, cv1, swapped, shift>>
Segment0 == \E k \in BOOLEAN : Tick("Segment0") /\ b0' = Segment(b0, k) /\ UNCHANGED <<b1, cv0, cv1, swapped, shift>>
Segment1 == \E k \in BOOLEAN : Tick("Segment1") /\ b1' = Segment(b1, k) /\ UNCHANGED <<b0, cv0, cv1, swapped, shift>>
Next == Translate \/ SwapBases \/ ChangeConv0 \/ ChangeConv1 \/ Permute0 \/ Permute1 \/ Segment0 \/ Segment1
Spec == Init /\ [][Next]_vars
\* the set of function identities on each side never changes: every entry of the matrix keeps its meaning
Fids(b, cv) == {Rows(b, Conv(cv))[i].fid : i \in 1..Len(Rows(b, Conv(cv)))}
FunctionsInvariant == [][Fids(b0', cv0') = Fids(b0, cv0) /\ Fids(b1', cv1') = Fids(b1, cv1)]_vars
NoDuplicateFunctions == Cardinality(Fids(b0, cv0)) = Len(Rows(b0, Conv(cv0))) /\ Cardinality(Fids(b1, cv1)) = Len(Rows(b1, Conv(cv1)))
=============================================================================
