---- MODULE MC_Orbitals ----
(* Bounded exhaustive model: every construction with <= MaxN orbitals per spin over the          *)
(* occupation alphabet, then every sequence of <= Depth assignments.                             *)
EXTENDS Orbitals
CONSTANTS MaxN, Depth
Occ == {0, One \div 2, One, 2 * One}
SeqN(n) == [1..n -> Occ]
Tags(n) == [i \in 1..n |-> 100 + i]
\* well-formed and ill-formed construction arguments
Args == { [kind |-> k, norba |-> na, norbb |-> nb, occs |-> oc, amb |-> am, en |-> e, irr |-> <<>>, co |-> c] :
          k \in Kinds \cup {"bogus"}, na \in {None} \cup {Some(n) : n \in 0..MaxN}, nb \in {None} \cup {Some(n) : n \in 0..MaxN},
          oc \in {None} \cup {Some(s) : s \in UNION {SeqN(n) : n \in {1, 2}}},
          am \in {None, Some(<<One>>), Some(<<0, One>>)},
          e \in {None, Some(Tags(2))}, c \in {None, Some(Tags(1))} }
ASSUME \A a \in Args : \A o \in DoNew(a) :
          /\ (o.r = "ok") <=> (CountsOK(a.kind, a.norba, a.norbb) /\ LensOK(a))
          /\ (o.r = "ok" => StateInv(o.m))
ASSUME PrintT(<<"constructions", Cardinality(Args)>>)

Vals == UNION {SeqN(n) : n \in 1..(2 * MaxN)}
AmbVals == {<<One>>, <<0, One>>, <<One, One>>, <<0 - One, One>>}
\* the action properties are asserted while the successors are generated (no quantified
\* [][...]_vars formulas: they dominated the run time)
Apply(outs, P(_)) == \E o \in outs : mo' = o.m /\ res' = o.r
                       /\ Assert(o.r # "ok" => o.m = mo, "RejectedIsNoop")
                       /\ Assert(P(o), "action property")
T(o) == TRUE
SetOccs(v) == Apply(DoSetArr(mo, "occs", v), T)
SetAmb(v) == Apply(DoSetArr(mo, "amb", v), T)
SpinP(which, v, o) == /\ (mo.kind = "generalized" => o.r = "NotImplementedError")
                      /\ (o.r = "ok" => SetSpinKeepsOtherS(mo, which, v, o.m))
SetA(v) == Apply(DoSetSpin(mo, "a", v), LAMBDA o : SpinP("a", v, o))
SetB(v) == Apply(DoSetSpin(mo, "b", v), LAMBDA o : SpinP("b", v, o))
SpinVals == UNION {SeqN(n) : n \in 1..MaxN}
Init == \E a \in Args : DoNew(a) = {Ok(a)} /\ mo = a /\ res = "ok"
Next == \/ \E v \in {None} \cup {Some(s) : s \in Vals} : SetOccs(v)
        \/ \E v \in {None} \cup {Some(s) : s \in AmbVals} : SetAmb(v)
        \/ \E v \in SpinVals : SetA(v)
        \/ \E v \in SpinVals : SetB(v)
Spec == Init /\ [][Next]_vars
Bound == TLCGet("level") <= Depth
Inv == StateInv(mo)

\* shells: shape rule and function count for all small cases
ShellCases == { [nang |-> a, nkind |-> k, nexp |-> e, rows |-> r, cols |-> c] : a \in 1..3, k \in 1..3, e \in 1..3, r \in 1..3, c \in 1..3 }
ASSUME \A c \in ShellCases : ShapeOK(c) <=> (c.nang = c.cols /\ c.nkind = c.cols /\ c.nexp = c.rows)
ASSUME \A l \in 0..9 : NFun(l, "c") = Cardinality({<<a, b>> \in (0..l) \X (0..l) : a + b <= l})
ASSUME \A l \in 2..9 : NFun(l, "p") = 2 * l + 1
ASSUME NFun(0, "p") < 0 /\ NFun(1, "p") < 0 /\ NFun(2, "x") < 0
====
