------------------------------ MODULE DumpFrame ------------------------------
(* Frame condition and return-value contract of dump_one / dump_many /        *)
(* write_input (property C09).  The caller's heap is abstracted to the set    *)
(* of paths (attribute / array / dictionary entry) whose content differs from *)
(* the content at the first call; repeated dumps of the same object are part  *)
(* of the model.                                                              *)
EXTENDS Integers, Sequences, FiniteSets, TLC
VARIABLES sc, n, changed, last
vars == <<sc, n, changed, last>>
Kinds == {"ok", "convertible", "fatal", "missing"}
Ops == {"dump_one", "dump_many", "write_input"}
Scenarios == [op : Ops, kind : Kinds, allow : BOOLEAN, repeats : 1..3]
WellFormed(s) == (s.op # "dump_one" => s.kind \in {"ok", "missing"}) /\ (s.op = "write_input" => s.kind = "ok")
NoCall == [out |-> "none", ret |-> "none", warned |-> FALSE, denoteSame |-> TRUE]
Init == sc \in Scenarios /\ WellFormed(sc) /\ n = 0 /\ changed = {} /\ last = NoCall

\* what one call does, as a function of the scenario (it never writes to the caller's heap)
Result(s) ==
  CASE s.kind = "ok" -> [out |-> "return", ret |-> IF s.op = "dump_one" THEN "same" ELSE "none", warned |-> FALSE, denoteSame |-> TRUE]
    [] s.kind = "convertible" /\ s.allow -> [out |-> "return", ret |-> "new", warned |-> TRUE, denoteSame |-> TRUE]
    [] OTHER -> [out |-> "PrepareDumpError", ret |-> "none", warned |-> FALSE, denoteSame |-> TRUE]
Dump == n < sc.repeats /\ n' = n + 1 /\ last' = Result(sc) /\ UNCHANGED <<sc, changed>>
Next == Dump
Spec == Init /\ [][Next]_vars

\* NOT in Next: a writer that edits the caller's data (e.g. appends to a list inside `extra`)
MutateCaller(path) == n < sc.repeats /\ changed' = changed \cup {path} /\ UNCHANGED <<sc, n, last>>

HeapFrozen == changed = {}
AsIsOrRefused == (~sc.allow /\ last.out # "none") => ((last.out = "return" /\ last.ret \in {"same", "none"} /\ ~last.warned)
                                                   \/ last.out = "PrepareDumpError")
ConversionAnnounced == last.ret = "new" => (last.warned /\ sc.allow /\ last.denoteSame)
SameObjectWhenNothingToConvert == (sc.kind = "ok" /\ sc.op = "dump_one" /\ last.out # "none") => last.ret = "same"
=============================================================================
