------------------------------ MODULE Orbitals ------------------------------
(* Abstract model of iodata.orbitals.MolecularOrbitals and of the shape rules *)
(* of iodata.basis.Shell (property C12).                                      *)
(* Occupations are integers in units of 2^-20 electron (One = 1048576), so    *)
(* that the halving of the natural-orbital heuristic stays exact over every   *)
(* bounded history.  Energies, irreps and coefficient columns are sequences   *)
(* of tags.  Optional values: <<>> = None, <<v>> = value.                     *)
EXTENDS Integers, Sequences, FiniteSets, TLC

None == <<>>
Some(v) == <<v>>
IsNone(o) == o = <<>>
Val(o) == o[1]
One == 1048576

RECURSIVE Sum(_)
Sum(s) == IF s = <<>> THEN 0 ELSE Head(s) + Sum(Tail(s))
Abs(x) == IF x < 0 THEN -x ELSE x
Min(a, b) == IF a < b THEN a ELSE b
Max(a, b) == IF a < b THEN b ELSE a
Clip01(x) == Max(0, Min(One, x))
IsInt(x) == x % One = 0                  \* an integer number of electrons
Zeros(n) == [i \in 1..n |-> 0]
Add(a, b) == [i \in 1..Len(a) |-> a[i] + b[i]]
Sub(a, b) == [i \in 1..Len(a) |-> a[i] - b[i]]

Kinds == {"restricted", "unrestricted", "generalized"}
ArrNames == {"occs", "amb", "en", "irr", "co"}

\* mo = [kind, norba : Opt(Nat), norbb : Opt(Nat), occs, amb, en, irr, co : Opt(Seq)]
VARIABLES mo, res
vars == <<mo, res>>

\* number of spatially distinct orbitals, Opt(Nat)
Norb(m) ==
  IF m.kind = "restricted" THEN m.norba
  ELSE IF m.kind = "unrestricted" THEN Some(Val(m.norba) + Val(m.norbb))
  ELSE IF ~IsNone(m.co) THEN Some(Len(Val(m.co)))
  ELSE IF ~IsNone(m.occs) THEN Some(Len(Val(m.occs)))
  ELSE IF ~IsNone(m.en) THEN Some(Len(Val(m.en)))
  ELSE IF ~IsNone(m.irr) THEN Some(Len(Val(m.irr)))
  ELSE None
NA(m) == Val(m.norba)

(* ---- documented derivation of the spin-resolved occupations ---- *)
OccsA(m) ==     \* Opt(Seq); only for restricted / unrestricted
  IF IsNone(m.occs) THEN None
  ELSE LET o == Val(m.occs) IN
    IF m.kind = "unrestricted" THEN Some(SubSeq(o, 1, NA(m)))
    ELSE IF ~IsNone(m.amb) THEN Some([i \in 1..Len(o) |-> (o[i] + Val(m.amb)[i]) \div 2])
    ELSE IF \A i \in 1..Len(o) : IsInt(o[i]) THEN Some([i \in 1..Len(o) |-> Clip01(o[i])])
    ELSE Some([i \in 1..Len(o) |-> o[i] \div 2])
OccsB(m) ==
  IF IsNone(m.occs) THEN None
  ELSE LET o == Val(m.occs) IN
    IF m.kind = "unrestricted" THEN Some(SubSeq(o, NA(m) + 1, Len(o)))
    ELSE IF ~IsNone(m.amb) THEN Some([i \in 1..Len(o) |-> (o[i] - Val(m.amb)[i]) \div 2])
    ELSE IF \A i \in 1..Len(o) : IsInt(o[i]) THEN Some([i \in 1..Len(o) |-> o[i] - Clip01(o[i])])
    ELSE Some([i \in 1..Len(o) |-> o[i] \div 2])
Nelec(m) == IF IsNone(m.occs) THEN None ELSE Some(Sum(Val(m.occs)))
\* the documented meaning: absolute difference of the alpha and beta totals
Spinpol(m) == IF IsNone(m.occs) THEN None ELSE Some(Abs(Sum(Val(OccsA(m))) - Sum(Val(OccsB(m)))))

\* documented slices of the per-orbital arrays
SliceA(m, arr) == IF IsNone(arr) THEN None
                  ELSE IF m.kind = "restricted" THEN arr ELSE Some(SubSeq(Val(arr), 1, NA(m)))
SliceB(m, arr) == IF IsNone(arr) THEN None
                  ELSE IF m.kind = "restricted" THEN arr ELSE Some(SubSeq(Val(arr), NA(m) + 1, Len(Val(arr))))

Obs(m) == IF m.kind = "generalized"
          THEN [kind |-> m.kind, occs |-> m.occs, amb |-> m.amb, nelec |-> Nelec(m), norb |-> Norb(m),
                en |-> m.en, irr |-> m.irr, co |-> m.co]
          ELSE [kind |-> m.kind, occs |-> m.occs, amb |-> m.amb, nelec |-> Nelec(m), norb |-> Norb(m),
                en |-> m.en, irr |-> m.irr, co |-> m.co,
                occsa |-> OccsA(m), occsb |-> OccsB(m), spinpol |-> Spinpol(m),
                ena |-> SliceA(m, m.en), enb |-> SliceB(m, m.en),
                irra |-> SliceA(m, m.irr), irrb |-> SliceB(m, m.irr),
                coa |-> SliceA(m, m.co), cob |-> SliceB(m, m.co)]

(* ---- operations: sets of outcomes [m |-> state, r |-> "ok" | "rejected" | "NotImplementedError"] ---- *)
Ok(m) == [m |-> m, r |-> "ok"]
Rej(m) == [m |-> m, r |-> "rejected"]
NotImpl(m) == [m |-> m, r |-> "NotImplementedError"]

\* construction: kinds, counts and array lengths must agree
CountsOK(kind, na, nb) ==
  /\ kind \in Kinds
  /\ IF kind = "generalized" THEN IsNone(na) /\ IsNone(nb)
     ELSE /\ ~IsNone(na) /\ ~IsNone(nb)
          /\ (kind = "restricted" => na = nb)
LensOK(m) == LET n == Norb(m) IN
  /\ \A a \in {m.occs, m.amb, m.en, m.irr, m.co} : (IsNone(a) \/ IsNone(n) \/ Len(Val(a)) = Val(n))
  /\ (~IsNone(m.amb) => m.kind = "restricted")
DoNew(a) == IF CountsOK(a.kind, a.norba, a.norbb) /\ LensOK(a) THEN {Ok(a)} ELSE {Rej(a)}

\* assignment of one of the per-orbital arrays (occs, amb, en, irr, co)
\* For generalized orbitals the array that alone fixes the number of orbitals may or may not be
\* allowed to change length (the statement is silent).
Others(m, name) == {n \in ArrNames \ {name} : ~IsNone(m[n])}
DoSetArr(m, name, v) ==
  IF IsNone(v) THEN {Ok([m EXCEPT ![name] = None])}
  ELSE IF name = "amb" /\ m.kind # "restricted" THEN {Rej(m)}
  ELSE LET n == Norb(m) IN
       IF IsNone(n) \/ Len(Val(v)) = Val(n) THEN {Ok([m EXCEPT ![name] = v])}
       ELSE IF m.kind = "generalized" /\ Others(m, name) = {} THEN {Ok([m EXCEPT ![name] = v]), Rej(m)}
       ELSE {Rej(m)}

\* v is a sequence (never None: the documented type of occsa/occsb is an array)
DoSetSpin(m, which, v) ==
  IF m.kind = "generalized" THEN {NotImpl(m)}
  ELSE IF m.kind = "restricted" THEN
     IF Len(v) # NA(m) THEN {Rej(m)}
     ELSE LET other == IF which = "a" THEN OccsB(m) ELSE OccsA(m)
              oth == IF IsNone(other) THEN Zeros(Len(v)) ELSE Val(other)
              a == IF which = "a" THEN v ELSE oth
              b == IF which = "a" THEN oth ELSE v
          IN {Ok([m EXCEPT !.occs = Some(Add(a, b)), !.amb = Some(Sub(a, b))])}
  ELSE \* unrestricted: assignment of a slice needs existing occupations
     IF IsNone(m.occs) THEN {Rej(m)}
     ELSE IF Len(v) # (IF which = "a" THEN NA(m) ELSE Val(m.norbb)) THEN {Rej(m)}
     ELSE LET o == Val(m.occs) IN
          {Ok([m EXCEPT !.occs = Some([i \in 1..Len(o) |->
                 IF which = "a" THEN (IF i <= NA(m) THEN v[i] ELSE o[i])
                 ELSE (IF i <= NA(m) THEN o[i] ELSE v[i - NA(m)])])])}

(* ---- state invariants (C12) on a state record ---- *)
SpinSumS(m) == (m.kind # "generalized" /\ ~IsNone(m.occs)) =>
   IF m.kind = "restricted" THEN Add(Val(OccsA(m)), Val(OccsB(m))) = Val(m.occs)
   ELSE Val(OccsA(m)) \o Val(OccsB(m)) = Val(m.occs)
NelecS(m) == ~IsNone(m.occs) =>
   (Nelec(m) = Some(Sum(Val(m.occs))) /\
    (m.kind # "generalized" => Val(Nelec(m)) = Sum(Val(OccsA(m))) + Sum(Val(OccsB(m)))))
SpinpolS(m) == (m.kind # "generalized" /\ ~IsNone(m.occs)) =>
   (Val(Spinpol(m)) >= 0 /\ Val(Spinpol(m)) = Abs(Sum(Val(OccsA(m))) - Sum(Val(OccsB(m)))))
LenS(m) == CountsOK(m.kind, m.norba, m.norbb) /\ LensOK(m)
SlicesS(m) == m.kind = "unrestricted" =>
   \A arr \in {m.en, m.irr, m.co} : ~IsNone(arr) =>
        Val(SliceA(m, arr)) \o Val(SliceB(m, arr)) = Val(arr) /\ Len(Val(SliceA(m, arr))) = NA(m)
StateInv(m) == SpinSumS(m) /\ NelecS(m) /\ SpinpolS(m) /\ LenS(m) /\ SlicesS(m)

\* "assigning alpha (beta) occupations reads back as assigned and leaves the other spin unchanged"
SetSpinKeepsOtherS(m, which, v, m2) ==
  LET oldA == IF IsNone(OccsA(m)) THEN Zeros(Len(v)) ELSE Val(OccsA(m))
      oldB == IF IsNone(OccsB(m)) THEN Zeros(Len(v)) ELSE Val(OccsB(m))
  IN IF which = "a" THEN (Val(OccsA(m2)) = v /\ Val(OccsB(m2)) = oldB)
     ELSE (Val(OccsB(m2)) = v /\ Val(OccsA(m2)) = oldA)

(* ---- un-restriction (convert_to_unrestricted, property C14) ---- *)
Twice(a) == IF IsNone(a) THEN None ELSE Some(Val(a) \o Val(a))
Unrestrict(m) == [kind |-> "unrestricted", norba |-> m.norba, norbb |-> m.norbb,
                  occs |-> IF IsNone(m.occs) THEN None ELSE Some(Val(OccsA(m)) \o Val(OccsB(m))),
                  amb |-> None, en |-> Twice(m.en), irr |-> Twice(m.irr), co |-> Twice(m.co)]
\* outcome of convert_to_unrestricted: the same object, a new object, or a refusal
DoUnrestrict(m) == IF m.kind = "generalized" THEN [r |-> "rejected", m |-> m]
                   ELSE IF m.kind = "unrestricted" THEN [r |-> "same", m |-> m]
                   ELSE [r |-> "new", m |-> Unrestrict(m)]
\* the conversion preserves everything the property lists
UnrestrictPreserves(m) == LET u == Unrestrict(m) IN
  /\ OccsA(u) = OccsA(m) /\ OccsB(u) = OccsB(m) /\ Nelec(u) = Nelec(m) /\ Spinpol(u) = Spinpol(m)
  /\ SliceA(u, u.en) = m.en /\ SliceB(u, u.en) = m.en /\ SliceA(u, u.irr) = m.irr /\ SliceB(u, u.irr) = m.irr
  /\ SliceA(u, u.co) = m.co /\ SliceB(u, u.co) = m.co
  /\ DoUnrestrict(u) = [r |-> "same", m |-> u]          \* idempotent
  /\ StateInv(u)

(* ---- shells ---- *)
\* a shell case: [nang, nkind, nexp, rows, cols : Nat, ang : Seq(Nat), kinds : Seq(STRING)]
ShapeOK(c) == c.nang = c.cols /\ c.nkind = c.cols /\ c.nexp = c.rows
NFun(l, k) == IF k = "c" THEN ((l + 1) * (l + 2)) \div 2
              ELSE IF k = "p" /\ l >= 2 THEN 2 * l + 1 ELSE -1
KindsLegal(c) == \A i \in 1..Len(c.ang) : NFun(c.ang[i], c.kinds[i]) >= 0
RECURSIVE NBasis(_, _)
NBasis(ang, kinds) == IF ang = <<>> THEN 0 ELSE NFun(Head(ang), Head(kinds)) + NBasis(Tail(ang), Tail(kinds))
=============================================================================
