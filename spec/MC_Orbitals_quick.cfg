SPECIFICATION Spec
CONSTANTS
  MaxN = 2
  Depth = 2
INVARIANT Inv
CONSTRAINT Bound
CHECK_DEADLOCK FALSE
