---------------------------- MODULE Conventions ----------------------------
(* Signed permutations of basis-function labels (property C10).             *)
(* A label is a 4-tuple of integers:                                        *)
(*    <<0, a, b, c>>  Cartesian x^a y^b z^c                                 *)
(*    <<1, t, m, 0>>  pure: t = 0 for c_m (cosine), t = 1 for s_m (sine)    *)
(*    <<2, i, 0, 0>>  a string that is not a legal label (i = string id)    *)
(* A convention entry is [lab |-> label, sgn |-> 1 | -1]; a convention for  *)
(* one shell type is a sequence of entries.                                 *)
EXTENDS Integers, Sequences, FiniteSets, TLC

CanonCart(l) == {<<0, a, b, l - a - b>> : a \in 0..l, b \in 0..l} \cap
                {<<0, a, b, c>> : a \in 0..l, b \in 0..l, c \in 0..l}
CanonPure(l) == {<<1, 0, 0, 0>>} \cup {<<1, t, m, 0>> : t \in {0, 1}, m \in 1..l}
Canon(l, kind) == IF kind = "c" THEN CanonCart(l) ELSE CanonPure(l)

Labels(conv) == {conv[i].lab : i \in 1..Len(conv)}
NoDup(conv) == \A i, j \in 1..Len(conv) : i # j => conv[i].lab # conv[j].lab
\* "lists each function of the shell type exactly once"
WellFormed(conv, l, kind) ==
  /\ kind \in {"c", "p"} /\ (kind = "p" => l >= 2)
  /\ NoDup(conv) /\ Labels(conv) = Canon(l, kind)
  /\ \A i \in 1..Len(conv) : conv[i].sgn \in {1, -1}
\* "two conventions that name the same functions"
Compatible(c1, c2) == Len(c1) = Len(c2) /\ NoDup(c1) /\ NoDup(c2) /\ Labels(c1) = Labels(c2)

Pos(conv, lab) == CHOOSE i \in 1..Len(conv) : conv[i].lab = lab
\* vector2[i] = vector1[src[i]] * sgn[i]: the function labelled X moves to the position labelled X
\* with the product of the two label signs
Convert(c1, c2) ==
  [i \in 1..Len(c2) |-> LET j == Pos(c1, c2[i].lab) IN [src |-> j, sgn |-> c1[j].sgn * c2[i].sgn]]
\* the reverse flag of the code: vector1 = vector2[src] * sgn
ConvertDir(c1, c2, rev) == IF rev THEN Convert(c2, c1) ELSE Convert(c1, c2)

ApplySP(sp, v) == [i \in 1..Len(sp) |-> v[sp[i].src] * sp[i].sgn]
ComposeSP(sp2, sp1) == \* first sp1 then sp2
  [i \in 1..Len(sp2) |-> [src |-> sp1[sp2[i].src].src, sgn |-> sp2[i].sgn * sp1[sp2[i].src].sgn]]
IdSP(n) == [i \in 1..n |-> [src |-> i, sgn |-> 1]]
IsSignedPerm(sp) == /\ {sp[i].src : i \in 1..Len(sp)} = 1..Len(sp)
                    /\ \A i \in 1..Len(sp) : sp[i].sgn \in {1, -1}

\* whole basis: blocks = <<l, kind>> of every contraction of every shell, in storage order;
\* C1, C2 = sequences of [l, kind, conv]
Lookup(C, b) == LET S == {i \in 1..Len(C) : C[i].l = b[1] /\ C[i].kind = b[2]} IN
                IF S = {} THEN <<>> ELSE <<C[CHOOSE i \in S : TRUE].conv>>
HasAll(C, blocks) == \A k \in 1..Len(blocks) : Lookup(C, blocks[k]) # <<>>
BasisCompatible(blocks, C1, C2) ==
  /\ HasAll(C1, blocks) /\ HasAll(C2, blocks)
  /\ \A k \in 1..Len(blocks) : Compatible(Lookup(C1, blocks[k])[1], Lookup(C2, blocks[k])[1])
RECURSIVE ConvertBasis(_, _, _, _, _)
ConvertBasis(blocks, C1, C2, rev, offset) ==
  IF blocks = <<>> THEN <<>>
  ELSE LET b == Head(blocks)
           sp == ConvertDir(Lookup(C1, b)[1], Lookup(C2, b)[1], rev)
       IN [i \in 1..Len(sp) |-> [src |-> sp[i].src + offset, sgn |-> sp[i].sgn]]
          \o ConvertBasis(Tail(blocks), C1, C2, rev, offset + Len(sp))
=============================================================================
