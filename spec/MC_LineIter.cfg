INIT Init
NEXT Next
CONSTANT NLines = 3
CONSTANT MaxStack = 3
CONSTRAINT Bound
INVARIANT LinenoLaw
INVARIANT StackIsFileSegment
INVARIANT DeliversInOrder
INVARIANT NothingAfterEnd
INVARIANT LinenoInFile
CHECK_DEADLOCK FALSE
