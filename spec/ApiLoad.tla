------------------------------ MODULE ApiLoad ------------------------------
(* load_one / load_many as a protocol over one file made of frames           *)
(* (properties C07, load side of C13).                                       *)
(*   Select -> OpenR -> (Parse ; [yield ; Resume | Discard])* -> CloseR      *)
EXTENDS Integers, Sequences, FiniteSets, TLC
VARIABLES sc, pc, fd, yielded, out, warned, opened
vars == <<sc, pc, fd, yielded, out, warned, opened>>
\* sc = [many, sel, frames : Seq({"ok","bad","cut"}), cutWarns : BOOLEAN, discardAfter : 0..n]
\*   "cut" may only be the last frame; cutWarns: the format documents a warning for a cut last frame
\*   discardAfter = k > 0: the consumer drops the frame iterator after k frames
\*   neverStarted: the consumer drops the frame iterator without ever asking for a frame
SelKinds == {"match", "nomatch", "explicit", "unknown", "unsupported"}
Init0 == pc = "start" /\ fd = FALSE /\ yielded = 0 /\ out = "none" /\ warned = FALSE /\ opened = FALSE
Done(o) == pc' = "done" /\ out' = o
Select ==
  /\ pc = "start"
  /\ IF sc.sel \in {"nomatch", "unknown", "unsupported"}
     THEN Done("FileFormatError") /\ UNCHANGED <<sc, fd, yielded, warned, opened>>
     ELSE pc' = "open" /\ UNCHANGED <<sc, fd, yielded, out, warned, opened>>
OpenR == pc = "open" /\ fd' = TRUE /\ opened' = TRUE /\ pc' = "parse" /\ UNCHANGED <<sc, yielded, out, warned>>
\* the reader works on frame yielded+1
Parse ==
  /\ pc = "parse" /\ ~sc.neverStarted
  /\ LET i == yielded + 1 IN
     IF i > Len(sc.frames) THEN          \* clean end of file at a frame boundary
        /\ pc' = "closing" /\ UNCHANGED <<sc, fd, yielded, warned, opened>>
        /\ out' = IF sc.many \/ yielded > 0 THEN "return" ELSE "LoadError"   \* load_one of an empty file
     ELSE IF sc.frames[i] = "ok" \/ (sc.frames[i] = "cut" /\ sc.cutWarns) THEN
        /\ yielded' = i /\ warned' = (warned \/ sc.frames[i] = "cut")
        /\ pc' = IF sc.many THEN "yielded" ELSE "closing"
        /\ out' = IF sc.many THEN out ELSE "return"
        /\ UNCHANGED <<sc, fd, opened>>
     ELSE pc' = "closing" /\ out' = "LoadError" /\ UNCHANGED <<sc, fd, yielded, warned, opened>>
\* the consumer either asks for the next frame or discards the iterator
Resume == pc = "yielded" /\ sc.discardAfter # yielded /\ pc' = "parse" /\ UNCHANGED <<sc, fd, yielded, out, warned, opened>>
Discard == pc = "yielded" /\ sc.discardAfter = yielded /\ pc' = "closing" /\ out' = "discarded"
           /\ UNCHANGED <<sc, fd, yielded, warned, opened>>
\* an iterator that is dropped before its first frame: whatever was opened so far is closed
DiscardUnstarted == /\ sc.neverStarted /\ sc.many /\ yielded = 0 /\ pc \in {"open", "parse"}
                    /\ out' = "discarded" /\ pc' = (IF fd THEN "closing" ELSE "done")
                    /\ UNCHANGED <<sc, fd, yielded, warned, opened>>
CloseR == pc = "closing" /\ fd' = FALSE /\ pc' = "done" /\ UNCHANGED <<sc, yielded, out, warned, opened>>
Next == Select \/ OpenR \/ Parse \/ Resume \/ Discard \/ DiscardUnstarted \/ CloseR
(* properties: C07 / C13 load side *)
NoLeakedFd == pc = "done" => ~fd
FormatErrorTouchesNothing == out = "FileFormatError" => ~opened
OutcomeClass == out \in {"none", "return", "discarded", "LoadError", "FileFormatError"}
PrefixInOrder == yielded <= Len(sc.frames)
NeverSkips == (pc = "done" /\ out = "return" /\ sc.many) =>
                 (yielded = Len(sc.frames) /\ \A i \in 1..yielded : sc.frames[i] = "ok" \/ (sc.frames[i] = "cut" /\ warned))
BadFrameIsLoadError == (pc = "done" /\ opened /\ out # "discarded" /\
                        \E i \in 1..Len(sc.frames) : (sc.frames[i] = "bad" \/ (sc.frames[i] = "cut" /\ ~sc.cutWarns))
                                                     /\ (sc.many \/ i = 1) /\ \A j \in 1..(i-1) : sc.frames[j] = "ok")
                       => (out = "LoadError" \/ (~sc.many /\ out = "return" /\ sc.frames[1] = "ok"))
NoPartialWithoutNotice == \A i \in 1..yielded : sc.frames[i] = "ok" \/ (sc.frames[i] = "cut" /\ warned)
=============================================================================
