SPECIFICATION Spec
CONSTANT Free = {"fragments", "fragment_charges", "fragment_multiplicities", "masses", "mass_numbers", "real", "name", "validated", "id", "x_custom_scalar", "molecular_charge", "provenance"}
CONSTANT Fixed = {"schema_name", "schema_version", "molecular_multiplicity"}
INVARIANT NothingDropped
INVARIANT ReloadKeepsPlaces
INVARIANT ReloadAddsOnlyDefaults
CHECK_DEADLOCK FALSE
