SPECIFICATION Spec
CONSTANT MaxShells = 3
INVARIANT ConversionPreservesDenotation
CHECK_DEADLOCK FALSE
