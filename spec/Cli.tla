--------------------------------- MODULE Cli ---------------------------------
(* iodata-convert as a composition of the API steps (property C18).            *)
(*   ParseArgs -> Load (load_one | load_many) -> Dump (dump_one | dump_many)   *)
(*   -> Exit(code).  The same composition run through the Python API is the    *)
(* reference: the CLI may add failures of its own (argument errors, the        *)
(* floating-point trap it installs) but never a success the API would not have *)
(* produced, and never different bytes.                                        *)
EXTENDS Integers, Sequences, FiniteSets, TLC
VARIABLES sc, pc, file, code, msg
vars == <<sc, pc, file, code, msg>>
LoadOutcomes == {"ok", "LoadError", "FileFormatError"}
DumpOutcomes == {"ok", "PrepareDumpError", "DumpError", "FileFormatError"}
Scenarios == [load : LoadOutcomes, dump : DumpOutcomes, many : BOOLEAN, existed : BOOLEAN,
              cliOnlyFailure : {"none", "args", "fptrap-load", "fptrap-dump"}]
File0 == IF sc.existed THEN "old" ELSE "absent"
\* what the API composition does with the output file
ApiOut == IF sc.load # "ok" THEN sc.load ELSE IF sc.dump = "ok" THEN "return" ELSE sc.dump
ApiFile == IF sc.load # "ok" /\ ~sc.many THEN File0        \* load_one fails before dump_one is called
           ELSE IF sc.load # "ok" THEN File0                \* load_many: the first frame is pulled before open
           ELSE IF sc.dump \in {"PrepareDumpError", "FileFormatError"} THEN File0
           ELSE IF sc.dump = "DumpError" THEN "partial" ELSE "api-bytes"
Init == sc \in Scenarios /\ pc = "parse" /\ file = File0 /\ code = -1 /\ msg = FALSE
Fail(f) == pc' = "exit" /\ code' = 1 /\ msg' = TRUE /\ file' = f
ParseArgs == pc = "parse" /\ IF sc.cliOnlyFailure = "args" THEN Fail(file) /\ UNCHANGED sc
                             ELSE pc' = "load" /\ UNCHANGED <<sc, file, code, msg>>
Load == pc = "load" /\ IF sc.load # "ok" \/ sc.cliOnlyFailure = "fptrap-load" THEN Fail(file) /\ UNCHANGED sc
                       ELSE pc' = "dump" /\ UNCHANGED <<sc, file, code, msg>>
Dump == pc = "dump" /\ IF sc.dump \in {"PrepareDumpError", "FileFormatError"} THEN Fail(file) /\ UNCHANGED sc
                       ELSE IF sc.dump = "DumpError" \/ sc.cliOnlyFailure = "fptrap-dump" THEN Fail("partial") /\ UNCHANGED sc
                       ELSE pc' = "exit" /\ code' = 0 /\ file' = "api-bytes" /\ UNCHANGED <<sc, msg>>
Next == ParseArgs \/ Load \/ Dump
Spec == Init /\ [][Next]_vars /\ WF_vars(Next)
Exited == pc = "exit"
CliEqualsApi == (Exited /\ code = 0) => (ApiOut = "return" /\ file = "api-bytes")
NoFalseSuccess == (Exited /\ ApiOut # "return") => code # 0
FailureNamesProblem == (Exited /\ code # 0) => msg
PreflightSparesOutput == (Exited /\ ApiFile = File0 /\ sc.cliOnlyFailure \in {"none", "args", "fptrap-load"}) => file = File0
Terminates == <>Exited
=============================================================================
