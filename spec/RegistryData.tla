---- MODULE RegistryData ----
(* PLACEHOLDER: regenerated from the live code by vf/props/c17.py on every run. *)
Registry == << [name |-> "xyz", ops |-> {"load_one"}, decl |-> [load_one |-> [guaranteed |-> <<"atnums">>, ifpresent |-> <<>>, required |-> <<>>, optional |-> <<>>]]] >>
IODataAttrs == {"atnums"}
RealisedSigs == {{}, {1}}
====
