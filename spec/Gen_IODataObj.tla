---- MODULE Gen_IODataObj ----
(* IODataObj with a `last` variable naming the operation just performed: behaviours produced by  *)
(* `tlc -simulate file=...` are replayed into the real class (spec -> code).                     *)
EXTENDS IODataObj
VARIABLE last
gvars == <<vars, last>>
gAtn == { <<1>>, <<1,8>>, <<6,1>>, <<8>>, <<>> }
gCore == { <<4>>, <<2>>, <<0,32>>, <<4,23>> }
gQ == { -4, 2, 4, 0 }
gNe == { 0, 6, 36, 40 }
gSp == { 4, 0, 8 }
gMo == { [n |-> <<>>, s |-> <<>>], [n |-> <<12>>, s |-> <<4>>] }
gLen == {0, 1, 2}
L(op, a, v) == last' = [op |-> op, a |-> a, v |-> v]
GInit == Init /\ last = [op |-> "Init", a |-> "", v |-> <<>>]
GNext == \/ \E v \in Opt(AtnVals) : SetAtn(v) /\ L("SetAtn", "", v)
         \/ \E v \in Opt(CoreVals) : SetCore(v) /\ L("SetCore", "", v)
         \/ \E v \in Opt(QVals) : SetCharge(v) /\ L("SetCharge", "", v)
         \/ \E v \in Opt(NeVals) : SetNelec(v) /\ L("SetNelec", "", v)
         \/ \E v \in Opt(SpVals) : SetSpinpol(v) /\ L("SetSpinpol", "", v)
         \/ \E v \in Opt(MoVals) : SetMo(v) /\ L("SetMo", "", v)
         \/ \E a \in Arr, v \in Opt(LenVals) : SetLen(a, v) /\ L("SetLen", a, v)
         \/ \E p \in Props : Read(p) /\ L("Read", p, <<>>)
GSpec == GInit /\ [][GNext]_gvars
====
