---- MODULE MC_Conventions ----
(* Algebraic laws of Convert over ALL signed permutations of n <= NMax labels. *)
EXTENDS Conventions
CONSTANT NMax
Perms(n) == {p \in [1..n -> 1..n] : \A i, j \in 1..n : i # j => p[i] # p[j]}
Lab(n) == [i \in 1..n |-> <<2, i, 0, 0>>]
Convs(n) == {[i \in 1..n |-> [lab |-> Lab(n)[p[i]], sgn |-> s[i]]] : p \in Perms(n), s \in [1..n -> {1, -1}]}
Vec(n) == [i \in 1..n |-> 10 * i + 1]
\* value of the function labelled `lab`, in unsigned (canonical) terms
TrueVal(conv, v, lab) == LET i == Pos(conv, lab) IN v[i] * conv[i].sgn
Laws(n) ==
  \A c1 \in Convs(n), c2 \in Convs(n) :
    LET sp == Convert(c1, c2)
        v2 == ApplySP(sp, Vec(n)) IN
    /\ Compatible(c1, c2)
    /\ IsSignedPerm(sp)
    /\ \A i \in 1..n : TrueVal(c2, v2, Lab(n)[i]) = TrueVal(c1, Vec(n), Lab(n)[i])   \* label moves with sign product
    /\ ComposeSP(Convert(c2, c1), sp) = IdSP(n)                          \* there and back
    /\ ApplySP(ConvertDir(c1, c2, TRUE), v2) = Vec(n)                    \* reverse flag
    /\ (c1 = c2 => sp = IdSP(n))
Compose3(n) == \A c1 \in Convs(n), c2 \in Convs(n), c3 \in Convs(n) :
    ComposeSP(Convert(c2, c3), Convert(c1, c2)) = Convert(c1, c3)
ASSUME \A n \in 1..NMax : Laws(n)
ASSUME \A n \in 1..(IF NMax > 3 THEN 3 ELSE NMax) : Compose3(n)
ASSUME PrintT(<<"laws hold for all signed permutations up to n =", NMax, "conventions:", Cardinality(Convs(NMax))>>)
\* canonical label sets have the right sizes
ASSUME \A l \in 0..9 : Cardinality(CanonCart(l)) = ((l + 1) * (l + 2)) \div 2
ASSUME \A l \in 2..9 : Cardinality(CanonPure(l)) = 2 * l + 1
\* malformed conventions are not Compatible: drop / duplicate / foreign label
ASSUME \A c \in Convs(3) :
         /\ ~Compatible(c, SubSeq(c, 1, 2))
         /\ ~Compatible(c, [c EXCEPT ![1].lab = c[2].lab])
         /\ ~Compatible(c, [c EXCEPT ![1].lab = <<2, 99, 0, 0>>])
\* ---- the same laws as a state machine: the pair (c1, c2) walks the Cayley graph of the signed
\* permutation group (adjacent transpositions and single sign flips applied to c2) ----
VARIABLES c1, c2
Swap(c, i) == [c EXCEPT ![i] = c[i + 1], ![i + 1] = c[i]]
Flip(c, i) == [c EXCEPT ![i].sgn = 0 - c[i].sgn]
Init == c1 \in Convs(NMax) /\ c2 = c1
Next == /\ UNCHANGED c1
        /\ \/ \E i \in 1..(NMax - 1) : c2' = Swap(c2, i)
           \/ \E i \in 1..NMax : c2' = Flip(c2, i)
PairLaws == LET n == NMax
                sp == Convert(c1, c2)
                v2 == ApplySP(sp, Vec(n)) IN
    /\ Compatible(c1, c2) /\ IsSignedPerm(sp)
    /\ \A i \in 1..n : TrueVal(c2, v2, Lab(n)[i]) = TrueVal(c1, Vec(n), Lab(n)[i])
    /\ ComposeSP(Convert(c2, c1), sp) = IdSP(n)
    /\ ApplySP(ConvertDir(c1, c2, TRUE), v2) = Vec(n)
\* converting A to B to C equals converting A to C, along every edge B -> C of the graph
Composition == [][ComposeSP(Convert(c2, c2'), Convert(c1, c2)) = Convert(c1, c2')]_<<c1, c2>>
====
