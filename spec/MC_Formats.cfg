SPECIFICATION Spec
INVARIANT Sorted
INVARIANT IsPerm
INVARIANT Stable
PROPERTY SecondCycleIdentity
CHECK_DEADLOCK FALSE
