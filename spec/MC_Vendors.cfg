SPECIFICATION Spec
INVARIANT StandardNeedsNoFix
INVARIANT CascadeCompleteForVendor
INVARIANT CascadeSound
INVARIANT NoFixOnlyIfIdentity
CHECK_DEADLOCK FALSE
