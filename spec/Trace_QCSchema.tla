---- MODULE Trace_QCSchema ----
(* Recorded executions on generated QCSchema molecule documents: [op: "QCDoc", keys, out, warned, placed : key -> place, *)
(* redump, reload_same].  Validated against QCSchema.tla.                                                              *)
EXTENDS QCSchema, Json, IOUtils, TLCExt
Traces == JsonDeserialize(IOEnv.TRACE_FILE)
N == Len(Traces)
VARIABLES tid, l
tvars == <<vars, tid, l>>
ASSUME \A t \in 1..N : TLCSet(t, 0)
TInit == tid \in 1..N /\ l = 1 /\ doc = {} /\ obj = {} /\ doc2 = {} /\ obj2 = {} /\ pc = "trace"
ToSet(s) == {s[i] : i \in 1..Len(s)}
\* C03 / C07: outcome class, warnings exactly for the omissions the documentation tolerates, every value where the table says
LoadedOK(e) == LET d == ToSet(e.keys) IN
  /\ e.out = Outcome(d)
  /\ (e.out = "loaded" => /\ e.warned = Warns(d)
                          /\ \A k \in d : e.placed[k] = Place(d, k))
\* C02 / C15: an object loaded from a document of the documented domain can be written, and reads back unchanged
CycleOK(e) == LET d == ToSet(e.keys) IN
  (e.out = "loaded" /\ Consistent(d)) => (e.redump = "ok" /\ e.reload_same)
\* input / output documents: outcome class by the required keys, every value where the table says; written and read back unchanged
LoadedIOOK(e) == LET d == ToSet(e.keys) IN
  /\ e.out = OutcomeIO(e.kind, d)
  /\ (e.out = "loaded" => \A k \in d : e.placed[k] = PlaceIO(e.kind, k))
CycleIOOK(e) == e.out = "loaded" => (e.redump = "ok" /\ e.reload_same)
Step ==
  /\ l <= Len(Traces[tid])
  /\ LET e == Traces[tid][l] IN
       (IF e.kind = "molecule" THEN (IF IOEnv.QC_RULE = "cycle" THEN CycleOK(e) ELSE LoadedOK(e))
        ELSE (IF IOEnv.QC_RULE = "cycle" THEN CycleIOOK(e) ELSE LoadedIOOK(e))) = TRUE
  /\ l' = l + 1 /\ UNCHANGED <<vars, tid>>
  /\ TLCSet(tid, IF TLCGet(tid) < l THEN l ELSE TLCGet(tid))
TSpec == TInit /\ [][Step]_tvars
Report == \A t \in 1..N : PrintT(<<"RESULT", t, TLCGet(t), Len(Traces[t])>>)
====
