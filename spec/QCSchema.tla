------------------------------ MODULE QCSchema ------------------------------
(* QCSchema molecule documents (json_qcschema.py, documentation tables in the module docstring): which keys a       *)
(* document may carry, what the loader does with each (IOData attribute, extra["molecule"][...], pass-through),     *)
(* which omissions are errors and which are warnings, and that nothing a document says is dropped.                   *)
(* Used by C03 (loaded values are what the file says), C02 / C15 (an object loaded from a document can be written    *)
(* and read back unchanged) and C07 (outcome classes).                                                               *)
EXTENDS Integers, Sequences, FiniteSets, TLC
Topology == {"symbols", "geometry"}                                   \* without these there is no molecule: LoadError
ShouldHave == {"schema_name", "schema_version", "provenance", "molecular_charge", "molecular_multiplicity"}   \* warning + default
Optional == {"atom_labels", "atomic_numbers", "comment", "connectivity", "extras", "fix_symmetry", "fragments", "fragment_charges",
             "fragment_multiplicities", "id", "identifiers", "real", "mass_numbers", "masses", "name", "fix_com", "fix_orientation",
             "validated"}
Unknown == {"x_custom_scalar", "x_custom_list"}                        \* keys the schema does not know: passed through
MolKeys == Topology \cup ShouldHave \cup Optional
AllKeys == MolKeys \cup Unknown
\* a document is in the documented domain when per-fragment data comes with the fragments it describes
Consistent(doc) == ({"fragment_charges", "fragment_multiplicities"} \cap doc # {}) => "fragments" \in doc

\* where the value of a key of the document is found on the loaded object
Place(doc, k) ==
  CASE k = "symbols" -> "attr:atnums"
    [] k = "geometry" -> "attr:atcoords"
    [] k = "molecular_charge" -> "attr:charge"
    [] k = "molecular_multiplicity" -> "attr:spinpol"                  \* multiplicity - 1
    [] k = "real" -> "attr:atcorenums"                                 \* ghost atoms have core charge 0
    [] k = "masses" -> IF "mass_numbers" \in doc THEN "extra:masses" ELSE "attr:atmasses"          \* u -> atomic units
    [] k = "mass_numbers" -> IF "masses" \in doc THEN "extra:mass_numbers" ELSE "attr:atmasses"
    [] k = "connectivity" -> "attr:bonds"
    [] k = "fix_symmetry" -> "attr:g_rot"
    [] k = "name" -> "attr:title"
    [] k = "fragments" -> "extra:fragments.indices"
    [] k = "fragment_charges" -> "extra:fragments.charges"
    [] k = "fragment_multiplicities" -> "extra:fragments.multiplicities"
    [] k = "validated" -> "extra:qcel_validated"
    [] k \in {"schema_name", "schema_version", "provenance"} -> "extra:" \o k
    [] k \in Unknown -> "extra:unparsed." \o k
    [] OTHER -> "extra:" \o k
Outcome(doc) == IF Topology \subseteq doc THEN "loaded" ELSE "LoadError"
Warns(doc) == (ShouldHave \ doc # {}) \/ ({"masses", "mass_numbers"} \subseteq doc)
\* defaults the documentation states for omitted keys
DefaultOf(k) == CASE k = "molecular_charge" -> "0" [] k = "molecular_multiplicity" -> "1" [] OTHER -> "none"

(* ---- input and output documents (a molecule document nested under "molecule") ---- *)
InRequired == {"molecule", "driver", "model"}
InOptional == {"schema_name", "schema_version", "keywords", "extras", "id", "protocols", "provenance"}
OutRequired == {"provenance", "properties", "success", "return_result"}
OutOptional == {"error", "stderr", "stdout", "wavefunction"}
IOUnknown == {"x_custom_in"}
IOKeys(kind) == InRequired \cup InOptional \cup IOUnknown \cup (IF kind = "output" THEN OutRequired \cup OutOptional ELSE {})
PlaceIO(kind, k) ==
  CASE k = "molecule" -> "attr:atnums"                                   \* the nested molecule is loaded as the molecule
    [] k = "model" -> "attr:lot"                                         \* method -> lot, basis -> obasis_name
    [] k = "protocols" -> "extra:input.protocols"                        \* keys prefixed with keep_
    [] k \in {"driver", "keywords", "extras", "id", "provenance", "schema_name", "schema_version"} -> "extra:input." \o k
    [] k \in IOUnknown -> "extra:input.unparsed." \o k
    [] k = "provenance" /\ kind = "output" -> "extra:input.provenance"
    [] OTHER -> "extra:output." \o k                                     \* properties, success, return_result, error, stderr, stdout, wavefunction
OutcomeIO(kind, doc) == IF InRequired \subseteq doc /\ (kind = "output" => OutRequired \subseteq doc) THEN "loaded" ELSE "LoadError"
\* distinct keys never share a place, whatever subset is present
ASSUME \A kind \in {"input", "output"} : \A a, b \in IOKeys(kind) : a # b => PlaceIO(kind, a) # PlaceIO(kind, b)

(* ---- the abstract loader / writer pair, for TLC ---- *)
\* the object as the set of places that hold a value
Load(doc) == {Place(doc, k) : k \in doc}
\* the key a place is written back to
KeyOf(place, obj) ==
  CASE place = "attr:atnums" -> "symbols" [] place = "attr:atcoords" -> "geometry" [] place = "attr:charge" -> "molecular_charge"
    [] place = "attr:spinpol" -> "molecular_multiplicity" [] place = "attr:atcorenums" -> "real" [] place = "attr:atmasses" -> "masses"
    [] place = "attr:bonds" -> "connectivity" [] place = "attr:g_rot" -> "fix_symmetry" [] place = "attr:title" -> "name"
    [] place = "extra:fragments.indices" -> "fragments" [] place = "extra:fragments.charges" -> "fragment_charges"
    [] place = "extra:fragments.multiplicities" -> "fragment_multiplicities" [] place = "extra:qcel_validated" -> "validated"
    [] place = "extra:unparsed.x_custom_scalar" -> "x_custom_scalar" [] place = "extra:unparsed.x_custom_list" -> "x_custom_list"
    [] place = "extra:masses" -> "masses" [] place = "extra:mass_numbers" -> "mass_numbers"
    [] OTHER -> SubSeq(place, 7, Len(place))
Dump(obj) == {KeyOf(p, obj) : p \in obj} \cup {"real", "provenance", "schema_name", "schema_version"}

CONSTANTS Free, Fixed        \* the bounded model varies the keys in Free and always includes those in Fixed
VARIABLES doc, obj, doc2, obj2, pc
vars == <<doc, obj, doc2, obj2, pc>>
Docs == {d \in {Topology \cup Fixed \cup s : s \in SUBSET Free} : Consistent(d)}
Init == doc \in Docs /\ obj = {} /\ doc2 = {} /\ obj2 = {} /\ pc = "file"
DoLoad == pc = "file" /\ obj' = Load(doc) /\ pc' = "object" /\ UNCHANGED <<doc, doc2, obj2>>
DoDump == pc = "object" /\ doc2' = Dump(obj) /\ pc' = "file2" /\ UNCHANGED <<doc, obj, obj2>>
DoReload == pc = "file2" /\ obj2' = Load(doc2) /\ pc' = "done" /\ UNCHANGED <<doc, obj, doc2>>
Next == DoLoad \/ DoDump \/ DoReload
Spec == Init /\ [][Next]_vars
\* nothing the document says is dropped: every key has a place, distinct keys have distinct places
NothingDropped == pc # "file" => Cardinality(obj) = Cardinality(doc)
\* the object written and read again holds a value wherever it did before (mass numbers alone come back as masses: same place)
ReloadKeepsPlaces == pc = "done" => obj \subseteq obj2
\* and the only places that may appear are the ones the writer always fills in
ReloadAddsOnlyDefaults == pc = "done" => obj2 \ obj \subseteq {"attr:atcorenums", "extra:provenance", "extra:schema_name", "extra:schema_version"}
=============================================================================
