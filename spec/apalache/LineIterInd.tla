------------------------------ MODULE LineIterInd ------------------------------
(* Unbounded check of the inductive invariant of the line cursor (any file length, any stack depth) with Apalache:        *)
(*   Init => IndInv  (length 0)   and   IndInv /\ Next => IndInv'  (length 1).                                             *)
EXTENDS Integers, Sequences, Apalache
CONSTANT
  \* @type: Int;
  NLines
VARIABLES
  \* @type: Int;
  pos,
  \* @type: Seq(Int);
  stack,
  \* @type: Int;
  lineno,
  \* @type: Bool;
  open,
  \* @type: Int;
  lastLine,
  \* @type: Bool;
  disc
CInit == NLines \in 0..1000000
Init == pos = 0 /\ stack = <<>> /\ lineno = 0 /\ open = FALSE /\ lastLine = 0 /\ disc = TRUE
Enter == ~open /\ pos = 0 /\ open' = TRUE /\ UNCHANGED <<pos, stack, lineno, lastLine, disc>>
Exit == open /\ open' = FALSE /\ UNCHANGED <<pos, stack, lineno, lastLine, disc>>
NextLine ==
  /\ open
  /\ \/ /\ Len(stack) > 0
        /\ lastLine' = stack[Len(stack)] /\ stack' = SubSeq(stack, 1, Len(stack) - 1) /\ lineno' = lineno + 1 /\ UNCHANGED pos
     \/ /\ Len(stack) = 0 /\ pos < NLines
        /\ pos' = pos + 1 /\ lastLine' = pos + 1 /\ lineno' = lineno + 1 /\ UNCHANGED stack
     \/ /\ Len(stack) = 0 /\ pos = NLines /\ lastLine' = 0 /\ UNCHANGED <<pos, stack, lineno>>
  /\ UNCHANGED <<open, disc>>
Back(l) ==
  /\ open
  /\ stack' = Append(stack, l) /\ lineno' = lineno - 1 /\ lastLine' = 0
  /\ disc' = (disc /\ lineno >= 1 /\ l = lineno)
  /\ UNCHANGED <<pos, open>>
Next == Enter \/ Exit \/ NextLine \/ \E l \in 1..NLines : Back(l)
LinenoLaw == lineno = pos - Len(stack)
StackIsFileSegment == disc => (\A i \in DOMAIN stack : stack[i] = pos - i + 1)
DeliversInOrder == (disc /\ lastLine > 0) => lastLine = lineno
IndInv == /\ pos \in 0..NLines /\ lastLine \in 0..NLines
          /\ (\A i \in DOMAIN stack : stack[i] \in 1..NLines)
          /\ LinenoLaw /\ StackIsFileSegment /\ DeliversInOrder
          /\ (disc => Len(stack) <= pos)
\* initial predicate for the inductive step: any state satisfying IndInv
IndInit == /\ pos = Gen(1) /\ stack = Gen(4) /\ lineno = Gen(1) /\ open \in BOOLEAN /\ lastLine = Gen(1) /\ disc \in BOOLEAN
           /\ IndInv
=============================================================================
