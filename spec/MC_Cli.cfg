SPECIFICATION Spec
INVARIANT CliEqualsApi
INVARIANT NoFalseSuccess
INVARIANT FailureNamesProblem
INVARIANT PreflightSparesOutput
PROPERTY Terminates
CHECK_DEADLOCK FALSE
