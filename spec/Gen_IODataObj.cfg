SPECIFICATION GSpec
CONSTANTS
  AtnVals <- gAtn
  CoreVals <- gCore
  QVals <- gQ
  NeVals <- gNe
  SpVals <- gSp
  MoVals <- gMo
  LenVals <- gLen
INVARIANT ChargeLaw
INVARIANT NatomAgree
INVARIANT MoWins
CHECK_DEADLOCK FALSE
