---- MODULE Trace_Inputs ----
EXTENDS Inputs, Json, IOUtils, TLCExt
Traces == JsonDeserialize(IOEnv.TRACE_FILE)
N == Len(Traces)
VARIABLES tid, l
tvars == <<tid, l, vars>>
ASSUME \A t \in 1..N : TLCSet(t, 0)
TInit == tid \in 1..N /\ l = 1 /\ sc = <<>> /\ rendered = "no"
ToSet(s) == {s[i] : i \in 1..Len(s)}
Sc(e) == [prog |-> e.sc.prog, known |-> e.sc.known, attrs |-> ToSet(e.sc.attrs), rt |-> e.sc.rt, charge |-> e.sc.charge,
          spinpol |-> e.sc.spinpol, kwargs |-> ToSet(e.sc.kwargs), template |-> e.sc.template, falsy |-> e.sc.falsy, cb |-> e.sc.cb,
          extra |-> e.sc.extra]
\* e.text[f] = the text rendered for field f (only for the fields the template contains)
RenderOK(e) == LET s == Sc(e) IN
  /\ e.out \in Outcomes(s)
  /\ (e.out = "ok" =>
        /\ \A f \in ToSet(e.fields) :
              \/ (f = "run_type" /\ Source(s, f) = "attr" /\ Keyword(s.prog, s.rt[1]) = "?")
              \* the wording of the default title is not part of the property (no documented default): any text will do
              \/ (f = "title" /\ Source(s, f) = "default" /\ e.text[f] # "<missing>")
              \/ e.text[f] = ExpectedText(s, f)
        /\ (s.extra \in {"given", "empty"} => e.extra_text = ExtraText(s))
        \* geometry: one line per atom, in order, right symbol, coordinates in angstrom
        /\ e.geom.nlines = e.geom.natom /\ e.geom.symbols_ok /\ e.geom.coords_ok)
Step ==
  /\ l <= Len(Traces[tid])
  /\ RenderOK(Traces[tid][l]) = TRUE
  /\ l' = l + 1 /\ UNCHANGED <<tid, vars>>
  /\ TLCSet(tid, IF TLCGet(tid) < l THEN l ELSE TLCGet(tid))
TSpec == TInit /\ [][Step]_tvars
Report == \A t \in 1..N : PrintT(<<"RESULT", t, TLCGet(t), Len(Traces[t])>>)
====
