SPECIFICATION Spec
CONSTANTS
  NCalls = 3
  Calls <- MCCalls
  Args <- MCArgs
INVARIANT GlobalsFrozen
INVARIANT ResultIsFunctionOfArgs
PROPERTY AllDone
CHECK_DEADLOCK FALSE
