---- MODULE Trace_Wavefunction ----
(* Validation of recorded wavefunction dumps (C01) and of loads of vendor-encoded Molden/Molekel files (C05). *)
EXTENDS Integers, Sequences, FiniteSets, TLC, Json, IOUtils, TLCExt
Traces == JsonDeserialize(IOEnv.TRACE_FILE)
N == Len(Traces)
VARIABLES tid, l
tvars == <<tid, l>>
ASSUME \A t \in 1..N : TLCSet(t, 0)
TInit == tid \in 1..N /\ l = 1
ErrorClasses == {"PrepareDumpError", "DumpError", "FileFormatError"}
\* C01: the call fails with an error of the contract, or the file denotes the same wavefunction and can be read back;
\* a conversion happens only when allowed and is announced
DumpOK(e) ==
  \/ e.out \in ErrorClasses
  \/ /\ e.out = "written"
     /\ e.readable                                   \* a file IOData wrote is never one it cannot read back
     /\ e.nuclei_same /\ e.orbitals_same /\ e.occs_same /\ e.energies_same /\ e.spin_same /\ e.density_same /\ e.irreps_same
     /\ e.independent_same                           \* the independent reader of the file sees the same orbitals
     /\ (e.converted => (e.allow /\ e.warned))
\* C05: vendor-encoded files load to the true wavefunction with a warning naming an admissible correction; standard files
\* need no correction; encodings that no correction repairs are rejected
VendorOK(e) ==
  IF e.expect = "reject" THEN e.out = "LoadError" \/ (e.out = "loaded" /\ e.same /\ e.orthonormal)
  ELSE /\ e.out = "loaded" /\ e.same /\ e.orthonormal
       /\ (e.expect = "nofix" => e.warning = "none")
       /\ (e.expect = "fix" => e.warning \in {e.admissible[i] : i \in 1..Len(e.admissible)})
\* a WFN / WFX file written by another program: the loaded orbitals are the functions of space its primitive expansion denotes
\* (independent reader), one loaded orbital per orbital of the file, with the occupation and energy printed there
ForeignLoadOK(e) == e.readable /\ e.count_same /\ e.orbitals_same /\ e.occs_same /\ e.energies_same
Step ==
  /\ l <= Len(Traces[tid])
  /\ LET e == Traces[tid][l] IN
       (CASE e.op = "Dump" -> DumpOK(e)
          [] e.op = "ForeignLoad" -> ForeignLoadOK(e)
          [] e.op = "CorpusInvariant" -> (e.orthonormal /\ e.nelec_ok)      \* orbitals of any program's file: orthonormal, right electron count
          [] e.op = "Vendor" -> VendorOK(e)) = TRUE
  /\ l' = l + 1 /\ UNCHANGED tid
  /\ TLCSet(tid, IF TLCGet(tid) < l THEN l ELSE TLCGet(tid))
TSpec == TInit /\ [][Step]_tvars
Report == \A t \in 1..N : PrintT(<<"RESULT", t, TLCGet(t), Len(Traces[t])>>)
====
