SPECIFICATION SSpec
INVARIANT AllDeclaredExist
CHECK_DEADLOCK FALSE
