------------------------------ MODULE ApiDump ------------------------------
(* dump_one / dump_many / write_input as a protocol over one target path     *)
(* (properties C08, dump side of C13, frame condition of C09).               *)
(*                                                                           *)
(*   Select -> [Pull] -> PreFlight -> OpenW -> (Write* ; FrameDone ; [Pull ; *)
(*   PreFlight])* -> CloseW                                                  *)
(*                                                                           *)
(* One action per step of the code; the scenario `sc` is chosen in Init and  *)
(* never changes.                                                            *)
EXTENDS Integers, Sequences, FiniteSets, TLC

VARIABLES sc,      \* scenario (constant along a behaviour)
          pc, file, fd, pulled, written, k, kf, out, warned, opened
vars == <<sc, pc, file, fd, pulled, written, k, kf, out, warned, opened>>

Ops == {"dump_one", "dump_many", "write_input"}
\* ok          : passes pre-flight, is written
\* missing     : a required attribute is None
\* fatal       : prepare_dump rejects it whatever allow_changes is
\* convertible : prepare_dump converts it iff allow_changes
\* crash       : the pre-flight code itself raises something unexpected
\* wfail       : passes pre-flight, the writer raises while writing it
FrameKinds == {"ok", "missing", "fatal", "convertible", "crash", "wfail"}
SelKinds == {"match", "nomatch", "explicit", "unknown", "unsupported"}
Scenarios(maxF, W) ==
  [ op : Ops, sel : SelKinds, allow : BOOLEAN, existed : BOOLEAN,
    frames : UNION {[1..n -> FrameKinds] : n \in 0..maxF},
    iterRaises : BOOLEAN,         \* the iterable raises after its last item
    wpf : 1..W,                   \* write calls per frame (exhaustive model only)
    faultAt : 0..(maxF * W),      \* 0 = no injected write fault, else the k-th write call fails
    openFails : BOOLEAN ]
WellFormedSc(s) ==
  /\ (s.op # "dump_many" => Len(s.frames) = 1 /\ ~s.iterRaises)
  /\ (s.op = "write_input" => s.frames[1] \in {"ok", "wfail"} /\ s.sel \in {"explicit", "unknown"})

Many == sc.op = "dump_many"
WriteErr == IF sc.op = "write_input" THEN "WriteInputError" ELSE "DumpError"
File0 == IF sc.existed THEN "old" ELSE "absent"

Init0 ==
  /\ pc = "start" /\ file = File0 /\ fd = FALSE /\ pulled = 0 /\ written = 0 /\ k = 0 /\ kf = 0
  /\ out = "none" /\ warned = FALSE /\ opened = FALSE
Init(S) == sc \in S /\ WellFormedSc(sc) /\ Init0

Done(o) == pc' = "done" /\ out' = o

\* outcome of the pre-flight treatment of frame i (required attributes, then prepare_dump)
Pre(i) == LET f == sc.frames[i] IN
  CASE f \in {"ok", "wfail"} -> "go"
    [] f = "missing" -> "PrepareDumpError"
    [] f = "fatal" -> "PrepareDumpError"
    [] f = "crash" -> IF i = 1 THEN "PrepareDumpError" ELSE "DumpError"
    [] f = "convertible" -> IF sc.allow THEN "convert" ELSE "PrepareDumpError"

Select ==
  /\ pc = "start"
  /\ IF sc.sel \in {"nomatch", "unknown", "unsupported"}
     THEN Done("FileFormatError") /\ UNCHANGED <<sc, file, fd, pulled, written, k, kf, warned, opened>>
     ELSE /\ pc' = (IF Many THEN "pull" ELSE IF sc.op = "write_input" THEN "open" ELSE "pre")
          /\ pulled' = (IF Many THEN 0 ELSE 1)
          /\ UNCHANGED <<sc, file, fd, written, k, kf, out, warned, opened>>

\* the API (first item) or the format writer (later items) asks the iterable for item pulled+1.
\* An exception raised by the caller's iterable may surface wrapped (DumpError) or as itself.
Pull ==
  /\ pc = "pull"
  /\ IF pulled < Len(sc.frames)
     THEN pulled' = pulled + 1 /\ pc' = "pre" /\ UNCHANGED <<sc, file, fd, written, k, kf, out, warned, opened>>
     ELSE \* exhausted or raising iterable
       /\ UNCHANGED <<sc, file, fd, pulled, written, k, kf, warned, opened>>
       /\ IF sc.iterRaises
          THEN \E o \in {"DumpError", "IterError"} :
                  IF opened THEN pc' = "failing" /\ out' = o ELSE Done(o)
          ELSE IF ~opened THEN Done("DumpError")       \* no frames at all: nothing is created
               ELSE pc' = "closing" /\ out' = "return"

PreFlight ==
  /\ pc = "pre"
  /\ LET r == Pre(pulled) IN
     IF r \in {"go", "convert"}
     THEN /\ warned' = (warned \/ r = "convert")
          /\ pc' = (IF opened THEN "writing" ELSE "open")
          /\ UNCHANGED <<sc, file, fd, pulled, written, k, kf, out, opened>>
     ELSE IF ~opened
          THEN Done(r) /\ UNCHANGED <<sc, file, fd, pulled, written, k, kf, warned, opened>>
          ELSE pc' = "failing" /\ out' = r /\ UNCHANGED <<sc, file, fd, pulled, written, k, kf, warned, opened>>

OpenW ==
  /\ pc = "open"
  /\ IF sc.openFails
     THEN Done("OSError") /\ UNCHANGED <<sc, file, fd, pulled, written, k, kf, warned, opened>>
     ELSE file' = "partial" /\ fd' = TRUE /\ opened' = TRUE /\ pc' = "writing"
          /\ UNCHANGED <<sc, pulled, written, k, kf, out, warned>>

\* one write call of the format writer; the injected fault makes the k-th call raise
WriteBody ==
  /\ pc = "writing"
  /\ k' = k + 1 /\ kf' = kf + 1
  /\ IF sc.faultAt = k + 1
     THEN pc' = "failing" /\ out' = WriteErr /\ UNCHANGED <<sc, file, fd, pulled, written, warned, opened>>
     ELSE UNCHANGED <<sc, pc, file, fd, pulled, written, out, warned, opened>>

Write == kf < sc.wpf /\ WriteBody      \* exhaustive model: exactly wpf write calls per frame

\* the writer itself raises while working on the current frame
WriterFail ==
  /\ pc = "writing" /\ sc.frames[pulled] = "wfail"
  /\ pc' = "failing" /\ out' = WriteErr
  /\ UNCHANGED <<sc, file, fd, pulled, written, k, kf, warned, opened>>

\* the current frame is complete (every real writer emits at least one write per frame)
FrameDoneBody ==
  /\ pc = "writing" /\ kf >= 1 /\ sc.frames[pulled] # "wfail"
  /\ written' = written + 1 /\ kf' = 0
  /\ IF Many THEN pc' = "pull" /\ UNCHANGED out ELSE pc' = "closing" /\ out' = "return"
  /\ UNCHANGED <<sc, file, fd, pulled, k, warned, opened>>

FrameDone == kf = sc.wpf /\ FrameDoneBody

CloseW ==
  /\ pc \in {"closing", "failing"}
  /\ fd' = FALSE
  /\ file' = (IF pc = "closing" THEN "new" ELSE "partial")
  /\ pc' = "done"
  /\ UNCHANGED <<sc, pulled, written, k, kf, out, warned, opened>>

Next == Select \/ Pull \/ PreFlight \/ OpenW \/ Write \/ WriterFail \/ FrameDone \/ CloseW

(* ---- properties (C08 / C13 dump side) ---- *)
Selected == sc.sel \in {"match", "explicit"}
PreflightSparesFile == (pc = "done" /\ ~opened) => file = File0
FormatErrorTouchesNothing == out = "FileFormatError" => (~opened /\ file = File0 /\ pulled = 0)
FirstFrameGuarantee ==
  (pc = "done" /\ Len(sc.frames) >= 1 /\ Selected /\ sc.op # "write_input"
     /\ Pre(1) \notin {"go", "convert"}) => (out = "PrepareDumpError" /\ file = File0)
EmptyFramesNoFile ==
  (pc = "done" /\ Many /\ Len(sc.frames) = 0 /\ Selected /\ ~sc.iterRaises)
     => (out = "DumpError" /\ file = File0)
ErrorClass == out \in {"none", "return", "FileFormatError", "PrepareDumpError", "DumpError", "WriteInputError",
                       "OSError", "IterError"}
ErrorClassByOp ==
  /\ (out = "WriteInputError" => sc.op = "write_input")
  /\ (out \in {"DumpError", "PrepareDumpError"} => sc.op # "write_input")
  /\ (out = "IterError" => sc.iterRaises)
  /\ (out = "OSError" => sc.openFails)
NoLeakedFd == pc = "done" => ~fd
LazyExactlyOnce == pulled <= written + 1 /\ written <= pulled
ReturnMeansComplete ==
  (pc = "done" /\ out = "return") =>
     (file = "new" /\ written = Len(sc.frames) /\ sc.faultAt \notin 1..k
      /\ \A i \in 1..Len(sc.frames) : Pre(i) \in {"go", "convert"} /\ sc.frames[i] # "wfail")
NotSwallowed ==
  (pc = "done" /\ Selected /\ ~sc.openFails
     /\ (\E i \in 1..Len(sc.frames) : Pre(i) \notin {"go", "convert"} \/ sc.frames[i] = "wfail")
     /\ (sc.faultAt = 0)) => out \in {"PrepareDumpError", "DumpError", "WriteInputError", "IterError"}
WarnedIffConverted ==
  (pc = "done" /\ out = "return") => (warned <=> \E i \in 1..Len(sc.frames) : Pre(i) = "convert")
=============================================================================
