---- MODULE Trace_ApiGlobals ----
(* Each trace is one history (sequential or multi-threaded) of API calls in one interpreter.   *)
(* Header: refs = [call id |-> outcome digest of the call alone in a fresh interpreter],       *)
(* glob0 = digest of all module-level tables after import.  Events: one per completed call,    *)
(* carrying the outcome digest and the digest of the tables at that moment.                    *)
EXTENDS Integers, Sequences, TLC, Json, IOUtils, TLCExt
Traces == JsonDeserialize(IOEnv.TRACE_FILE)
N == Len(Traces)
VARIABLES tid, l, done
tvars == <<tid, l, done>>
ASSUME \A t \in 1..N : TLCSet(t, 0)
TInit == tid \in 1..N /\ l = 2 /\ done = 0
Hdr == Traces[tid][1]
Step ==
  /\ l <= Len(Traces[tid])
  /\ LET e == Traces[tid][l] IN
       (/\ e.digest = Hdr.refs[e.call]          \* ResultIsFunctionOfArgs
        /\ e.glob = Hdr.glob0                   \* GlobalsFrozen
       ) = TRUE
  /\ l' = l + 1 /\ done' = done + 1 /\ UNCHANGED tid
  /\ TLCSet(tid, IF TLCGet(tid) < l THEN l ELSE TLCGet(tid))
TSpec == TInit /\ [][Step]_tvars
Report == \A t \in 1..N : PrintT(<<"RESULT", t, TLCGet(t), Len(Traces[t])>>)
====
