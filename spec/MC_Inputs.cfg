SPECIFICATION Spec
INVARIANT KwargsWin
INVARIANT DefaultsOnlyWhenAbsent
INVARIANT UnknownProgramIsFormatError
INVARIANT ErrorClasses
CHECK_DEADLOCK FALSE
