---- MODULE MC_LineIter ----
EXTENDS LineIter
CONSTANT MaxStack
Bound == Len(stack) <= MaxStack /\ TLCGet("level") <= 14
====
