---- MODULE MC_Segment ----
(* Segmentation as a state machine over all small bases (C14), plus the laws of un-restriction  *)
(* over all small restricted orbital sets.                                                       *)
EXTENDS Wavefunction
CONSTANT MaxShells
VARIABLES mo, res          \* only to instantiate Orbitals (unused)
O == INSTANCE Orbitals
S == <<0,"c">>  P == <<1,"c">>  Dc == <<2,"c">>  Dp == <<2,"p">>  Fp == <<3, "p">>
ShellKinds == { <<S>>, <<P>>, <<Dc>>, <<Dp>>, <<S,P>>, <<P,S>>, <<S,S>>, <<P,S,Dp>>, <<S,P,Dc,Fp>> }
Bases(n) == { [i \in 1..n |-> [uid |-> i, c |-> cs[i], cons |-> ks[i], org |-> [j \in 1..Len(ks[i]) |-> j]]]
               : ks \in [1..n -> ShellKinds], cs \in [1..n -> 1..2] }
VARIABLES b0, b, keep, steps
vars == <<b0, b, keep, steps>>
Init == /\ b0 \in UNION {Bases(n) : n \in 1..MaxShells} /\ b = b0 /\ keep \in BOOLEAN /\ steps = 0
        /\ mo = <<>> /\ res = ""
Seg == steps < 2 /\ b' = Segment(b, keep) /\ steps' = steps + 1 /\ UNCHANGED <<b0, keep, mo, res>>
Spec == Init /\ [][Seg]_<<vars, mo, res>>
\* same centers and the same basis functions in the same order
SameFunctions == FunctionList(b) = FunctionList(b0)
\* nothing left to split after one conversion; shells that need no splitting are kept as they are
FullySegmented == steps >= 1 => ~NeedsSegmentation(b, keep)
Idempotent == [][steps = 1 => b' = b]_vars
IdentityShortcut == (steps >= 1 /\ ~NeedsSegmentation(b0, keep)) => b = b0
\* un-restriction laws over all restricted orbital sets with <= 2 orbitals
Occ == {0, O!One \div 2, O!One, 2 * O!One}
Amb == {0, O!One, 0 - O!One}
RMos == { [kind |-> "restricted", norba |-> <<n>>, norbb |-> <<n>>, occs |-> oc, amb |-> am, en |-> e, irr |-> <<>>, co |-> c] :
          n \in 1..2, oc \in {<<>>} \cup {<<s>> : s \in [1..2 -> Occ] \cup [1..1 -> Occ]},
          am \in {<<>>} \cup {<<s>> : s \in [1..2 -> Amb] \cup [1..1 -> Amb]},
          e \in {<<>>, <<<<101, 102>>>>, <<<<101>>>>}, c \in {<<>>, <<<<301, 302>>>>, <<<<301>>>>} }
ASSUME \A m \in RMos : (O!CountsOK(m.kind, m.norba, m.norbb) /\ O!LensOK(m)) => O!UnrestrictPreserves(m)
ASSUME PrintT(<<"restricted orbital sets checked for un-restriction", Cardinality(RMos)>>)
====
