SPECIFICATION Spec
CONSTANTS
  AtnVals <- cAtn
  CoreVals <- cCore
  QVals <- cQ
  NeVals <- cNe
  SpVals <- cSp
  MoVals <- cMo
  LenVals <- cLen
INVARIANT ChargeLaw
INVARIANT NatomAgree
INVARIANT MoWins
INVARIANT CoreDefault
PROPERTY ReadBack
PROPERTY CoreStable
PROPERTY MoRefuses
PROPERTY FailedAssignIsNoop
PROPERTY ReadIsNoop
PROPERTY ReadIdempotent
CHECK_DEADLOCK FALSE
CONSTRAINT Bound
