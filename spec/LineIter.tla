------------------------------ MODULE LineIter ------------------------------
(* iodata.utils.LineIterator: the cursor every text reader works on.  A file of NLines lines (line i has *)
(* identity i), a push-back stack, and the line number that LoadError / LoadWarning messages report.      *)
(* C07 relies on it for "the message names the line", C13 for "frames in order, none skipped or repeated" *)
(* (every load_many look-ahead pushes lines back).                                                        *)
EXTENDS Integers, Sequences, TLC
CONSTANT NLines
VARIABLES pos,      \* lines consumed from the file object
          stack,    \* pushed-back lines, last pushed on top
          lineno,   \* the reported line number
          fd,       \* "closed" | "open"
          last,     \* result of the last operation: <<"line", id>> | <<"stop">> | <<"back">> | <<"enter">> | <<"exit">> | <<"init">>
          disc      \* the caller has so far pushed back only what it was handed, most recent first
vars == <<pos, stack, lineno, fd, last, disc>>
Init == pos = 0 /\ stack = <<>> /\ lineno = 0 /\ fd = "closed" /\ last = <<"init">> /\ disc = TRUE
Enter == fd = "closed" /\ pos = 0 /\ fd' = "open" /\ last' = <<"enter">> /\ UNCHANGED <<pos, stack, lineno, disc>>
Exit == fd = "open" /\ fd' = "closed" /\ last' = <<"exit">> /\ UNCHANGED <<pos, stack, lineno, disc>>
\* what the next call of next() delivers
Pending == IF stack # <<>> THEN <<stack[Len(stack)]>> ELSE IF pos < NLines THEN <<pos + 1>> ELSE <<>>
NextLine ==
  /\ fd = "open"
  /\ \/ /\ stack # <<>>
        /\ last' = <<"line", stack[Len(stack)]>> /\ stack' = SubSeq(stack, 1, Len(stack) - 1)
        /\ lineno' = lineno + 1 /\ UNCHANGED pos
     \/ /\ stack = <<>> /\ pos < NLines
        /\ pos' = pos + 1 /\ last' = <<"line", pos + 1>> /\ lineno' = lineno + 1 /\ UNCHANGED stack
     \/ /\ stack = <<>> /\ pos = NLines          \* end of file: StopIteration, nothing moves (the line number stays on the last line)
        /\ last' = <<"stop">> /\ UNCHANGED <<pos, stack, lineno>>
  /\ UNCHANGED <<fd, disc>>
Back(l) ==
  /\ fd = "open"
  /\ stack' = Append(stack, l) /\ lineno' = lineno - 1 /\ last' = <<"back">>
  /\ disc' = (disc /\ lineno >= 1 /\ l = lineno)        \* the line handed out most recently that is not pushed back yet
  /\ UNCHANGED <<pos, fd>>
Next == Enter \/ Exit \/ NextLine \/ \E l \in 1..NLines : Back(l)

(* ---- properties ---- *)
\* the reported number is the number of lines handed out and not taken back
LinenoLaw == lineno = pos - Len(stack)
\* for a disciplined caller the pushed-back lines are exactly the file lines lineno+1 .. pos, next one on top ...
StackIsFileSegment == disc => (\A i \in 1..Len(stack) : stack[i] = pos - i + 1)
\* ... so next() continues with file line lineno+1 and nothing is skipped or repeated, and after it the number names that line
DeliversInOrder == (disc /\ last[1] = "line") => last[2] = lineno
NothingAfterEnd == last = <<"stop">> => (stack = <<>> /\ pos = NLines)
LinenoInFile == disc => (lineno >= 0 /\ lineno <= NLines)
=============================================================================
