---- MODULE Trace_ShapeRules ----
(* Recorded calls of the real validator: [reqs, shape, obj : [n, a], out : "ok" | "TypeError" | other].  *)
EXTENDS ShapeRules, Json, IOUtils, TLCExt
Traces == JsonDeserialize(IOEnv.TRACE_FILE)
N == Len(Traces)
VARIABLES tid, l
tvars == <<tid, l>>
ASSUME \A t \in 1..N : TLCSet(t, 0)
TInit == tid \in 1..N /\ l = 1
Step ==
  /\ l <= Len(Traces[tid])
  /\ LET e == Traces[tid][l] IN (e.out = Verdict(e.reqs, e.shape, e.obj)) = TRUE
  /\ l' = l + 1 /\ UNCHANGED tid
  /\ TLCSet(tid, IF TLCGet(tid) < l THEN l ELSE TLCGet(tid))
TSpec == TInit /\ [][Step]_tvars
Report == \A t \in 1..N : PrintT(<<"RESULT", t, TLCGet(t), Len(Traces[t])>>)
====
