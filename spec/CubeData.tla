---------------------------- MODULE CubeData ----------------------------
(* The volumetric data block of a Gaussian cube file and the reader's word    *)
(* cursor (iodata/formats/cube.py, _read_cube_data).  The block is a stream   *)
(* of N = nx*ny*nz numbers, z running fastest; how the stream is cut into     *)
(* lines is free (Gaussian: six per line and a new line after each z-run;     *)
(* other programs: anything).  The reader keeps a buffer of words of the      *)
(* current line, refills it from the next line when it is empty and stores    *)
(* the k-th word it takes in flat cell k-1.  What the file says is: word k    *)
(* of the stream is the value at (i0, i1, i2) with (i0*ny + i1)*nz + i2 = k-1.*)
EXTENDS Naturals, Sequences, FiniteSets
\* ordered factorizations of n into three axis lengths
Shapes3(n) == {s \in (1..n) \X (1..n) \X (1..n) : s[1] * s[2] * s[3] = n}
\* all ways of cutting a stream of n words into non-empty lines (sequences of line lengths)
RECURSIVE Compositions(_)
Compositions(n) == IF n = 0 THEN {<<>>}
                   ELSE UNION {{<<k>> \o c : c \in Compositions(n - k)} : k \in 1..n}
Flat(shape, cell) == (cell[1] * shape[2] + cell[2]) * shape[3] + cell[3]
Cells(shape) == (0..(shape[1] - 1)) \X (0..(shape[2] - 1)) \X (0..(shape[3] - 1))
Size(shape) == shape[1] * shape[2] * shape[3]
\* Gaussian's own cut: each z-run starts a new line and holds at most six numbers per line
RECURSIVE RunLines(_)
RunLines(nz) == IF nz <= 6 THEN <<nz>> ELSE <<6>> \o RunLines(nz - 6)
RECURSIVE Repeat(_, _)
Repeat(s, n) == IF n = 0 THEN <<>> ELSE s \o Repeat(s, n - 1)
GaussianLines(shape) == Repeat(RunLines(shape[3]), shape[1] * shape[2])
\* the word (1-based position in the stream) that the file places on a cell
WordOf(shape, cell) == Flat(shape, cell) + 1
=============================================================================
