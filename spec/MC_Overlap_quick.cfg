SPECIFICATION Spec
CONSTANT MaxSteps = 2
INVARIANT NoDuplicateFunctions
PROPERTY FunctionsInvariant
CHECK_DEADLOCK FALSE
