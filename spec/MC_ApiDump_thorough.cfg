SPECIFICATION FairSpec
CONSTANTS
  MaxF = 3
  W = 2
INVARIANT PreflightSparesFile
INVARIANT FormatErrorTouchesNothing
INVARIANT FirstFrameGuarantee
INVARIANT EmptyFramesNoFile
INVARIANT ErrorClass
INVARIANT ErrorClassByOp
INVARIANT NoLeakedFd
INVARIANT LazyExactlyOnce
INVARIANT ReturnMeansComplete
INVARIANT NotSwallowed
INVARIANT WarnedIffConverted
PROPERTY Live
CHECK_DEADLOCK FALSE
