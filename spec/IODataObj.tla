---------------------------- MODULE IODataObj ----------------------------
(* Abstract model of iodata.iodata.IOData restricted to the attributes that   *)
(* property C11 talks about.  Reals are integers in quarter units.            *)
(* Optional values: <<>> = None, <<v>> = value.                               *)
EXTENDS Integers, Sequences, FiniteSets, TLC

CONSTANTS AtnVals,    \* set of sequences of atomic numbers
          CoreVals,   \* set of sequences of core charges (quarters)
          QVals, NeVals, SpVals,   \* sets of integers (quarters)
          MoVals,     \* set of records [n : Opt(Int), s : Opt(Int)]
          LenVals     \* set of lengths for the other per-atom arrays

None == <<>>
Some(v) == <<v>>
IsNone(o) == o = <<>>
Val(o) == o[1]
Opt(S) == {None} \cup {Some(v) : v \in S}

RECURSIVE Sum(_)
Sum(s) == IF s = <<>> THEN 0 ELSE Head(s) + Sum(Tail(s))
AsCore(a) == [i \in 1..Len(a) |-> 4 * a[i]]

Arr == {"atcoords", "atgradient", "atfrozen", "atmasses"}

VARIABLES st, res
vars == <<st, res>>

Blank == [atn |-> None, core |-> None, q |-> None, ne |-> None, sp |-> None,
          mo |-> None, len |-> [a \in Arr |-> None]]

(* ---- derived quantities on a state record s ---- *)
HiddenNatom(s) ==
  IF ~IsNone(s.len["atcoords"]) THEN s.len["atcoords"]
  ELSE IF ~IsNone(s.core) THEN Some(Len(Val(s.core)))
  ELSE IF ~IsNone(s.len["atgradient"]) THEN s.len["atgradient"]
  ELSE IF ~IsNone(s.len["atfrozen"]) THEN s.len["atfrozen"]
  ELSE IF ~IsNone(s.len["atmasses"]) THEN s.len["atmasses"]
  ELSE IF ~IsNone(s.atn) THEN Some(Len(Val(s.atn)))
  ELSE None

\* how many per-atom arrays are set (the hidden core counts once)
NSet(s) == Cardinality({a \in Arr : ~IsNone(s.len[a])})
           + (IF IsNone(s.core) THEN 0 ELSE 1) + (IF IsNone(s.atn) THEN 0 ELSE 1)

\* effect of giving the object explicit core charges c on the charge/nelec pair
Switch(s, c) ==
  IF IsNone(s.q) THEN s
  ELSE [s EXCEPT !.q = None,
                 !.ne = IF IsNone(s.ne) THEN Some(Sum(c) - Val(s.q)) ELSE s.ne]

\* the lazy default of the core charges, as performed by the getter
Mat(s) == IF IsNone(s.core) /\ ~IsNone(s.atn)
          THEN [Switch(s, AsCore(Val(s.atn))) EXCEPT !.core = Some(AsCore(Val(s.atn)))]
          ELSE s

NelecOf(s) == IF IsNone(s.mo) THEN s.ne ELSE Val(s.mo).n
ChargeOf(s) == LET m == Mat(s) IN
  IF IsNone(m.core) \/ IsNone(NelecOf(m)) THEN m.q
  ELSE Some(Sum(Val(m.core)) - Val(NelecOf(m)))
SpinpolOf(s) == IF IsNone(s.mo) THEN s.sp ELSE Val(s.mo).s
CoreOf(s) == Mat(s).core

\* the public observables (what a user can read; reading may materialise the default)
Obs(s) == LET m == Mat(s) IN
          [core |-> m.core, charge |-> ChargeOf(m), nelec |-> NelecOf(m),
           spinpol |-> SpinpolOf(m), natom |-> HiddenNatom(m), atn |-> m.atn, len |-> m.len]

\* the value a real read of property p returns in state s (before its side effect)
ReadVal(s, p) == CASE p = "atcorenums" -> CoreOf(s)
                   [] p = "charge" -> ChargeOf(s)
                   [] p = "nelec" -> NelecOf(s)
                   [] p = "spinpol" -> SpinpolOf(s)
                   [] p = "natom" -> HiddenNatom(s)

(* ---- operations: each returns a SET of outcomes [s |-> state, r |-> result] ---- *)
Ok(s) == [s |-> s, r |-> "ok"]
Err(s) == [s |-> s, r |-> "TypeError"]

\* shape check of an array of length n assigned to attribute `self` (already None-checked).
\* If no other array fixes the number of atoms the statement does not say whether a change
\* of length is accepted; both outcomes are allowed.
ShapeOutcomes(s, n, soleOwner, okState) ==
  LET hn == HiddenNatom(s) IN
  IF IsNone(hn) \/ Val(hn) = n THEN {Ok(okState)}
  ELSE IF soleOwner THEN {Ok(okState), Err(s)}
  ELSE {Err(s)}

DoSetAtn(s, v) ==
  IF IsNone(v) THEN {Ok([s EXCEPT !.atn = None])}
  ELSE ShapeOutcomes(s, Len(Val(v)), NSet(s) = 1 /\ ~IsNone(s.atn), [s EXCEPT !.atn = v])

DoSetLen(s, a, v) ==
  IF IsNone(v) THEN {Ok([s EXCEPT !.len[a] = None])}
  ELSE ShapeOutcomes(s, Val(v), NSet(s) = 1 /\ ~IsNone(s.len[a]), [s EXCEPT !.len[a] = v])

DoSetCore(s, v) ==
  IF IsNone(v) THEN
     {Ok([s EXCEPT !.core = None,
                   !.q = IF ~IsNone(NelecOf(s)) /\ ~IsNone(s.core)
                         THEN Some(Sum(Val(s.core)) - Val(NelecOf(s))) ELSE s.q])}
  ELSE ShapeOutcomes(s, Len(Val(v)), NSet(s) = 1 /\ ~IsNone(s.core),
                     [Switch(s, Val(v)) EXCEPT !.core = v])

DoSetNelec(s, v) == IF IsNone(s.mo) THEN {Ok([s EXCEPT !.ne = v])} ELSE {Err(s)}
DoSetSpinpol(s, v) == IF IsNone(s.mo) THEN {Ok([s EXCEPT !.sp = v])} ELSE {Err(s)}

DoSetCharge(s, v) ==
  LET m == Mat(s) IN
  IF IsNone(m.core) THEN {Ok([m EXCEPT !.q = v])}
  ELSE IF ~IsNone(m.mo) THEN {Err(m)}
  ELSE {Ok([m EXCEPT !.ne = IF IsNone(v) THEN None ELSE Some(Sum(Val(m.core)) - Val(v))])}

DoSetMo(s, v) == {Ok([s EXCEPT !.mo = v])}

DoRead(s, p) == {Ok(IF p \in {"atcorenums", "charge"} THEN Mat(s) ELSE s)}

(* ---- construction: the documented replay of the setters on a blank object ----
   a = [atn, core, q, ne, sp, mo : Opt(...), len : [Arr -> Opt(Nat)]].  Where the statement is
   silent (charge and electron count both given and contradictory) either replay order of the
   charge / electron-count assignments is accepted.  Any failing step fails the construction. *)
Bind(outs, F(_)) == UNION {IF o.r = "ok" THEN F(o.s) ELSE {o} : o \in outs}
SetIf(s, v, F(_, _)) == IF IsNone(v) THEN {Ok(s)} ELSE F(s, v)

ConstructArrays(a) ==
  LET s1(s) == SetIf(s, a.atn, DoSetAtn)
      l(n, s) == IF IsNone(a.len[n]) THEN {Ok(s)} ELSE DoSetLen(s, n, a.len[n])
      l1(s) == l("atcoords", s)
      l2(s) == l("atgradient", s)
      l3(s) == l("atfrozen", s)
      l4(s) == l("atmasses", s)
      m(s) == SetIf(s, a.mo, DoSetMo)
      c(s) == SetIf(s, a.core, DoSetCore)
  IN Bind(Bind(Bind(Bind(Bind(Bind(s1(Blank), l1), l2), l3), l4), m), c)

DoConstruct(a) ==
  LET q(s) == SetIf(s, a.q, DoSetCharge)
      n(s) == SetIf(s, a.ne, DoSetNelec)
      p(s) == SetIf(s, a.sp, DoSetSpinpol)
      base == ConstructArrays(a)
  IN Bind(Bind(Bind(base, q), n), p) \cup Bind(Bind(Bind(base, n), q), p)

(* ---- actions ---- *)
Apply(outs) == \E o \in outs : st' = o.s /\ res' = o.r

SetAtn(v) == Apply(DoSetAtn(st, v))
SetCore(v) == Apply(DoSetCore(st, v))
SetCharge(v) == Apply(DoSetCharge(st, v))
SetNelec(v) == Apply(DoSetNelec(st, v))
SetSpinpol(v) == Apply(DoSetSpinpol(st, v))
SetMo(v) == Apply(DoSetMo(st, v))
SetLen(a, v) == Apply(DoSetLen(st, a, v))
Read(p) == Apply(DoRead(st, p))
Props == {"atcorenums", "charge", "nelec", "spinpol", "natom"}

Init == st = Blank /\ res = "ok"
Next == \/ \E v \in Opt(AtnVals) : SetAtn(v)
        \/ \E v \in Opt(CoreVals) : SetCore(v)
        \/ \E v \in Opt(QVals) : SetCharge(v)
        \/ \E v \in Opt(NeVals) : SetNelec(v)
        \/ \E v \in Opt(SpVals) : SetSpinpol(v)
        \/ \E v \in Opt(MoVals) : SetMo(v)
        \/ \E a \in Arr, v \in Opt(LenVals) : SetLen(a, v)
        \/ \E p \in Props : Read(p)
Spec == Init /\ [][Next]_vars

(* ---- properties (C11) ---- *)
ChargeLawS(s) == LET o == Obs(s) IN
  (~IsNone(o.core) /\ ~IsNone(o.nelec)) =>
     o.charge = Some(Sum(Val(o.core)) - Val(o.nelec))
ChargeLaw == ChargeLawS(st)

NatomAgreeS(s) ==
  LET ls == {s.len[a] : a \in Arr} \cup
            {IF IsNone(s.core) THEN None ELSE Some(Len(Val(s.core)))} \cup
            {IF IsNone(s.atn) THEN None ELSE Some(Len(Val(s.atn)))}
  IN Cardinality(ls \ {None}) <= 1
NatomAgree == NatomAgreeS(st)

MoWinsS(s) == ~IsNone(s.mo) =>
  /\ Obs(s).nelec = Val(s.mo).n /\ Obs(s).spinpol = Val(s.mo).s
MoWins == MoWinsS(st)

\* the core charges default to the atomic numbers until set explicitly
CoreDefaultS(s) == (IsNone(s.core) /\ ~IsNone(s.atn)) => Obs(s).core = Some(AsCore(Val(s.atn)))
CoreDefault == CoreDefaultS(st)

StateInv(s) == ChargeLawS(s) /\ NatomAgreeS(s) /\ MoWinsS(s) /\ CoreDefaultS(s)

\* action properties
ReadBack == [][
   /\ \A v \in Opt(QVals) : (SetCharge(v) /\ res' = "ok") => ReadVal(st', "charge") = v
   /\ \A v \in Opt(NeVals) : (SetNelec(v) /\ res' = "ok") => ReadVal(st', "nelec") = v
   /\ \A v \in Opt(SpVals) : (SetSpinpol(v) /\ res' = "ok") => ReadVal(st', "spinpol") = v ]_vars
CoreStable == [][
   ((\E v \in Opt(QVals) : SetCharge(v)) \/ (\E v \in Opt(NeVals) : SetNelec(v))
     \/ (\E v \in Opt(SpVals) : SetSpinpol(v))) => Obs(st').core = Obs(st).core ]_vars
MoRefuses == [][
   (~IsNone(st.mo) /\ ((\E v \in Opt(NeVals) : SetNelec(v)) \/ (\E v \in Opt(SpVals) : SetSpinpol(v))))
     => res' = "TypeError" ]_vars
FailedAssignIsNoop == [][ res' = "TypeError" => Obs(st') = Obs(st) ]_vars
ReadIsNoop == [][ (\E p \in Props : Read(p)) => Obs(st') = Obs(st) ]_vars
ReadIdempotent == [][ \A p \in Props : Read(p) =>
                        /\ ReadVal(st', p) = ReadVal(st, p)
                        /\ DoRead(st', p) = {Ok(st')} ]_vars
=============================================================================
