SPECIFICATION Spec
CONSTANT MaxF = 5
INVARIANT NoLeakedFd
INVARIANT FormatErrorTouchesNothing
INVARIANT OutcomeClass
INVARIANT PrefixInOrder
INVARIANT NeverSkips
INVARIANT BadFrameIsLoadError
INVARIANT NoPartialWithoutNotice
PROPERTY Live
CHECK_DEADLOCK FALSE
