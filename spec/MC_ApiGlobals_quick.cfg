SPECIFICATION Spec
CONSTANTS
  NCalls = 2
  Calls <- MCCalls
  Args <- MCArgs
INVARIANT GlobalsFrozen
INVARIANT ResultIsFunctionOfArgs
PROPERTY AllDone
CHECK_DEADLOCK FALSE
