---------------------------- MODULE AtomOrbitals ----------------------------
(* Atomic (spherical) orbitals printed per (L, state) record, as an atomic SCF  *)
(* program prints them (CP2K ATOM output), and the coefficient matrix of the    *)
(* loaded object (property C03).                                                *)
(*                                                                              *)
(* The file lists, for every angular momentum l, nfun[l+1] radial functions     *)
(* (contractions, or primitives when the basis is uncontracted) and, per        *)
(* (l, state) record, one expansion coefficient per radial function of that l.  *)
(* The loaded object has one basis function per (l, radial function, m) and one *)
(* orbital per (record, m): the record's coefficients are repeated for each of  *)
(* the 2l+1 magnetic components, on the rows of the same component.             *)
(*  Row(l, ic, im)  = Offset(l) + (2l+1) ic + im        (all indices 0-based)   *)
(*  Col(r, im)      = sum of (2 l_q + 1) over earlier records q  + im           *)
(* The module also models the reader's filling loop as a cursor machine, so     *)
(* that TLC checks that the rule is a placement: no cell is written twice,      *)
(* every cell lands in the row block of its own l, every column is filled.      *)
EXTENDS Integers, Sequences, FiniteSets, TLC
Deg(l) == 2 * l + 1
RECURSIVE Offset(_, _), ColStart(_, _)
Offset(nfun, l) == IF l = 0 THEN 0 ELSE Offset(nfun, l - 1) + Deg(l - 1) * nfun[l]
ColStart(recs, r) == IF r = 1 THEN 0 ELSE ColStart(recs, r - 1) + Deg(recs[r - 1])
Row(nfun, l, ic, im) == Offset(nfun, l) + Deg(l) * ic + im
Col(recs, r, im) == ColStart(recs, r) + im
NBasis(nfun) == Offset(nfun, Len(nfun))
NOrb(recs) == ColStart(recs, Len(recs) + 1)
\* the row block of angular momentum l
Block(nfun, l) == Offset(nfun, l) .. (Offset(nfun, l + 1) - 1)
\* occupation of one magnetic component of a record holding occ electrons (in thousandths, integers only)
OccPerOrbital(occ, l) == [num |-> occ, den |-> Deg(l)]
=============================================================================
