---------------------------- MODULE Wavefunction ----------------------------
(* Structural denotation of a wavefunction: which symbolic coefficient row  *)
(* multiplies which basis function, with which sign (C01, C09, C14).        *)
(* A shell type is <<l, kind>>, kind \in {"c", "p"}.                        *)
(* A shell is [uid, c, cons : Seq(type), org : Seq(original contraction)].  *)
(* A convention for a type is a sequence of [lab \in 1..NFun(t), sgn].      *)
EXTENDS Integers, Sequences, FiniteSets, TLC

NFun(t) == IF t[2] = "c" THEN ((t[1] + 1) * (t[1] + 2)) \div 2 ELSE 2 * t[1] + 1

RECURSIVE Flat(_)
Flat(ss) == IF ss = <<>> THEN <<>> ELSE Head(ss) \o Flat(Tail(ss))

\* the basis functions of one shell, in storage order: function id = <<shell uid, contraction, label>>
ShellFuns(sh) ==
  Flat([j \in 1..Len(sh.cons) |-> [p \in 1..NFun(sh.cons[j]) |-> <<sh.uid, sh.org[j], sh.cons[j], p>>]])
\* ordered list of (center, function) of a basis: what the rows of mo.coeffs refer to
FunctionList(shells) == Flat([i \in 1..Len(shells) |-> [k \in 1..Len(ShellFuns(shells[i])) |-> <<shells[i].c, ShellFuns(shells[i])[k]>>]])

ShellRows(sh, conv) ==   \* rows contributed by one shell, in storage order, with label and sign
  Flat([j \in 1..Len(sh.cons) |->
        [p \in 1..NFun(sh.cons[j]) |->
           [fid |-> <<sh.uid, sh.org[j], conv[sh.cons[j]][p].lab>>, sgn |-> conv[sh.cons[j]][p].sgn]]])
Rows(shells, conv) == Flat([i \in 1..Len(shells) |-> ShellRows(shells[i], conv)])

\* v[i] = [src, sgn]: storage row i holds sgn * (symbolic coefficient row src)
Denote(shells, conv, v) ==
  LET r == Rows(shells, conv) IN { <<r[i].fid, v[i].src, v[i].sgn * r[i].sgn>> : i \in 1..Len(r) }
Ident(n) == [i \in 1..n |-> [src |-> i, sgn |-> 1]]

(* ---- segmentation (convert_to_segmented) ---- *)
IsSP(sh) == Len(sh.cons) = 2 /\ sh.cons[1] = <<0, "c">> /\ sh.cons[2] = <<1, "c">>
Keeps(sh, keepSp) == Len(sh.cons) = 1 \/ (keepSp /\ IsSP(sh))
SegShell(sh, keepSp) ==
  IF Keeps(sh, keepSp) THEN << sh >>
  ELSE [j \in 1..Len(sh.cons) |-> [uid |-> sh.uid, c |-> sh.c, cons |-> << sh.cons[j] >>, org |-> << sh.org[j] >>]]
Segment(shells, keepSp) == Flat([i \in 1..Len(shells) |-> SegShell(shells[i], keepSp)])
NeedsSegmentation(shells, keepSp) == \E i \in 1..Len(shells) : ~Keeps(shells[i], keepSp)

(* ---- convention change ---- *)
Pos(cv, lab) == CHOOSE i \in 1..Len(cv) : cv[i].lab = lab
ConvShellType(c1, c2) == [i \in 1..Len(c2) |-> LET j == Pos(c1, c2[i].lab) IN [src |-> j, sgn |-> c1[j].sgn * c2[i].sgn]]
RECURSIVE ConvBlocks(_, _, _, _)
ConvBlocks(types, C1, C2, off) ==
  IF types = <<>> THEN <<>>
  ELSE LET sp == ConvShellType(C1[Head(types)], C2[Head(types)]) IN
       [i \in 1..Len(sp) |-> [src |-> sp[i].src + off, sgn |-> sp[i].sgn]] \o ConvBlocks(Tail(types), C1, C2, off + Len(sp))
Types(shells) == Flat([i \in 1..Len(shells) |-> shells[i].cons])
ApplySP(sp, v) == [i \in 1..Len(sp) |-> [src |-> v[sp[i].src].src, sgn |-> v[sp[i].src].sgn * sp[i].sgn]]
Reconvention(shells, C1, C2, v) == ApplySP(ConvBlocks(Types(shells), C1, C2, 0), v)

(* ---- writers that sort shells by center (Molden) must move the rows with them ---- *)
NRows(sh) == LET RECURSIVE S(_) S(ts) == IF ts = <<>> THEN 0 ELSE NFun(Head(ts)) + S(Tail(ts)) IN S(sh.cons)
Offset(shells, i) == LET RECURSIVE O(_) O(k) == IF k = 0 THEN 0 ELSE NRows(shells[k]) + O(k-1) IN O(i - 1)
\* stable order of shell indices by center
Order(shells) == LET n == Len(shells)
                     key(i) == shells[i].c * (n + 1) + i
                 IN [r \in 1..n |-> CHOOSE i \in 1..n : Cardinality({j \in 1..n : key(j) < key(i)}) = r - 1]
SortShells(shells) == [r \in 1..Len(shells) |-> shells[Order(shells)[r]]]
SortRows(shells, v) == Flat([r \in 1..Len(shells) |->
     LET i == Order(shells)[r] IN [p \in 1..NRows(shells[i]) |-> v[Offset(shells, i) + p]]])
=============================================================================
