---- MODULE MC_ApiDump ----
EXTENDS ApiDump
CONSTANTS MaxF, W
MCInit == Init(Scenarios(MaxF, W))
Spec == MCInit /\ [][Next]_vars
Live == <>(pc = "done")
FairSpec == Spec /\ WF_vars(Next)
====
