------------------------------- MODULE Vendors -------------------------------
(* Known deviations of programs that write Molden / Molekel files, and the       *)
(* corrections applied when such a file is loaded (property C05).                *)
(* A distortion of a shell type is a record of symbolic factors:                 *)
(*   prim  : factor per primitive (depends on the exponent)                      *)
(*   shell : one scalar for the whole contraction                                *)
(*   mo    : factor per basis function applied to the orbital coefficients       *)
(*   sgn   : sign pattern applied to the functions of the shell                  *)
(* "1" means no deviation.  A correction cancels a deviation on a shell type when *)
(* all components agree; re-normalising the contractions cancels any per-shell    *)
(* scalar.  The norm test of the loader is abstracted as "the composite is the    *)
(* identity on every shell type present" (sound for complete orthonormal orbital  *)
(* sets, which is what the property quantifies over).                             *)
EXTENDS Integers, Sequences, FiniteSets, TLC
Types == {"s", "p", "dc", "dp", "fc", "fp", "gc", "gp", "hp"}
Id == [prim |-> "1", shell |-> "1", mo |-> "1", sgn |-> "1"]
D(p, s, m, g) == [prim |-> p, shell |-> s, mo |-> m, sgn |-> g]
Vendors == {"standard", "orca", "psi4_old", "turbomole", "cfour", "unnormalized", "psi4_new"}
Dist(v, t) ==
  CASE v = "standard" -> Id
    [] v = "orca" -> (CASE t = "s" -> D("N000", "1", "1", "1") [] t = "p" -> D("N100", "1", "1", "1") [] t = "dp" -> D("N110", "1", "1", "1")
                        [] t = "fp" -> D("N111", "1", "1", "orca_f") [] t = "gp" -> D("N211", "1", "1", "orca_g")
                        [] t = "hp" -> D("N500", "1", "1", "orca_h") [] OTHER -> Id)
    [] v = "psi4_old" -> (CASE t = "s" -> D("N000", "1", "1", "1") [] t = "p" -> D("N100", "1", "1", "1")
                            [] t = "dp" -> D("N110", "1/sqrt3", "1", "1") [] t = "fp" -> D("N111", "1/sqrt15", "1", "1") [] OTHER -> Id)
    [] v = "turbomole" -> (CASE t = "dc" -> D("1", "sqrt3", "1", "1") [] t = "fc" -> D("1", "sqrt15", "1", "1")
                             [] t = "gc" -> D("1", "sqrt105", "1", "1") [] OTHER -> Id)
    [] v = "cfour" -> (CASE t = "dc" -> D("1", "1", "cfour_d", "1") [] t = "fc" -> D("1", "1", "cfour_f", "1")
                         [] t = "gc" -> D("1", "1", "cfour_g", "1") [] OTHER -> Id)
    [] v = "unnormalized" -> D("1", "any", "1", "1")
    [] v = "psi4_new" -> (CASE t = "dc" -> D("1", "any", "psi4_d", "1") [] t = "fc" -> D("1", "any", "psi4_f", "1")
                            [] t = "gc" -> D("1", "any", "psi4_g", "1") [] OTHER -> D("1", "any", "1", "1"))
\* shell types each program can write in a Molden / Molekel file
Allowed(v) == CASE v = "turbomole" -> {"s", "p", "dc", "fc", "gc"} [] v = "cfour" -> {"s", "p", "dc", "fc", "gc"}
                [] v = "psi4_new" -> {"s", "p", "dc", "fc", "gc"} [] v = "psi4_old" -> {"s", "p", "dp", "fp"}
                [] v = "orca" -> {"s", "p", "dp", "fp", "gp", "hp"} [] OTHER -> Types \ {"hp"}
\* the corrections of the loader, in the order they are tried; each is the inverse of one deviation
Fixes == <<"none", "orca", "psi4_old", "turbomole", "cfour", "unnormalized", "psi4_new">>
FixOf(f, t) == IF f = "none" THEN Id
               ELSE IF f = "unnormalized" THEN D("1", "renorm", "1", "1")
               ELSE IF f = "psi4_new" THEN [Dist("psi4_new", t) EXCEPT !.shell = "renorm"]
               ELSE Dist(f, t)
Cancels(f, v, t) == LET a == FixOf(f, t)  b == Dist(v, t) IN
  a.prim = b.prim /\ a.mo = b.mo /\ a.sgn = b.sgn /\ (a.shell = b.shell \/ a.shell = "renorm")
\* corrections after which the file denotes the true wavefunction
Admissible(v, T) == {Fixes[i] : i \in {k \in 1..Len(Fixes) : \A t \in T : Cancels(Fixes[k], v, t)}}
WarningName(f) == CASE f = "none" -> "none" [] f = "orca" -> "ORCA" [] f = "psi4_old" -> "PSI4 < 1.0" [] f = "turbomole" -> "Turbomole"
                    [] f = "cfour" -> "CFOUR 2.1" [] f = "unnormalized" -> "unnormalized contractions" [] f = "psi4_new" -> "PSI4 <= 1.3.2"
\* what the loader picks: the first correction in the cascade that passes
Cascade(v, T) == LET ok == {k \in 1..Len(Fixes) : \A t \in T : Cancels(Fixes[k], v, t)} IN
                 IF ok = {} THEN "LoadError" ELSE Fixes[CHOOSE k \in ok : \A j \in ok : k <= j]

VARIABLES vendor, types, picked
vars == <<vendor, types, picked>>
Init == vendor \in Vendors /\ types \in (SUBSET Allowed(vendor)) \ {{}} /\ picked = "pending"
Load == picked = "pending" /\ picked' = Cascade(vendor, types) /\ UNCHANGED <<vendor, types>>
Spec == Init /\ [][Load]_vars
StandardNeedsNoFix == (picked # "pending" /\ vendor = "standard") => picked = "none"
CascadeCompleteForVendor == picked # "LoadError"
CascadeSound == (picked \notin {"pending", "LoadError"}) => picked \in Admissible(vendor, types)
\* a deviation is never "repaired" by doing nothing, unless it is the identity on the shells present
NoFixOnlyIfIdentity == (picked = "none") => \A t \in types : Dist(vendor, t).prim = "1" /\ Dist(vendor, t).mo = "1"
                                              /\ Dist(vendor, t).sgn = "1" /\ Dist(vendor, t).shell = "1"
=============================================================================
