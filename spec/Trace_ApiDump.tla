---- MODULE Trace_ApiDump ----
(* Trace validation of recorded dump_one / dump_many / write_input executions.               *)
(* Logged events: pull, open, open_fail, write, write_fault, close, end.                     *)
(* Silent (unlogged) steps: Select, PreFlight, FrameDone, WriterFail -- their pc only advances, *)
(* so they are bounded by the next logged event.  The number of write calls per frame is     *)
(* format specific: Write / FrameDone are used without the wpf bound of the exhaustive model. *)
EXTENDS ApiDump, Json, IOUtils, TLCExt
Traces == JsonDeserialize(IOEnv.TRACE_FILE)
N == Len(Traces)
VARIABLES tid, l
tvars == <<vars, tid, l>>
ASSUME \A t \in 1..N : TLCSet(t, 0)
TInit == tid \in 1..N /\ l = 2 /\ sc = Traces[tid][1].sc /\ Init0
Ev == Traces[tid][l]
Silent == (Select \/ PreFlight \/ FrameDoneBody \/ WriterFail) /\ UNCHANGED <<tid, l>>
FileClass == IF file \in {"partial", "new"} THEN "changed" ELSE file
Logged ==
  /\ l <= Len(Traces[tid])
  /\ \/ Ev.ev = "pull" /\ Pull /\ (Ev.i = pulled + 1)
     \/ Ev.ev = "open" /\ ~sc.openFails /\ OpenW /\ Ev.existed = sc.existed
     \/ Ev.ev = "open_fail" /\ sc.openFails /\ OpenW
     \/ Ev.ev = "write" /\ sc.faultAt # k + 1 /\ WriteBody
     \/ Ev.ev = "write_fault" /\ sc.faultAt = k + 1 /\ WriteBody
     \/ Ev.ev = "close" /\ CloseW
     \/ Ev.ev = "end" /\ pc = "done" /\ out = Ev.out /\ FileClass = Ev.file /\ fd = Ev.fd
          /\ (Ev.out = "return" => (warned = Ev.warned /\ Ev.complete))
          /\ ((Ev.out = "return" /\ sc.op = "dump_one") => Ev.ret = (IF warned THEN "new" ELSE "same"))
          /\ UNCHANGED vars
  /\ l' = l + 1 /\ UNCHANGED tid
  /\ TLCSet(tid, IF TLCGet(tid) < l THEN l ELSE TLCGet(tid))
TNext == Silent \/ Logged
TSpec == TInit /\ [][TNext]_tvars
Report == \A t \in 1..N : PrintT(<<"RESULT", t, TLCGet(t), Len(Traces[t])>>)
====
