SPECIFICATION TSpec
CONSTANT Free = {}
CONSTANT Fixed = {}
POSTCONDITION Report
CHECK_DEADLOCK FALSE
