---- MODULE MC_ApiLoad ----
EXTENDS ApiLoad
CONSTANT MaxF
Kinds == {"ok", "bad", "cut"}
Frames == UNION {[1..n -> Kinds] : n \in 0..MaxF}
OKF(f) == \A i \in 1..Len(f) : f[i] = "cut" => i = Len(f)
Scen == [many : BOOLEAN, sel : SelKinds, frames : {f \in Frames : OKF(f)}, cutWarns : BOOLEAN, discardAfter : 0..MaxF]
MCInit == sc \in Scen /\ Init0
Spec == MCInit /\ [][Next]_vars /\ WF_vars(Next)
Live == <>(pc = "done")
====
