---- MODULE MC_ApiLoad ----
EXTENDS ApiLoad
CONSTANT MaxF
Kinds == {"ok", "bad", "cut"}
Frames == UNION {[1..n -> Kinds] : n \in 0..MaxF}
OKF(f) == \A i \in 1..Len(f) : f[i] = "cut" => i = Len(f)
Scen == [many : BOOLEAN, sel : SelKinds, frames : {f \in Frames : OKF(f)}, cutWarns : BOOLEAN, discardAfter : 0..MaxF,
         neverStarted : BOOLEAN]
OKS(s) == s.neverStarted => (s.many /\ s.discardAfter = 0)
MCInit == sc \in Scen /\ OKS(sc) /\ Init0
Spec == MCInit /\ [][Next]_vars /\ WF_vars(Next)
Live == <>(pc = "done")
====
