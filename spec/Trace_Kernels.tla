---- MODULE Trace_Kernels ----
(* Validation of recorded calls of the numerical helpers (C20) and of the 1-D overlap kernel (C06). *)
EXTENDS Kernels, Json, IOUtils, TLCExt
Traces == JsonDeserialize(IOEnv.TRACE_FILE)
N == Len(Traces)
VARIABLES tid, l
tvars == <<tid, l>>
ASSUME \A t \in 1..N : TLCSet(t, 0)
TInit == tid \in 1..N /\ l = 1
ToSet(s) == {s[i] : i \in 1..Len(s)}
SumSeq(s) == LET RECURSIVE T(_) T(k) == IF k = 0 THEN 0 ELSE s[k] + T(k - 1) IN T(Len(s))
SumSq(s) == LET RECURSIVE T(_) T(k) == IF k = 0 THEN 0 ELSE s[k] * s[k] + T(k - 1) IN T(Len(s))
\* assigning a four-index element fills exactly the eight symmetry-equivalent positions
FourIndexOK(e) == ToSet(e.changed) = Orbit(e.q)
StrBoolOK(e) == e.r = StrToBool(e.codes)
\* volume^2 is the Gram determinant (exactly, for integer vectors) and the volume is non-negative
VolumeOK(e) == e.sq = GramDet(e.vecs) /\ e.exact /\ e.nonneg
\* the claimed spectrum is the spectrum of D S (first two power sums, computed by TLC from the integer
\* matrices), and the code returned it, with S-orthonormal orbitals reconstructing D
NaturalsOK(e) == LET M == MatMul(e.D, e.S) IN
  /\ Symmetric(e.D) /\ Symmetric(e.S)
  /\ Trace(M) = SumSeq(e.spec) /\ Trace(MatMul(M, M)) = SumSq(e.spec)
  /\ e.occ_match /\ e.orthonormal /\ e.reconstruct
\* check_dm accepts exactly the matrices whose occupations lie in [-eps, occ_max + eps] (integers scaled by e.den)
CheckDmOK(e) == LET M == MatMul(e.D, e.S) IN
  /\ Trace(M) = SumSeq(e.spec) /\ Trace(MatMul(M, M)) = SumSq(e.spec)
  /\ e.accepted = (\A i \in 1..Len(e.spec) : e.spec[i] * e.k >= e.lo /\ e.spec[i] * e.k <= e.hi)
\* the 1-D overlap kernel of the code on the integer lattice (p = 1/2)
Kernel1dOK(e) == e.value = OS(e.n1, e.n2, e.pa, e.pb) /\ e.exact
Step ==
  /\ l <= Len(Traces[tid])
  /\ LET e == Traces[tid][l] IN
       (CASE e.op = "FourIndex" -> FourIndexOK(e)
          [] e.op = "StrBool" -> StrBoolOK(e)
          [] e.op = "Volume" -> VolumeOK(e)
          [] e.op = "Naturals" -> NaturalsOK(e)
          [] e.op = "CheckDm" -> CheckDmOK(e)
          [] e.op = "Kernel1d" -> Kernel1dOK(e)) = TRUE
  /\ l' = l + 1 /\ UNCHANGED tid
  /\ TLCSet(tid, IF TLCGet(tid) < l THEN l ELSE TLCGet(tid))
TSpec == TInit /\ [][Step]_tvars
Report == \A t \in 1..N : PrintT(<<"RESULT", t, TLCGet(t), Len(Traces[t])>>)
====
