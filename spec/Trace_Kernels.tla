---- MODULE Trace_Kernels ----
(* Validation of recorded calls of the numerical helpers (C20) and of the 1-D overlap kernel (C06). *)
EXTENDS Kernels, Json, IOUtils, TLCExt
Traces == JsonDeserialize(IOEnv.TRACE_FILE)
N == Len(Traces)
VARIABLES tid, l
tvars == <<tid, l>>
ASSUME \A t \in 1..N : TLCSet(t, 0)
TInit == tid \in 1..N /\ l = 1
ToSet(s) == {s[i] : i \in 1..Len(s)}
SumSeq(s) == LET RECURSIVE T(_) T(k) == IF k = 0 THEN 0 ELSE s[k] + T(k - 1) IN T(Len(s))
SumSq(s) == LET RECURSIVE T(_) T(k) == IF k = 0 THEN 0 ELSE s[k] * s[k] + T(k - 1) IN T(Len(s))
\* assigning a four-index element fills exactly the eight symmetry-equivalent positions
FourIndexOK(e) == ToSet(e.changed) = Orbit(e.q)
StrBoolOK(e) == e.r = StrToBool(e.codes)
\* volume^2 is the Gram determinant (exactly, for integer vectors) and the volume is non-negative
VolumeOK(e) == e.sq = GramDet(e.vecs) /\ e.exact /\ e.nonneg
\* the claimed spectrum is the spectrum of D S (first two power sums, computed by TLC from the integer
\* matrices), and the code returned it, with S-orthonormal orbitals reconstructing D
NaturalsOK(e) == LET M == MatMul(e.D, e.S) IN
  /\ Symmetric(e.D) /\ Symmetric(e.S)
  /\ Trace(M) = SumSeq(e.spec) /\ Trace(MatMul(M, M)) = SumSq(e.spec)
  /\ e.occ_match /\ e.orthonormal /\ e.reconstruct
\* check_dm accepts exactly the matrices whose occupations lie in [-eps, occ_max + eps] (integers scaled by e.den)
CheckDmOK(e) == LET M == MatMul(e.D, e.S) IN
  /\ Trace(M) = SumSeq(e.spec) /\ Trace(MatMul(M, M)) = SumSq(e.spec)
  /\ e.accepted = (\A i \in 1..Len(e.spec) : e.spec[i] * e.k >= e.lo /\ e.spec[i] * e.k <= e.hi)
\* the 1-D overlap kernel of the code on the integer lattice (p = 1/2)
Kernel1dOK(e) == e.value = OS(e.n1, e.n2, e.pa, e.pb) /\ e.exact
\* a Cartesian primitive pair on the lattice through the public overlap function: exp(R^2/8) sqrt(D0 D1) S = Kx Ky Kz
Kernel3dOK(e) == /\ e.exact
                 /\ e.value = OS(e.na[1], e.nb[1], e.pa[1], 0 - e.pa[1]) * OS(e.na[2], e.nb[2], e.pa[2], 0 - e.pa[2])
                               * OS(e.na[3], e.nb[3], e.pa[3], 0 - e.pa[3])
\* equivariance: after the TLC-generated action sequence the identity-labelled, sign-corrected matrix is unchanged
EquivOK(e) == e.same /\ e.ref_same
ReferenceOK(e) == e.same /\ e.sym /\ e.psd /\ e.transpose
Step ==
  /\ l <= Len(Traces[tid])
  /\ LET e == Traces[tid][l] IN
       (CASE e.op = "FourIndex" -> FourIndexOK(e)
          [] e.op = "StrBool" -> StrBoolOK(e)
          [] e.op = "Volume" -> VolumeOK(e)
          [] e.op = "Naturals" -> NaturalsOK(e)
          [] e.op = "CheckDm" -> CheckDmOK(e)
          [] e.op = "CheckDmEdge" -> (~e.raised_other /\ e.accepted = (\A i \in 1..Len(e.spec) : e.spec[i] >= e.lo /\ e.spec[i] <= e.hi))
          [] e.op = "Kernel1d" -> Kernel1dOK(e)
          [] e.op = "Kernel3d" -> Kernel3dOK(e)
          [] e.op = "Equiv" -> EquivOK(e)
          [] e.op = "Reference" -> ReferenceOK(e)
          [] e.op = "TfTable" -> e.same        \* the Cartesian -> pure tables are the documented solid harmonics
          [] e.op = "Screening" -> e.same
          [] e.op = "Rejects" -> e.r = "rejected") = TRUE
  /\ l' = l + 1 /\ UNCHANGED tid
  /\ TLCSet(tid, IF TLCGet(tid) < l THEN l ELSE TLCGet(tid))
TSpec == TInit /\ [][Step]_tvars
Report == \A t \in 1..N : PrintT(<<"RESULT", t, TLCGet(t), Len(Traces[t])>>)
====
