SPECIFICATION SSpec
INVARIANT ExplicitWins
INVARIANT ErrorIffNoCandidate
INVARIANT ResultSupports
INVARIANT MatchesPattern
CHECK_DEADLOCK FALSE
