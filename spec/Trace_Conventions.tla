---- MODULE Trace_Conventions ----
(* Validation of convention tables exported from the code and of recorded                     *)
(* convert_conventions calls (one event per trace) against Conventions.tla.                   *)
EXTENDS Conventions, Json, IOUtils, TLCExt
Traces == JsonDeserialize(IOEnv.TRACE_FILE)
N == Len(Traces)
VARIABLES tid, l
tvars == <<tid, l>>
ASSUME \A t \in 1..N : TLCSet(t, 0)
TInit == tid \in 1..N /\ l = 1
ToSP(perm, sgn) == [i \in 1..Len(perm) |-> [src |-> perm[i], sgn |-> sgn[i]]]
\* a table entry of the code base: lists each function of its shell type exactly once
TableOK(e) == WellFormed(e.conv, e.l, e.kind)
\* one shell type: accepted with the right signed permutation, or rejected because not Compatible
ConvertOK(e) ==
  IF Compatible(e.c1, e.c2)
  THEN e.r = "ok" /\ ToSP(e.perm, e.sgn) = ConvertDir(e.c1, e.c2, e.rev)
  ELSE e.r = "rejected"
\* a whole basis
BasisOK(e) ==
  IF BasisCompatible(e.blocks, e.C1, e.C2)
  THEN e.r = "ok" /\ ToSP(e.perm, e.sgn) = ConvertBasis(e.blocks, e.C1, e.C2, e.rev, 0)
                  /\ IsSignedPerm(ToSP(e.perm, e.sgn))
  ELSE e.r = "rejected"
\* A -> B -> C equals A -> C, and there-and-back is the identity, on the results the code returned
ComposeOK(e) ==
  LET ab == ToSP(e.pab, e.sab)
      bc == ToSP(e.pbc, e.sbc)
      ac == ToSP(e.pac, e.sac)
      ba == ToSP(e.pba, e.sba) IN
  /\ ComposeSP(bc, ab) = ac
  /\ ComposeSP(ba, ab) = IdSP(Len(ab))
  /\ ab = ConvertBasis(e.blocks, e.CA, e.CB, FALSE, 0)
  /\ ac = ConvertBasis(e.blocks, e.CA, e.CC, FALSE, 0)
Step ==
  /\ l <= Len(Traces[tid])
  /\ LET e == Traces[tid][l] IN
       (CASE e.op = "Table" -> TableOK(e)
          [] e.op = "Convert" -> ConvertOK(e)
          [] e.op = "Basis" -> BasisOK(e)
          [] e.op = "Compose" -> ComposeOK(e)) = TRUE
  /\ l' = l + 1 /\ UNCHANGED tid
  /\ TLCSet(tid, IF TLCGet(tid) < l THEN l ELSE TLCGet(tid))
TSpec == TInit /\ [][Step]_tvars
Report == \A t \in 1..N : PrintT(<<"RESULT", t, TLCGet(t), Len(Traces[t])>>)
====
