---- MODULE Trace_IODataObj ----
(* Batched trace validation of recorded IOData histories against IODataObj.   *)
(* Every event: [op, v | a, r, obs, (rv), (rb)]; the first event of a trace is *)
(* a Construct.  The module invariants are conjoined to the step so that one   *)
(* bad trace does not stop the batch.                                          *)
EXTENDS IODataObj, Json, IOUtils, TLCExt
Traces == JsonDeserialize(IOEnv.TRACE_FILE)
N == Len(Traces)
VARIABLES tid, l
tvars == <<vars, tid, l>>
ASSUME \A t \in 1..N : TLCSet(t, 0)
TInit == Init /\ tid \in 1..N /\ l = 1
Outs(e) == CASE e.op = "Construct" -> DoConstruct(e.a)
             [] e.op = "SetAtn" -> DoSetAtn(st, e.v)
             [] e.op = "SetCore" -> DoSetCore(st, e.v)
             [] e.op = "SetCharge" -> DoSetCharge(st, e.v)
             [] e.op = "SetNelec" -> DoSetNelec(st, e.v)
             [] e.op = "SetSpinpol" -> DoSetSpinpol(st, e.v)
             [] e.op = "SetMo" -> DoSetMo(st, e.v)
             [] e.op = "SetLen" -> DoSetLen(st, e.a, e.v)
             [] e.op = "Read" -> DoRead(st, e.a)
AssignedProp(op) == CASE op = "SetCharge" -> "charge" [] op = "SetNelec" -> "nelec"
                      [] op = "SetSpinpol" -> "spinpol"
Step ==
  /\ l <= Len(Traces[tid])
  /\ (l = 1) = (Traces[tid][l].op = "Construct")
  /\ LET e == Traces[tid][l] IN
       \E o \in Outs(e) :
          /\ o.r = e.r
          /\ st' = o.s /\ res' = o.r
          \* "(...) = TRUE" forces value-level (lazy, short-circuit) evaluation inside the action
          /\ ((e.op # "Construct" \/ o.r = "ok") => Obs(o.s) = e.obs) = TRUE
          /\ (o.r = "ok" => StateInv(o.s)) = TRUE
          /\ (e.op = "Read" => ReadVal(st, e.a) = e.rv) = TRUE
          \* a successful assignment reads back as assigned
          /\ ((e.op \in {"SetCharge", "SetNelec", "SetSpinpol"} /\ o.r = "ok")
                => (e.rb = e.v /\ ReadVal(o.s, AssignedProp(e.op)) = e.rb)) = TRUE
          \* ... and never changes the core charges
          /\ ((e.op \in {"SetCharge", "SetNelec", "SetSpinpol"}) => e.obs.core = Obs(st).core) = TRUE
          \* a failed assignment / a read leaves every observable unchanged
          /\ ((e.op # "Construct" /\ (o.r # "ok" \/ e.op = "Read")) => e.obs = Obs(st)) = TRUE
  /\ l' = l + 1 /\ UNCHANGED tid
  /\ TLCSet(tid, IF TLCGet(tid) < l THEN l ELSE TLCGet(tid))
TSpec == TInit /\ [][Step]_tvars
Report == \A t \in 1..N : PrintT(<<"RESULT", t, TLCGet(t), Len(Traces[t])>>)
====
