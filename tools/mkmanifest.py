#!/usr/bin/env python3
"""Regenerate MANIFEST.json from the table below (keeps the file valid at all times)."""
import json, os, sys
HERE = os.path.dirname(os.path.dirname(os.path.abspath(__file__)))
PROPS = [json.loads(l)["id"] for l in open(os.path.join(HERE, "properties.jsonl"))]

CHECKS = {
 "C11": dict(
    category="model_checking", design_ref="DESIGN.md section 6 C11",
    text="TLC checks ChargeLaw, NatomAgree, MoWins, CoreDefault, ReadBack, CoreStable, MoRefuses, FailedAssignIsNoop, "
         "ReadIsNoop, ReadIdempotent on every reachable state of a bounded IODataObj model; every history of the real "
         "IOData class up to a depth over a 50-operation alphabet, constructor variants, seeded random histories and "
         "TLC-simulated behaviours are validated event by event against the same operators (trace validation).",
    note="values from small alphabets on a quarter grid; observables read from a deep copy; TLC, the JSON module and the "
         "harness encoder are trusted",
    technique="TLA+ model (IODataObj.tla) checked with TLC + batched trace validation of real IOData histories and replay of TLC-simulated behaviours"),
 "C12": dict(
    category="model_checking", design_ref="DESIGN.md section 6 C12",
    text="TLC checks SpinSum, Nelec, SpinpolAbs, Slices, length/count consistency, SetSpinKeepsOther, RejectedIsNoop and "
         "GeneralizedRefuses on every construction and every assignment sequence up to a depth of a bounded Orbitals model; "
         "exhaustive assignment trees, all construction-argument combinations and seeded random histories (up to 6 orbitals "
         "per spin) of the real MolecularOrbitals class, and constructions of the real Shell class over all small shape "
         "tuples and every (l, kind), are validated against the same operators by TLC.",
    note="occupations on a 2^-20 grid (exact); occsa/occsb never assigned None; observables read from a deep copy",
    technique="TLA+ model (Orbitals.tla) checked with TLC + batched trace validation of real MolecularOrbitals histories and Shell constructions"),
 "C10": dict(
    category="model_checking", design_ref="DESIGN.md section 6 C10",
    text="TLC walks the Cayley graph of the signed-permutation group (all pairs of conventions of n<=3/4 labels) checking "
         "IsSignedPerm, LabelMoves, RoundTripId, ReverseIsInverse in every state and Composition along every edge; every "
         "convention table exported from the live code is checked WellFormed by TLC; recorded convert_conventions calls "
         "(all table pairs x shared shell types x reverse, all signed permutations of s/p shells, random bases x random "
         "conventions l<=9, composition triples, every single-label corruption) are validated against Convert/ConvertBasis.",
    note="label strings are parsed by the harness; tables are read from the modules at run time",
    technique="TLA+ model (Conventions.tla) checked with TLC + TLC validation of exported tables and recorded convert_conventions calls"),
 "C08": dict(
    category="model_checking", design_ref="DESIGN.md section 6 C08",
    text="TLC checks PreflightSparesFile, FormatErrorTouchesNothing, FirstFrameGuarantee, EmptyFramesNoFile, ErrorClass(ByOp), "
         "NoLeakedFd, LazyExactlyOnce, ReturnMeansComplete, NotSwallowed, WarnedIffConverted and termination on every scenario of "
         "the bounded ApiDump protocol model; ~1000 (quick) concrete scenarios over all 13+4 dump formats and both input writers "
         "(every subset of required attributes cleared, every rejection reason, allow_changes, pre-existing target, faulty-frame "
         "index, list/generator/raising iterables, write fault at the k-th write, open failure) are executed through tracing "
         "open/iterable shims and every recorded trace is validated against the protocol by TLC.",
    note="BaseExceptions and failures of close() are not injected; an exception from the caller's iterable may surface wrapped or not",
    technique="TLA+ protocol model (ApiDump.tla) checked with TLC + trace validation of real dump_one/dump_many/write_input executions with fault injection"),
 "C13": dict(
    category="model_checking", design_ref="DESIGN.md section 6 C13",
    text="TLC checks NoLeakedFd, PrefixInOrder, NeverSkips, BadFrameIsLoadError, NoPartialWithoutNotice and termination of the "
         "ApiLoad protocol (frames ok/bad/cut, discarded iterators) and LazyExactlyOnce/ReturnMeansComplete of ApiDump; real "
         "dump_many (list/iterator/generator inputs) and load_many/load_one executions on generated and independently rendered "
         "trajectories (xyz, extxyz, pdb, mol2, sdf, gro) incl. truncation at every line, a corrupted numeric field or count in "
         "every frame, trailing blank lines and discarded iterators are validated event by event; each yielded frame is compared "
         "with a single-frame save/reload of that frame.",
    note="MOL2 cuts between optional sections and PDB fragments without ATOM records are treated as valid shorter files; FCHK trajectories not frame-sequential (see C07/C16)",
    technique="TLA+ protocol models (ApiLoad.tla, ApiDump.tla) checked with TLC + trace validation of real load_many/dump_many executions with truncation and corruption"),
 "C07": dict(
    category="model_checking", design_ref="DESIGN.md section 6 C07",
    text="TLC checks NoLeakedFd, FormatErrorTouchesNothing, OutcomeClass, PrefixInOrder and termination (<>done under weak "
         "fairness) of the ApiLoad protocol; thousands of loads of corpus files of all 25 modules (truncated at line boundaries "
         "and byte offsets, mutated, empty, binary, foreign content; load_one and load_many; explicit and name-derived format) "
         "run under a wall-clock alarm and an address-space limit through the tracing open shim, and every trace (open, yields "
         "with a shape-consistency verdict, close, outcome class, message names file, line number <= lines read, descriptor "
         "closed) is validated against the protocol by TLC. The line cursor all readers share (LineIter.tla: push-back stack, "
         "reported line number; LinenoLaw, DeliversInOrder) is model-checked and every operation sequence up to depth 5 plus "
         "random walks on the real LineIterator are validated against it.",
    note="frame kinds of arbitrary content are inferred from observed yields; shape consistency is computed from the data model only; termination is a budget of 120 CPU seconds per load (plus a wall-clock backstop)",
    technique="TLA+ protocol model (ApiLoad.tla) checked with TLC + trace validation of real load_one/load_many executions on truncated/mutated corpus files"),
 "C17": dict(
    category="model_checking", design_ref="DESIGN.md section 6 C17",
    text="The registry (modules, patterns, operations, declared lists) is exported from the live code into RegistryData.tla; "
         "TLC checks ExplicitWins, ErrorIffNoCandidate, ResultSupports, MatchesPattern on every (realised match signature x "
         "operation x explicit format) scenario and that every declared name is an IOData attribute; recorded public-API calls "
         "(selected module observed through probes, executed twice in shuffled order, FileFormatError touches nothing), the "
         "lists printed by docs/gen_formats*.py and the CLI help, the non-None attributes of every loaded corpus/generated file "
         "and the enforcement of each required attribute before open are validated against the specification by TLC.",
    note="file names are abstracted to match signatures computed by an independent glob matcher; a dict attribute counts as set when not None",
    technique="TLA+ model (Select.tla + registry generated from live code) checked with TLC + TLC validation of recorded API selections, declared lists and loaded objects"),
 "C14": dict(
    category="model_checking", design_ref="DESIGN.md section 6 C14",
    text="TLC runs segmentation as a state machine over all bases of <=2 (quick) / 3 (thorough) shells from 9 shell kinds x centers x "
         "keep_sp and checks SameFunctions, FullySegmented, IdentityShortcut, Idempotent, and the un-restriction laws "
         "(UnrestrictPreserves: occupations, slices, electron count, spin polarisation, idempotence) over all small restricted "
         "orbital sets; ~14k (quick) executions of convert_to_segmented / convert_to_unrestricted / prepare_segmented / "
         "prepare_unrestricted_aminusb are projected (shell structure from tags, identity of returned object, warnings, exception "
         "class, exact equality of overlap and density matrices) and validated against Segment / Unrestrict by TLC.",
    note="shell identity recovered from tagged exponents/coefficients; occupations on a 2^-20 grid",
    technique="TLA+ models (Wavefunction.tla, Orbitals.tla) checked with TLC + TLC validation of recorded conversion calls"),
 "C16": dict(
    category="model_checking", design_ref="DESIGN.md section 6 C16",
    text="TLC explores every interleaving of the steps of 2 (quick) / 3 (thorough) API calls sharing the global tables and checks "
         "GlobalsFrozen, ResultIsFunctionOfArgs and termination; a pool of ~60-150 API calls (all formats, all operations, "
         "conversions, failing calls, and the four operations with the format guessed from one shared file name, incl. names that "
         "match two formats of different capabilities) gets reference outcome digests from one fresh interpreter per call; seeded permutations "
         "with repetitions in one interpreter (tables digested after every call) and 2..16-thread runs incl. forced two-thread "
         "alternation at open/write/read/close are validated against the specification: outcome = reference, tables unchanged.",
    note="all module-level dict/list/tuple/scalar attributes of every iodata module are digested; warnings-module state is not a listed table",
    technique="TLA+ model (ApiGlobals.tla) checked with TLC + trace validation of sequential histories and thread schedules against fresh-interpreter references"),
 "C09": dict(
    category="model_checking", design_ref="DESIGN.md section 6 C09",
    text="TLC checks HeapFrozen, AsIsOrRefused, ConversionAnnounced, SameObjectWhenNothingToConvert on every scenario of the "
         "DumpFrame model (operation x object kind x allow_changes x 1..3 repeated dumps); ~2000 (quick) real dump sequences "
         "(generator variants of all 13 formats, every corpus-loadable object incl. QCSchema objects with nested extra, dump_many, "
         "both input writers) record a deep before/after diff of everything reachable from the arguments (raw fields, derived "
         "properties, array bytes and flags, nested dict/list contents), return identity, warnings and wavefunction equivalence of "
         "converted objects, and are validated against the model by TLC.",
    note="default core charges are materialised before the first snapshot; for corpus objects the abstract kind is inferred from the first outcome",
    technique="TLA+ model (DumpFrame.tla) checked with TLC + trace validation of deep heap diffs around real dump calls"),
 "C18": dict(
    category="model_checking", design_ref="DESIGN.md section 6 C18",
    text="TLC checks CliEqualsApi, NoFalseSuccess, FailureNamesProblem, PreflightSparesOutput and termination on every scenario "
         "of the Cli model (load outcome x dump outcome x --many x pre-existing output x CLI-only failure); for ~170 (quick) / "
         "~2000 (thorough) conversions each of the subprocess CLI, the in-process convert() and the API composition in a fresh "
         "interpreter is executed and the triple (exit status, stderr, output state and byte hash) is validated by TLC.",
    note="a CLI-only failure with non-zero status and message is allowed by the statement; subprocesses run with one BLAS thread",
    technique="TLA+ model (Cli.tla) checked with TLC + TLC validation of differential CLI / convert() / API executions"),
 "C20": dict(
    category="model_checking", design_ref="DESIGN.md section 6 C20",
    text="TLC runs the congruence machine (D,S)->(E D E^T, E^-T S E^-1) over integer matrices of size 2 (quick) / 3 (thorough) "
         "checking SpectrumInvariant and StaysSymmetric in every state, and the orbit-closure, Gram-determinant invariance and "
         "vocabulary laws; the real set_four_index_element (every quadruple n<=4/6), strtobool (all case variants + other strings), "
         "volume (all 1-3 integer vectors in -2..2) and derive_naturals/check_dm (states of TLC-simulated behaviours and "
         "block-diagonal compositions up to size 12) are executed and validated by TLC against Orbit, StrToBool, GramDet and the "
         "carried spectrum.",
    note="floating-point closeness of the eigenproblem results is decided by the harness with scale-relative tolerances; TLC decides the discrete relations and that the claimed spectrum belongs to the integer matrices",
    technique="TLA+ model (Kernels.tla) checked with TLC + replay of TLC-generated machine states and TLC validation of recorded helper calls"),
 "C19": dict(
    category="model_checking", design_ref="DESIGN.md section 6 C19",
    text="TLC explores all ~1.3M scenarios of the Inputs model (program x attributes present x run type x charge x spin x keyword "
         "subset x template kind) checking KwargsWin, DefaultsOnlyWhenAbsent, UnknownProgramIsFormatError, ErrorClasses; ~1600 "
         "(quick) real write_input calls on molecules of 1..200 atoms (all elements, tagged coordinates, default/custom/broken "
         "templates, custom atom-line callbacks) are tokenised and every rendered field is validated by TLC against "
         "ExpectedText (precedence, keyword tables, rounding of charge and multiplicity) and the geometry block against the molecule.",
    note="charges/spins are quarter-valued away from ties; element symbols and the bohr-angstrom factor are the harness' own",
    technique="TLA+ model (Inputs.tla) checked with TLC + TLC validation of tokenised write_input outputs"),
 "C02": dict(
    category="exploration", design_ref="DESIGN.md section 6 C02",
    text="Formats.tla holds, as TLA+ data, what each of the 13 read/write formats stores (attribute, exact/real, printed digits, "
         "behaviour when absent, documented normalisations); TLC checks the table's well-formedness, the packing bijections and "
         "the POSCAR grouping as a state machine, exports the table and validates, for every generated object (optional-attribute "
         "subsets x sizes crossing field-width boundaries x magnitude classes x all bond types, tagged values), the relation "
         "descriptor of every stored attribute after dump_one/load_one against Expect(fmt, key, present): same / defaulted / "
         "poscar-order / bonds-untyped / casefold, never permuted, sign-flipped, rescaled, truncated, missing; refusals of "
         "in-domain objects and unreadable output are violations. QCSchema input/output documents and XYZ with user-defined atom "
         "columns are rows of the table; QCSchema.tla (documents as key sets, model-checked load/dump/reload machine) yields "
         "objects loaded from every class of molecule document, which must be writable and read back unchanged; arrays are also "
         "given in Fortran order and as strided views.",
    note="floating-point closeness is decided by the projection with per-field tolerances derived from the table; wavefunction equivalence under arbitrary conventions is C01",
    technique="TLA+ format table (Formats.tla) exported by TLC drives tagged round trips; TLC validates the projected relation descriptors"),
 "C15": dict(
    category="exploration", design_ref="DESIGN.md section 6 C15",
    text="Formats.tla states the idempotence of the round-trip normalisations (checked by TLC, e.g. SecondCycleIdentity of the POSCAR "
         "grouping state machine) and the single documented exception (QCSchema provenance); for every C02 object configuration and "
         "every corpus file converted to each of the 13 formats that accepts it, three save/reload cycles are executed and the triple "
         "(second-generation object bit-identical to the first, third file byte-identical to the second, drifting attributes) is "
         "validated by TLC against CyclesOK.",
    note="bit-identity is judged on the deep public state; first-reload failures of corpus objects of another format are recorded as observations (domain of C02/C01)",
    technique="TLA+ format model (Formats.tla, CyclesOK) + TLC validation of three-cycle save/reload executions"),
 "C03": dict(
    category="exploration", design_ref="DESIGN.md section 6 C03",
    text="Layouts.tla holds the published fixed-width column tables (SDF counts/atom/bond, PDB ATOM/CONECT, GRO, CRD, FCHK headers, "
         "Cube) and per format the loaded attributes with their prescribed unit; TLC checks the tables (cursor state machine: no "
         "gap, no overlap; literals fit) and exports them; a generic renderer that interprets the tables writes files of 15 "
         "formats from random tagged models (sizes/magnitudes chosen so that neighbouring fields touch, layout variants), the real "
         "readers load them and TLC validates that every attribute's relation descriptor is `same`. Gaussian log, ORCA output, "
         "GAMESS punch, Q-Chem output, WFX and CP2K ATOM output files are rendered in the shape the programs print them "
         "(AtomOrbitals.tla: the cells of the loaded coefficient matrix on which each printed expansion coefficient must sit; "
         "its filling-loop machine is model-checked and the cells found for tagged coefficients are validated); QCSchema.tla states where "
         "the loader must put the value of every key of a molecule document (attribute, extra, pass-through) and which omissions "
         "are errors or warnings, and TLC validates the placement observed for every generated key subset. CubeData.tla gives the "
         "data block of a cube file as a stream cut freely into lines and the reader's refill/take word cursor as a machine "
         "(model-checked: InOrder, NoStarve, Complete); every (shape, cut) of streams of <=6 (thorough <=9) numbers is exported, "
         "rendered, loaded, and TLC validates the stream position found on every cell.",
    note="the program-output renderers are transcriptions of sample outputs (no published column specification); WFN has no rendered counterpart here (C01 compares corpus WFN/WFX/FCHK files with independent readers); molden/molekel are rendered in C05",
    technique="TLA+ layout tables (Layouts.tla) exported by TLC drive an independent writer; TLC validates relation descriptors of loaded objects"),
 "C04": dict(
    category="exploration", design_ref="DESIGN.md section 6 C04",
    text="The unit each format prescribes per quantity is data in Layouts.tla (UnitTableTotal checked by TLC) and the conversion "
         "constants are a TLA+ table of scaled integers derived from independently stated CODATA values (decimal consistency "
         "checked by TLC); TLC validates (a) dimensional attributes of independently rendered files of 15 formats, (b) pairwise "
         "agreement of coordinates/cell vectors/masses of one model rendered in every format carrying them, (c) unit classes of "
         "masses/dipoles/energies/gradients of GAMESS, Q-Chem, ORCA, FCHK, CHARMM and extended-XYZ files against the numbers "
         "printed in the files, (d) the ten constants of iodata.utils to 2e-8 relative.",
    note="CODATA 2018 values are stated in the harness; unit classes of program-log quantities use isotopic masses and the printed numbers",
    technique="TLA+ unit/constant tables checked with TLC + TLC validation of cross-format and file-vs-object unit relations"),
 "C06": dict(
    category="other", design_ref="DESIGN.md section 6 C06 and section 7",
    text="TLC decides the integer Obara-Saika table of the 1-D Gaussian product integral on the lattice p = 1/2 (Moments, "
         "KernelSymmetry) and the invariance of function identities under the equivariance actions of Overlap.tla (state machine "
         "over pairs of abstract bases); the binding converts real compute_overlap values of Cartesian primitive pairs on the "
         "lattice to integers that TLC validates against OS (with the polynomial-identity argument this extends to all real "
         "arguments), replays TLC-simulated action sequences on concrete bases (identity-labelled, sign-corrected matrix must be "
         "invariant) and compares random one- and two-basis cases (l <= 7, generalized contractions, random conventions, "
         "coincident centres) with an independent reference evaluator; symmetry, PSD, transposition, screening and rejections.",
    note="exactness for general real exponents rests on the polynomial argument and on the reference evaluator (a second implementation built from docs/basis.rst), not on TLC",
    technique="TLA+ integer-lattice kernel table and equivariance state machine checked with TLC + lattice binding, behaviour replay and reference-evaluator comparison"),
 "C01": dict(
    category="exploration", design_ref="DESIGN.md section 6 C01",
    text="Wavefunction.tla gives the structural denotation of a wavefunction; TLC checks as a state machine over all bases of <=2/3 "
         "shells that every announced conversion (convention change, segmentation, sorting shells together with their rows) "
         "preserves it and exhibits that sorting without the rows does not; generated wavefunctions (ghost/ECP centres, every "
         "shell type the target holds, SP/generalized contractions, shell orders, convention tables of every format and random "
         "signed permutations, 5 orbital kinds, virtuals, density matrices, values beyond +-1000) with reference-orthonormal "
         "orbitals are dumped to the 5 formats; the file is projected through load_one and an independent WFN/WFX reader, orbitals "
         "and densities are evaluated at probe points with the reference evaluator and TLC validates each record against DumpOK "
         "(error of the contract, or readable + same nuclei/orbitals/occupations/energies/spin/density, conversions announced).",
    note="floating-point comparison of orbital values is done by the projection (tolerance 2e-6..3e-5 of the sum of |c x chi|); independent readers exist for WFN/WFX only",
    technique="TLA+ denotation model (Wavefunction.tla) checked with TLC + TLC validation of projected dump/reload records using a reference evaluator"),
 "C05": dict(
    category="exploration", design_ref="DESIGN.md section 6 C05",
    text="Vendors.tla encodes every known deviation (ORCA, PSI4 < 1.0, Turbomole, CFOUR 2.1, unnormalised contractions, PSI4 <= "
         "1.3.2) as a map shell type -> symbolic distortion and every correction of the loader as its inverse; TLC checks "
         "StandardNeedsNoFix, CascadeSound, CascadeCompleteForVendor, NoFixOnlyIfIdentity over every subset of shell types each "
         "vendor allows; an independent Molden/Molekel writer applies the documented deviations to true wavefunctions with complete "
         "reference-orthonormal orbital sets ({Molden, Molekel} x {AU, Angs} x restricted/unrestricted x norm_threshold), the real "
         "loader reads them and TLC validates (same orbitals at probe points, orthonormal w.r.t. the returned basis, warning in "
         "Admissible(vendor, types) | corrupted encodings rejected).",
    note="the deviations are transcribed from the documentation of the corrections; numerical near-coincidences within norm_threshold are sampled, not decided",
    technique="TLA+ distortion/correction algebra (Vendors.tla) checked with TLC + TLC validation of loads of independently written vendor-encoded files"),
}
NOT_YET = "check not built yet in this round (planned, see DESIGN.md section 6)"

def main():
    checks = []
    for pid in PROPS:
        if pid in CHECKS:
            c = CHECKS[pid]
            checks.append({
                "property_id": pid,
                "quick_cmd": f"./check {pid} --tier quick",
                "thorough_cmd": f"./check {pid} --tier thorough",
                "evidence_file": f"/verif/evidence/{pid}.json",
                "replay_cmd_template": f"./check {pid} --replay {{path}}",
                "engine": "tlc-trace",
                "level_claimed": {"category": c["category"], "text": c["text"], "design_ref": c["design_ref"]},
                "level_note": c["note"],
                "technique": c["technique"],
            })
    na = [{"property_id": p, "reason": NA.get(p, NOT_YET)} for p in PROPS if p not in CHECKS]
    man = {
        "version": 1,
        "setup_cmd": "./tools/setup.sh",
        "hooks": {
            "guard": "IODATA_VERIF",
            "enable": "no source hooks are needed: the harness shims iodata.api.open / iodata.utils.open and wraps user iterables at run time (IODATA_VERIF is reserved and unused)",
            "baseline_off_cmd": "cd /repo && /venv/bin/python -m pytest -ra -q -p no:cacheprovider --timeout=900 --continue-on-collection-errors",
            "source_commits": [],
            "add_only": True,
        },
        "engines": [{
            "name": "tlc-trace", "path": "/verif/vf",
            "serves_properties": sorted(CHECKS),
            "kind_free_text": "TLA+ specifications in /verif/spec model-checked with TLC; Python harness drives the real library from /repo's working tree, records traces and validates them against the specifications with TLC (and replays TLC-generated behaviours/cases into the code)",
        }],
        "checks": checks,
        "not_applicable": na,
        "notes": "exit 0 = held (KNOWN-FINDING lines allowed), 1 = VIOLATION, 2 = machinery failure. known_findings.json is read-only at run time.",
    }
    with open(os.path.join(HERE, "MANIFEST.json"), "w") as fh:
        json.dump(man, fh, indent=1)
    print("MANIFEST.json:", len(checks), "checks,", len(na), "not_applicable")

NA = {}
if __name__ == "__main__":
    main()
