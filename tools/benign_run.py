#!/usr/bin/env python3
"""Run every check against the behaviour-preserving refactorings under /verif/benign (false-alarm controls).

usage: benign_run.py [patch name ...] [--checks C01,C02,...]
Each patch is applied to a throw-away worktree of /repo (VERIF_REPO, VERIF_NOEVIDENCE=1); every check must exit 0.
"""
import glob, os, subprocess, sys, tempfile
from concurrent.futures import ThreadPoolExecutor
args = sys.argv[1:]
checks = [f"C{i:02d}" for i in range(1, 21)]
if "--checks" in args:
    i = args.index("--checks"); checks = args[i + 1].split(","); del args[i:i + 2]
patches = [os.path.join("/verif/benign", a if a.endswith(".diff") else a + ".diff") for a in args] or sorted(glob.glob("/verif/benign/*.diff"))


def one(patch):
    wt = tempfile.mkdtemp(prefix="benign_", dir="/tmp"); os.rmdir(wt)
    subprocess.run(["git", "-C", "/repo", "worktree", "add", "-q", "--detach", wt, "HEAD"], check=True)
    out = []
    try:
        r = subprocess.run(["git", "-C", wt, "apply", patch])
        if r.returncode:
            return [(os.path.basename(patch), "-", "patch does not apply")]
        for c in checks:
            p = subprocess.run(["./check", c, "--tier", "quick"], cwd="/verif", env=dict(os.environ, VERIF_REPO=wt, VERIF_NOEVIDENCE="1"),
                               stdout=subprocess.PIPE, stderr=subprocess.STDOUT, text=True)
            keys = [l.strip()[5:][:140] for l in p.stdout.splitlines() if l.strip().startswith("key:")][:3]
            out.append((os.path.basename(patch), c, f"exit {p.returncode} {keys if p.returncode else ''}"))
    finally:
        subprocess.run(["git", "-C", "/repo", "worktree", "remove", "--force", wt])
    return out


with ThreadPoolExecutor(3) as ex:
    bad = 0
    for res in ex.map(one, patches):
        for name, c, msg in res:
            if not msg.startswith("exit 0"):
                bad += 1
                print("ALARM", name, c, msg, flush=True)
        print(res[0][0], "done:", sum(1 for r in res if r[2].startswith("exit 0")), "of", len(res), "quiet", flush=True)
sys.exit(1 if bad else 0)
