import json, sys
wt = sys.argv[1]; pids = sys.argv[2].split(",")
props = {json.loads(l)["id"]: json.loads(l) for l in open("/verif/properties.jsonl")}
blocks = []
for k, pid in enumerate(pids, 1):
    p = props[pid]
    blocks.append(f"""  Property {k}:
    Title: {p['title']}
    Statement: {p['statement']}
    Quantified over: {p['quantifier']['text']}
    Relevant files: {', '.join(p['anchors']['files'])}
""")
print(f"""You are helping to evaluate a verification effort for the Python library theochem/iodata (pure-Python library that loads, dumps and converts quantum-chemistry file formats into a common IOData object).

You have your own scratch git worktree of the repository at {wt} (detached HEAD). Work ONLY inside {wt}. Never touch /repo or /verif, never read anything under /verif.

Here are three semantic properties of the library that should hold:

{''.join(blocks)}
Your task: produce three DIFFERENT, realistic source changes to the library, ONE PER PROPERTY above (change k breaks property k; each a separate small patch against the worktree's HEAD, touching only files under iodata/ but not iodata/test/) such that each change
  (a) BREAKS its property,
  (b) still imports/compiles, and
  (c) still passes the ENTIRE existing test suite. Run it with:
        cd {wt} && /venv/bin/python -m pytest -q -p no:cacheprovider --timeout=900 --continue-on-collection-errors 2>&1 | tail -3
      The unmodified tree gives "515 passed, 16 errors" (the 16 errors are a pre-existing collection error of iodata/test/test_overlap.py under pytest-xdist and are expected). With your change the result must be identical: 515 passed, the same 16 errors, 0 failures.
  (d) The breakage must need something SPECIFIC to manifest -- a particular multi-step sequence of operations, an unusual (but valid, in-domain) input, a fault or failure at a particular point, a particular size/width boundary, or two cooperating code sites that each look fine alone -- NOT something that ordinary use would expose at once. Think of the kind of plausible bug a maintainer could introduce in a refactoring and that code review and the test suite would miss. Earlier rounds already tried the obvious places; look for the corners a thorough tester would still be likely to overlook (rarely used options and keyword arguments, optional sections of file formats, unusual but legal values, interactions between two features, error paths, second and later calls).

For each change also write a small demonstration program (plain Python script, exit code 1 and a message when the property is violated, exit code 0 otherwise) that FAILS with your change applied and PASSES on the unmodified worktree HEAD. Run it as: cd {wt} && PYTHONPATH={wt} /venv/bin/python <demo>   (check that iodata.__file__ points into {wt}).

Deliver, for change number k = 1, 2, 3:
  {wt}/_out/k/patch.diff      (output of `git diff` for that change alone, relative to HEAD)
  {wt}/_out/k/demo.py         (the demonstration)
  {wt}/_out/k/README.txt      (3-6 lines: which property, what was changed, why it breaks the property, what specific condition it needs in order to manifest, and the exact commands you ran with their results: test-suite summary line with the patch, demo exit codes with and without the patch)
Make sure the worktree is back at a clean HEAD (git checkout -- . ; the _out directory is untracked and stays) when you finish. Before finishing, re-verify each patch from a clean HEAD: `git apply _out/k/patch.diff`, run the full test suite (must be 515 passed), run the demo (must exit 1), `git checkout -- .`, run the demo again (must exit 0).
Do not change tests. Do not make changes that merely raise exceptions everywhere or that any normal use would notice immediately. Prefer subtle semantic changes. Never use git stash (the stash is shared between worktrees); use git apply -R or git checkout -- . to undo changes. Report briefly what you produced.""")
