#!/usr/bin/env python3
"""Run checks against a seeded change: applies the patch to a scratch worktree of /repo (VERIF_REPO),
runs ./check <id> for each given id, records detection in seeded/<name>/meta.json.

usage: seed_run.py <name> <check id> [<check id> ...] [--tier quick|thorough]
"""
import json, os, subprocess, sys, tempfile, shutil
args = sys.argv[1:]
tier = "quick"
if "--tier" in args:
    i = args.index("--tier"); tier = args[i + 1]; del args[i:i + 2]
name, checks = args[0], args[1:]
d = os.path.join("/verif/seeded", name)
meta = json.load(open(os.path.join(d, "meta.json")))
wt = tempfile.mkdtemp(prefix="seedrun_", dir="/tmp")
os.rmdir(wt)
subprocess.run(["git", "-C", "/repo", "worktree", "add", "-q", "--detach", wt, "HEAD"], check=True)
try:
    r = subprocess.run(["git", "-C", wt, "apply", os.path.join(d, "patch.diff")])
    assert r.returncode == 0, "patch does not apply to /repo HEAD"
    for c in checks:
        p = subprocess.run(["./check", c, "--tier", tier], cwd="/verif", env=dict(os.environ, VERIF_REPO=wt, VERIF_NOEVIDENCE="1"),
                           stdout=subprocess.PIPE, stderr=subprocess.STDOUT, text=True)
        nviol = sum(1 for l in p.stdout.splitlines() if l.startswith("VIOLATION"))
        keys = [l.strip()[5:] for l in p.stdout.splitlines() if l.strip().startswith("key:")][:5]
        meta["detected_by"][f"{c}:{tier}"] = {"exit": p.returncode, "violations": nviol, "sample_keys": keys}
        print(name, c, tier, "exit", p.returncode, "violations", nviol, keys[:2])
finally:
    subprocess.run(["git", "-C", "/repo", "worktree", "remove", "--force", wt])
json.dump(meta, open(os.path.join(d, "meta.json"), "w"), indent=1)
