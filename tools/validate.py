#!/usr/bin/env python3-vt
"""Validate MANIFEST.json and evidence/*.json against the schemas."""
import json, glob, sys, jsonschema
ok = True
man = json.load(open("/verif/MANIFEST.json"))
jsonschema.validate(man, json.load(open("/root/.vp/MANIFEST.schema.json")))
sch = json.load(open("/root/.vp/EVIDENCE.schema.json"))
for f in sorted(glob.glob("/verif/evidence/*.json")):
    try:
        jsonschema.validate(json.load(open(f)), sch)
    except Exception as e:
        ok = False; print("INVALID", f, str(e)[:300])
print("valid" if ok else "INVALID")
sys.exit(0 if ok else 1)
