#!/bin/sh
# Offline setup: verify tools, syntax-check every specification, create the scratch directory.
set -e
cd "$(dirname "$0")/.."
/venv/bin/python -c "import numpy, scipy, attrs, sympy" 
java -version >/dev/null 2>&1
mkdir -p .work evidence replays
fail=0
for f in spec/*.tla; do
  if ! (cd spec && java -cp /opt/veriftools/tla/tla2tools.jar:/opt/veriftools/tla/CommunityModules-deps.jar tla2sany.SANY "$(basename "$f")" >/tmp/sany.$$ 2>&1); then
    echo "SANY failed on $f"; tail -20 /tmp/sany.$$; fail=1
  fi
done
rm -f /tmp/sany.$$
[ $fail = 0 ] && echo "setup ok"
exit $fail
