#!/usr/bin/env python3
"""Regenerate the generated blocks of DESIGN.md (between <!-- BEGIN x --> / <!-- END x --> markers):

  findings   from known_findings.json (fixed + open)
  seeded     from seeded/*/meta.json (which checks detect which seeded change)
  evidence   from evidence/*.json (what the last committed run of each check covered)
"""
import glob
import json
import os
import re

HERE = os.path.dirname(os.path.dirname(os.path.abspath(__file__)))


def esc(s):
    return str(s).replace("|", "\\|").replace("\n", " ")


def findings():
    d = json.load(open(os.path.join(HERE, "known_findings.json")))
    out = ["### Repaired defects (one unguarded `fix:` commit each in /repo)", "",
           "| property | commit | what failed on the pinned tree |", "|---|---|---|"]
    for e in d["fixed"]:
        line = e.get("line", "")
        what = re.sub(r"^fixed: property=\S+ \S+ ", "", line)
        out.append(f"| {e['property']} | `{e['commit']}` | {esc(what)} |")
    out += ["", "### Open findings (printed as `KNOWN-FINDING`, keyed by the specific failing input)", "",
            "| property | key (computed by the check from the violation) | what fails, and why it is recorded rather than repaired |", "|---|---|---|"]
    for e in d["open"]:
        out.append(f"| {e['property']} | `{esc(e['key'])}` | {esc(e['what'])} |")
    return "\n".join(out)


def seeded():
    out = ["| change | what it does (the author's own words, shortened) | detected by |", "|---|---|---|"]
    for p in sorted(glob.glob(os.path.join(HERE, "seeded", "*", "meta.json"))):
        m = json.load(open(p))
        text = m.get("needs_to_manifest", "")
        first = re.split(r"(?<=[.;])\s", text.replace("\n", " "), maxsplit=2)
        short = " ".join(first[:2])[:330]
        det = ", ".join(f"{k} ({v.get('violations', '?')} violations)" for k, v in sorted(m.get("detected_by", {}).items()) if v.get("exit") == 1)
        quiet = ", ".join(k for k, v in sorted(m.get("detected_by", {}).items()) if v.get("exit") == 0)
        cell = det or "**not detected**"
        if quiet:
            cell += f"; quiet: {quiet}"
        out.append(f"| {m['name']} | {esc(short)} | {esc(cell)} |")
    return "\n".join(out)


def evidence():
    out = ["| id | level | tier | cases executed against the code | distinct non-trivial | TLC states generated (all runs) | traces validated | wall |",
           "|---|---|---|---|---|---|---|---|"]
    for p in sorted(glob.glob(os.path.join(HERE, "evidence", "C*.json"))):
        e = json.load(open(p))
        c = e["coverage"]
        out.append(f"| {e['property_id']} | {e['level']} | {e['tier']} | {c.get('evaluations')} | {c.get('distinct_nontrivial')} | "
                   f"{c.get('transitions', c.get('states'))} | {c.get('traces_validated_against_impl')} | {e.get('wall_s')} s |")
    return "\n".join(out)


def main():
    path = os.path.join(HERE, "DESIGN.md")
    s = open(path).read()
    for name, fn in (("findings", findings), ("seeded", seeded), ("evidence", evidence)):
        pat = re.compile(rf"(<!-- BEGIN {name} -->\n).*?(<!-- END {name} -->)", re.S)
        if not pat.search(s):
            raise SystemExit(f"marker {name} missing")
        s = pat.sub(lambda m, fn=fn: m.group(1) + fn() + "\n" + m.group(2), s)
    open(path, "w").write(s)


if __name__ == "__main__":
    main()
