#!/bin/sh
# Run the pinned test suite of /repo (guard off = no hooks exist) and print the summary line.
cd /repo && /venv/bin/python -m pytest -q -p no:cacheprovider --timeout=900 --continue-on-collection-errors 2>&1 | tail -1
