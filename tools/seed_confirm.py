#!/usr/bin/env python3
"""Confirm a sub-agent's seeded change in its scratch worktree and file it under /verif/seeded/<name>/.

usage: seed_confirm.py <property> <worktree> <k> [name]
Confirms: patch applies to clean HEAD; full test suite passes with it (515 passed); demo exits 1 with the
patch and 0 without.  Writes patch.diff, demo.py, meta.json.
"""
import json, os, shutil, subprocess, sys
pid, wt, k = sys.argv[1], sys.argv[2], sys.argv[3]
name = sys.argv[4] if len(sys.argv) > 4 else f"{pid}-{k}"
src = os.path.join(wt, "_out", k)
def sh(cmd, **kw):
    return subprocess.run(cmd, shell=True, cwd=wt, stdout=subprocess.PIPE, stderr=subprocess.STDOUT, text=True, **kw)
env = dict(os.environ, PYTHONPATH=wt)
assert sh("git status --porcelain --untracked-files=no").stdout.strip() == "", "worktree not clean"
demo0 = subprocess.run(["/venv/bin/python", os.path.join(src, "demo.py")], cwd=wt, env=env, stdout=subprocess.PIPE, stderr=subprocess.STDOUT, text=True)
r = sh(f"git apply {src}/patch.diff"); assert r.returncode == 0, r.stdout
try:
    tests = sh("/venv/bin/python -m pytest -q -p no:cacheprovider --timeout=900 --continue-on-collection-errors 2>&1 | tail -1").stdout.strip()
    demo1 = subprocess.run(["/venv/bin/python", os.path.join(src, "demo.py")], cwd=wt, env=env, stdout=subprocess.PIPE, stderr=subprocess.STDOUT, text=True)
finally:
    sh("git checkout -- .")
ok = ("515 passed" in tests and "failed" not in tests and demo1.returncode != 0 and demo0.returncode == 0)
dst = os.path.join("/verif/seeded", name)
os.makedirs(dst, exist_ok=True)
shutil.copy(os.path.join(src, "patch.diff"), dst)
shutil.copy(os.path.join(src, "demo.py"), dst)
readme = open(os.path.join(src, "README.txt")).read() if os.path.exists(os.path.join(src, "README.txt")) else ""
meta = {"property": pid, "name": name, "confirmed": ok, "needs_to_manifest": readme.strip(),
        "ran": {"tests_with_patch": tests, "demo_rc_with_patch": demo1.returncode, "demo_rc_without_patch": demo0.returncode,
                "base_commit": sh("git rev-parse --short HEAD").stdout.strip()},
        "detected_by": {}}
json.dump(meta, open(os.path.join(dst, "meta.json"), "w"), indent=1)
print(name, "CONFIRMED" if ok else "NOT CONFIRMED", tests, demo1.returncode, demo0.returncode)
