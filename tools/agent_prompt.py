#!/usr/bin/env python3
"""Print the prompt for a mutant-seeding sub-agent: only the property text + its worktree."""
import json, sys
pid, wt = sys.argv[1], sys.argv[2]
n = sys.argv[3] if len(sys.argv) > 3 else "two"
for l in open("/verif/properties.jsonl"):
    p = json.loads(l)
    if p["id"] == pid:
        break
print(f"""You are helping to evaluate a verification effort for the Python library theochem/iodata (pure-Python library that loads, dumps and converts quantum-chemistry file formats into a common IOData object).

You have your own scratch git worktree of the repository at {wt} (detached HEAD). Work ONLY inside {wt}. Never touch /repo or /verif, never read anything under /verif.

Here is a semantic property of the library that should hold:

  Title: {p['title']}
  Statement: {p['statement']}
  Quantified over: {p['quantifier']['text']}
  Relevant files: {', '.join(p['anchors']['files'])}

Your task: produce {n} DIFFERENT, realistic source changes to the library (each a separate small patch against the worktree's HEAD, touching only files under iodata/ but not iodata/test/) such that each change
  (a) BREAKS the property above,
  (b) still imports/compiles, and
  (c) still passes the ENTIRE existing test suite. Run it with:
        cd {wt} && /venv/bin/python -m pytest -q -p no:cacheprovider --timeout=900 --continue-on-collection-errors 2>&1 | tail -3
      The unmodified tree gives "515 passed, 16 errors" (the 16 errors are a pre-existing collection error of iodata/test/test_overlap.py under pytest-xdist and are expected). With your change the result must be identical: 515 passed, the same 16 errors, 0 failures.
  (d) The breakage must need something SPECIFIC to manifest -- a particular multi-step sequence of operations, an unusual (but valid, in-domain) input, a fault or failure at a particular point, a particular size/width boundary, or two cooperating code sites that each look fine alone -- NOT something that ordinary use would expose at once. Think of the kind of plausible bug a maintainer could introduce in a refactoring and that code review and the test suite would miss.

For each change also write a small demonstration program (plain Python script, exit code 1 and a message when the property is violated, exit code 0 otherwise) that FAILS with your change applied and PASSES on the unmodified worktree HEAD. Run it as: cd {wt} && PYTHONPATH={wt} /venv/bin/python <demo>   (check that iodata.__file__ points into {wt}).

Deliver, for change number k = 1, 2, ...:
  {wt}/_out/k/patch.diff      (output of `git diff` for that change alone, relative to HEAD)
  {wt}/_out/k/demo.py         (the demonstration)
  {wt}/_out/k/README.txt      (3-6 lines: what was changed, why it breaks the property, what specific condition it needs in order to manifest, and the exact commands you ran with their results: test-suite summary line with the patch, demo exit codes with and without the patch)
Make sure the worktree is back at a clean HEAD (git checkout -- . ; the _out directory is untracked and stays) when you finish. Before finishing, re-verify each patch from a clean HEAD: `git apply _out/k/patch.diff`, run the full test suite (must be 515 passed), run the demo (must exit 1), `git checkout -- .`, run the demo again (must exit 0).
Do not change tests. Do not make changes that merely raise exceptions everywhere or that any normal use would notice immediately. Prefer subtle semantic changes. Report briefly what you produced.""")
